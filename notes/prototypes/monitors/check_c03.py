#!/usr/bin/python3
import sys, json, os
sys.path.insert(0, os.path.dirname(__file__))
import shpref
def cmp(e,o):
    t=e['type']
    if t!=o['type']: return 'type'
    if t==0: return None
    if t in shpref.POINT:
        for k in ('x','y','z','m'):
            if k in e and e[k]!=o.get(k): return k
        return None
    if e['box']!=o['box']: return 'box'
    if e['zr']!=o['zr']: return 'zr'
    if e['mr']!='absent' and e['mr']!=o['mr']: return 'mr'
    for k in ('pts','parts','kinds'):
        if k in e and e[k]!=o.get(k): return k
    return None
d=sys.argv[1]
dec={}
for l in open(os.path.join(d,'decoded.jsonl')):
    j=json.loads(l); dec[j['file']]=j
bad=[]; n=0; feats={}
for l in open(os.path.join(d,'models.jsonl')):
    m=json.loads(l); o=dec[m['file']]; n+=1
    for f in m['features']: feats[f]=feats.get(f,0)+1
    if o.get('panic'): bad.append((m['file'],'panic')); continue
    if o['err']: bad.append((m['file'],'err '+o['err'],m['features'])); continue
    if len(o['shapes'])!=len(m['shapes']): bad.append((m['file'],'count %d!=%d'%(len(o['shapes']),len(m['shapes'])))); continue
    for i,(e,x) in enumerate(zip(m['shapes'],o['shapes'])):
        w=cmp(e,x)
        if w: bad.append((m['file'],'rec %d field %s'%(i,w),m['features'])); break
print('files',n,'violations',len(bad),'features',feats)
for b in bad[:15]: print(' ',b)
