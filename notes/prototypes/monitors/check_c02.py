#!/usr/bin/python3
import sys, json, os, time
sys.path.insert(0, os.path.dirname(__file__))
import shpref
from shpref import Bad

def norm_model(m):
    """model from driver dump -> comparable to decoder output"""
    return m
def cmp_shape(model, dec):
    t=model['type']
    if t!=dec['type']: return 'type'
    if t in shpref.POINT:
        for k in ('x','y','z','m'):
            if k in model and model[k]!=dec.get(k): return k
        return None
    if model['box']!=dec['box']: return 'box'
    if model['zr']!=dec['zr']: return 'zr'
    if model['mr']!=dec['mr']: return 'mr'
    if t in shpref.MULTIPOINT:
        if model['pts']!=dec['pts']: return 'pts'
    else:
        if model['parts']!=dec['parts']: return 'parts'
        if t==31 and model['kinds']!=dec['kinds']: return 'kinds'
    return None

def main(d):
    t0=time.time(); nfiles=0; nrec=0; bad=[]
    for line in open(os.path.join(d,'models.jsonl')):
        m=json.loads(line); nfiles+=1
        shp=open(os.path.join(d,m['file']+'.shp'),'rb').read(); shx=open(os.path.join(d,m['file']+'.shx'),'rb').read()
        try:
            h,recs=shpref.decode_shp(shp,strict=True)
            if h['type']!=m['type']: raise Bad('hdr.type.model','%d!=%d'%(h['type'],m['type']))
            if len(recs)!=len(m['shapes']): raise Bad('count','%d!=%d'%(len(recs),len(m['shapes'])))
            for i,(a,b) in enumerate(zip(m['shapes'],recs)):
                nrec+=1
                w=cmp_shape(a,b)
                if w: raise Bad('geometry.'+w,'record %d'%i)
            # C04
            hx,ents=shpref.decode_shx(shx)
            if shx[:24]!=shp[:24] or shx[28:100]!=shp[28:100]: raise Bad('shx.header','differs')
            if hx['length']!=50+4*len(recs): raise Bad('shx.len','')
            for i,(e,r) in enumerate(zip(ents,recs)):
                if e!=(r['_off']//2, r['_clen']): raise Bad('shx.entry','%d %r'%(i,e))
            if len(ents)!=len(recs): raise Bad('shx.count','')
        except Bad as e:
            bad.append((m['file'],str(e)))
    print('files',nfiles,'records',nrec,'violations',len(bad),'%.2fs'%(time.time()-t0))
    for b in bad[:20]: print(' ',b)
main(sys.argv[1])
