#!/usr/bin/python3
import sys, os, json, random, itertools, struct
sys.path.insert(0, os.path.dirname(__file__))
import shpref
def hb(v): return '%016x'%struct.unpack('<Q',struct.pack('<d',v))[0]
def model(r,t,i):
    if t==1: return dict(type=1,x=hb(float(i)),y=hb(r.uniform(-5,5)))
    n=2+r.randint(0,3)+i
    pts=[[hb(float(i)),hb(float(k))] for k in range(n)]
    return dict(type=3,box=[hb(float(i)),hb(0.0),hb(float(i)),hb(float(n-1))],zr=None,mr=None,parts=[pts])
def main(d,seed,maxn):
    os.makedirs(d,exist_ok=True); log=open(os.path.join(d,'models.jsonl'),'w'); k=0
    for t in (1,3):
      for n in range(1,maxn+1):
        for perm in itertools.permutations(range(n)):
          for fill in ('none','all','random'):
            r=random.Random('%s/%d/%d/%s/%s'%(seed,t,n,perm,fill)); ms=[model(r,t,i) for i in range(n)]
            def filler():
                if fill=='none': return b''
                if fill=='all' or r.random()<0.5: return bytes(r.randrange(256) for _ in range(2*r.randint(1,16)))
                return b''
            body=filler(); offs=[0]*n
            for logical in perm:
                offs[logical]=100+len(body); body+=shpref.enc_record(logical+1,ms[logical]); body+=filler()
            shp=shpref.enc_header((100+len(body))//2,t)+body
            shx=shpref.enc_header(50+4*n,t)+b''.join(struct.pack('>ii',offs[i]//2,(len(shpref.enc_record(1,ms[i]))-8)//2) for i in range(n))
            name='p%d_%d'%(t,k); k+=1
            open(os.path.join(d,name+'.shp'),'wb').write(shp); open(os.path.join(d,name+'.shx'),'wb').write(shx)
            log.write(json.dumps(dict(file=name,type=t,shapes=ms,perm=list(perm),fill=fill))+'\n')
main(sys.argv[1],sys.argv[2],int(sys.argv[3]))
