#!/usr/bin/python3
import sys, json, os
d=sys.argv[1]; dec={}
for l in open(os.path.join(d,'decodedx.jsonl')):
    j=json.loads(l); dec[j['file']]=j
def key(m): return json.dumps({k:v for k,v in m.items() if k in('type','x','y','parts','box')},sort_keys=True)
bad={}; n=0; seeks=0
for l in open(os.path.join(d,'models.jsonl')):
    m=json.loads(l); o=dec[m['file']]; n+=1
    exp=[key(s) for s in m['shapes']]
    it=[key(s) for s in o['iter']]; nth=[key(s) if s else None for s in o['nth']]
    desc=any(a>b for a,b in zip(m['perm'],m['perm'][1:]))
    errs=[]
    if o['iter_err'] or it!=exp: errs.append('iter')
    if nth!=exp: errs.append('nth')
    if o['count']!=len(exp): errs.append('count')
    if errs:
        k='%s/%s/%s'%('descending-somewhere' if desc else 'identity', m['fill'], '+'.join(errs)); bad.setdefault(k,[0,m['file'],m['perm']]); bad[k][0]+=1
print('files',n,'violating classes',len(bad))
for k,v in sorted(bad.items()): print(' ',v[0],k,'e.g.',v[1],v[2])
