#!/usr/bin/python3
import sys, os, json, random, struct
sys.path.insert(0, os.path.dirname(__file__))
import shpref
from shpref import bits, unbits
NO_DATA=struct.pack('<d',-10e38)
def hb(v): return '%016x'%struct.unpack('<Q',struct.pack('<d',v))[0]
ND=hb(-10e38)
SPECIAL=[0.0,-0.0,5e-324,2.2250738585072014e-308,float('inf'),float('-inf'),1.7976931348623157e308,-1.7976931348623157e308,-10e38,-1e300,1e-310]
NANS=['7ff8000000000000','fff8000000000000','7ff0000000000001','fff8000000000123']
def coord(r,dens,nan=False):
    if r.random()<dens:
        if nan and r.random()<0.25: return r.choice(NANS)
        return hb(r.choice(SPECIAL))
    if r.random()<0.5: return hb(r.randint(-2**20,2**20)*2.0**-r.randint(0,10))
    return hb(r.uniform(-1,1)*2.0**r.randint(-40,40))
def point(r,t,dens):
    p=[coord(r,dens),coord(r,dens)]
    if t in shpref.HASZ: p.append(coord(r,dens,True))
    if t in shpref.HASZ or t in shpref.HASM: p.append(coord(r,dens,True))
    return p
def gen_model(r,t,dens):
    if t==0: return dict(type=0)
    if t in shpref.POINT:
        p=point(r,t,dens); d=dict(type=t,x=p[0],y=p[1])
        if t==11: d['z']=p[2]; d['m']=p[3]
        if t==21: d['m']=p[2]
        return d
    d=dict(type=t,box=[coord(r,0.3) for _ in range(4)],zr=None,mr=None)
    if t in shpref.HASZ: d['zr']=[coord(r,0.3,True),coord(r,0.3,True)]
    if t in shpref.HASZ or t in shpref.HASM: d['mr']=[coord(r,0.3,True),coord(r,0.3,True)]
    if t in shpref.MULTIPOINT:
        d['pts']=[point(r,t,dens) for _ in range(r.choice([0,1,1,2,3,5]))]
    else:
        nparts=r.choice([0,1,1,2,3,4])
        d['parts']=[[point(r,t,dens) for _ in range(r.choice([0,1,2,3,4,5]))] for _ in range(nparts)]
        if t==31: d['kinds']=[r.randint(0,5) for _ in range(nparts)]
    return d
def expected(m, with_m):
    """what the library must report: measures normalised / absent -> NO_DATA"""
    t=m['type']; e=json.loads(json.dumps(m))
    def normm(h):
        v=struct.unpack('<d',unbits(h))[0]
        return ND if (v!=v or v<=-10e38) else h
    if t==11 and not with_m: e['m']=ND
    if t in shpref.POINT or t==0: return e
    def fix(p):
        if t in shpref.HASZ or t in shpref.HASM:
            p[-1]= normm(p[-1]) if with_m else ND
        return p
    if 'pts' in e: e['pts']=[fix(p) for p in e['pts']]
    else: e['parts']=[[fix(p) for p in part] for part in e['parts']]
    if not with_m and e['mr'] is not None: e['mr']='absent'
    return e
def main(d,seed,n):
    os.makedirs(d,exist_ok=True); log=open(os.path.join(d,'models.jsonl'),'w')
    for t in shpref.VALID:
        for i in range(n):
            r=random.Random('%s/%d/%d'%(seed,t,i)); dens=[0.0,0.2,1.0][i%3]
            k=r.randint(0,5); recs=b''; exp=[]; feats=set()
            for j in range(k):
                tt=t
                if t!=0 and r.random()<0.15: tt=0; feats.add('null-record')
                m=gen_model(r,tt,dens)
                with_m=True
                if tt in shpref.HASZ or tt in shpref.HASM:
                    if tt!=21 and r.random()<0.4: with_m=False; feats.add('no-M')
                num=r.choice([j+1,j+1,0,-5,7,2**31-1])
                recs+=shpref.enc_record(num,m,with_m); exp.append(expected(m,with_m))
            trailing=r.choice([0,0,2,9,64]); 
            if trailing: feats.add('trailing')
            box=[coord(r,0.3,True) for _ in range(8)]
            shp=shpref.enc_header((100+len(recs))//2,t,box)+recs+bytes(r.randrange(256) for _ in range(trailing))
            name='f%d_%d'%(t,i); open(os.path.join(d,name+'.shp'),'wb').write(shp)
            log.write(json.dumps(dict(file=name,type=t,shapes=exp,features=sorted(feats),hbox=box))+'\n')
main(sys.argv[1],sys.argv[2],int(sys.argv[3]))
