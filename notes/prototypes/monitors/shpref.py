#!/usr/bin/python3
"""Independent ESRI shapefile codec written from the 1998 whitepaper. stdlib only.
Floats are carried as 16-hex-digit big-endian bit patterns ("bits")."""
import struct

VALID = (0,1,3,5,8,11,13,15,18,21,23,25,28,31)
POINT={1,11,21}; MULTIPOINT={8,18,28}; POLY={3,5,13,15,23,25}; PATCH={31}
HASZ={11,13,15,18,31}; HASM={21,23,25,28}  # M-only types; Z types carry optional M as well

def bits(b):  # 8 little-endian bytes -> hex of the u64 bit pattern
    return '%016x' % struct.unpack('<Q', b)[0]
def unbits(h):
    return struct.pack('<Q', int(h,16))
def f(h): return struct.unpack('<d', unbits(h))[0]

class Bad(Exception):
    def __init__(self, rule, msg): Exception.__init__(self, '%s: %s'%(rule,msg)); self.rule=rule

def need(cond, rule, msg=''):
    if not cond: raise Bad(rule, msg)

def decode_header(buf):
    need(len(buf)>=100,'hdr.size','%d'%len(buf))
    code,=struct.unpack('>i',buf[0:4]); need(code==9994,'hdr.code',str(code))
    need(buf[4:24]==b'\0'*20,'hdr.unused')
    length,=struct.unpack('>i',buf[24:28])
    ver,typ=struct.unpack('<ii',buf[28:36])
    box=[bits(buf[36+8*i:44+8*i]) for i in range(8)]  # xmin ymin xmax ymax zmin zmax mmin mmax
    return dict(length=length,version=ver,type=typ,box=box)

def decode_body(typ, body, strict=True):
    """body excludes the 4-byte type code. returns model dict. strict: M block must be present (writer output)."""
    n=len(body)
    def dbl(o): need(o+8<=n,'rec.short'); return bits(body[o:o+8])
    def i32(o): need(o+4<=n,'rec.short'); return struct.unpack('<i',body[o:o+4])[0]
    if typ==0:
        need(n==0,'null.size'); return dict(type=0)
    if typ in POINT:
        want={1:16,21:24,11:32}[typ]
        if typ==11 and not strict: need(n in (24,32),'pt.size',str(n))
        else: need(n==want,'pt.size','%d!=%d'%(n,want))
        c=[dbl(8*i) for i in range(n//8)]
        d=dict(type=typ,x=c[0],y=c[1])
        if typ==11: d['z']=c[2]; d['m']=c[3] if n==32 else None
        if typ==21: d['m']=c[2]
        return d
    box=[dbl(0),dbl(8),dbl(16),dbl(24)]
    if typ in MULTIPOINT:
        npts=i32(32); need(npts>=0,'mp.npts'); o=36; nparts=None; offs=[0]; kinds=None
    else:
        nparts=i32(32); npts=i32(36); need(nparts>=0 and npts>=0,'poly.counts'); o=40
        offs=[i32(o+4*i) for i in range(nparts)]; o+=4*nparts
        if nparts: need(offs[0]==0,'parts.first')
        for a,b in zip(offs,offs[1:]): need(a<=b,'parts.order')
        for a in offs: need(0<=a<=npts,'parts.range')
        kinds=None
        if typ in PATCH:
            kinds=[i32(o+4*i) for i in range(nparts)]; o+=4*nparts
            for k in kinds: need(0<=k<=5,'patch.kind',str(k))
    xy=[(dbl(o+16*i),dbl(o+16*i+8)) for i in range(npts)]; o+=16*npts
    zr=zs=mr=ms=None
    if typ in HASZ:
        zr=[dbl(o),dbl(o+8)]; o+=16; zs=[dbl(o+8*i) for i in range(npts)]; o+=8*npts
    if typ in HASZ or typ in HASM:
        if o==n and not strict: pass
        else:
            mr=[dbl(o),dbl(o+8)]; o+=16; ms=[dbl(o+8*i) for i in range(npts)]; o+=8*npts
    need(o==n,'rec.size','%d!=%d'%(o,n))
    pts=[]
    for i in range(npts):
        p=[xy[i][0],xy[i][1]]
        if zs is not None: p.append(zs[i])
        if typ in HASZ or typ in HASM: p.append(ms[i] if ms is not None else None)
        pts.append(p)
    d=dict(type=typ,box=box,zr=zr,mr=mr)
    if typ in MULTIPOINT: d['pts']=pts
    else:
        ends=offs[1:]+[npts]
        d['parts']=[pts[a:b] for a,b in zip(offs,ends)] if nparts else []
        if kinds is not None: d['kinds']=kinds
    return d

def decode_shp(buf, strict=True):
    """strict validator for writer output. returns (header, [records])"""
    h=decode_header(buf)
    need(h['length']*2==len(buf),'hdr.length','%d*2!=%d'%(h['length'],len(buf)))
    need(h['version']==1000,'hdr.version'); need(h['type'] in VALID,'hdr.type')
    recs=[]; o=100; k=1
    while o<len(buf):
        need(o+8<=len(buf),'rec.hdr.short')
        num,clen=struct.unpack('>ii',buf[o:o+8])
        if strict: need(num==k,'rec.number','%d!=%d'%(num,k))
        need(clen>=2,'rec.content_len',str(clen))
        need(o+8+2*clen<=len(buf),'rec.overrun')
        typ,=struct.unpack('<i',buf[o+8:o+12])
        if strict: need(typ==h['type'],'rec.type','%d!=%d'%(typ,h['type']))
        else: need(typ in VALID,'rec.type')
        m=decode_body(typ,buf[o+12:o+8+2*clen],strict); m['_off']=o; m['_clen']=clen; m['_num']=num
        recs.append(m); o+=8+2*clen; k+=1
    return h,recs

def decode_shx(buf):
    h=decode_header(buf)
    need(h['length']*2==len(buf),'shx.length')
    need((len(buf)-100)%8==0,'shx.size')
    ents=[struct.unpack('>ii',buf[o:o+8]) for o in range(100,len(buf),8)]
    return h,ents

# ---------------- encoder (foreign layouts) ----------------
def enc_body(m, with_m=True):
    t=m['type']; out=b''
    if t==0: return out
    if t in POINT:
        out=unbits(m['x'])+unbits(m['y'])
        if t==11: out+=unbits(m['z'])
        if t==21 or (t==11 and with_m): out+=unbits(m['m'])
        return out
    out=b''.join(unbits(b) for b in m['box'])
    if t in MULTIPOINT:
        pts=m['pts']; out+=struct.pack('<i',len(pts))
    else:
        parts=m['parts']; pts=[p for part in parts for p in part]
        out+=struct.pack('<ii',len(parts),len(pts))
        s=0
        for part in parts: out+=struct.pack('<i',s); s+=len(part)
        if t in PATCH: out+=b''.join(struct.pack('<i',k) for k in m['kinds'])
    for p in pts: out+=unbits(p[0])+unbits(p[1])
    if t in HASZ:
        out+=unbits(m['zr'][0])+unbits(m['zr'][1])+b''.join(unbits(p[2]) for p in pts)
    if (t in HASZ or t in HASM) and with_m:
        out+=unbits(m['mr'][0])+unbits(m['mr'][1])+b''.join(unbits(p[-1]) for p in pts)
    return out

def enc_header(length_words, typ, box=None):
    box = box or ['0'*16]*8
    return struct.pack('>i',9994)+b'\0'*20+struct.pack('>i',length_words)+struct.pack('<ii',1000,typ)+b''.join(unbits(b) for b in box)

def enc_record(num, m, with_m=True):
    body=struct.pack('<i',m['type'])+enc_body(m,with_m)
    assert len(body)%2==0
    return struct.pack('>ii',num,len(body)//2)+body
