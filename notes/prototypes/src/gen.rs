use shapefile::*;
pub struct Rng(pub u64);
impl Rng { pub fn next(&mut self)->u64{ self.0=self.0.wrapping_add(0x9E3779B97F4A7C15); let mut z=self.0; z=(z^(z>>30)).wrapping_mul(0xBF58476D1CE4E5B9); z=(z^(z>>27)).wrapping_mul(0x94D049BB133111EB); z^(z>>31) }
  pub fn below(&mut self,n:u64)->u64{ self.next()%n } pub fn chance(&mut self,p:f64)->bool{ ((self.next()>>11) as f64/(1u64<<53) as f64) < p } }
pub const NO_DATA:f64=-10e38;
pub fn special(r:&mut Rng, allow_nan:bool)->f64{
    let pool=[0.0,-0.0,f64::MIN_POSITIVE,5e-324,-5e-324,f64::INFINITY,f64::NEG_INFINITY,f64::MAX,f64::MIN,f64::from_bits(f64::MAX.to_bits()-1),f64::from_bits(f64::MIN.to_bits()-1),NO_DATA,f64::from_bits(NO_DATA.to_bits()+1),f64::from_bits(NO_DATA.to_bits()-1),-1e300,1e-310];
    let nans=[f64::NAN,-f64::NAN,f64::from_bits(0x7ff0000000000001),f64::from_bits(0xfff8000000000123)];
    if allow_nan && r.chance(0.25) { nans[r.below(4) as usize] } else { pool[r.below(pool.len() as u64) as usize] } }
pub fn dyadic(r:&mut Rng)->f64{ let i=(r.below(1<<21) as i64)-(1<<20); let k=r.below(11) as i32; (i as f64)*(2f64).powi(-k) }
pub fn normal(r:&mut Rng)->f64{ let m=(r.next()>>11) as f64/(1u64<<53) as f64; let e=r.below(80) as i32-40; let s= if r.chance(0.5){-1.0}else{1.0}; s*(1.0+m)*(2f64).powi(e) }
pub struct Cfg{ pub dens:f64 }
pub fn coord(r:&mut Rng,c:&Cfg,nan:bool)->f64{ if r.chance(c.dens){special(r,nan)} else if r.chance(0.5){dyadic(r)} else {normal(r)} }
pub fn p2(r:&mut Rng,c:&Cfg)->Point{ Point::new(coord(r,c,false),coord(r,c,false)) }
pub fn pm(r:&mut Rng,c:&Cfg)->PointM{ PointM::new(coord(r,c,false),coord(r,c,false),coord(r,c,true)) }
pub fn pz(r:&mut Rng,c:&Cfg)->PointZ{ PointZ::new(coord(r,c,false),coord(r,c,false),coord(r,c,true),coord(r,c,true)) }
pub fn vecof<T>(r:&mut Rng,min:usize,max:usize,mut f:impl FnMut(&mut Rng)->T)->Vec<T>{ let n=min+r.below((max-min+1) as u64) as usize; (0..n).map(|_|f(r)).collect() }
