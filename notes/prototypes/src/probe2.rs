use crate::{dump::Dump,gen::*,iomon::*,gen_shape,write_one,TYPES};
use shapefile::*; use std::io::Cursor;
fn dumps(v:&[Shape])->Vec<String>{ crate::dump::NORM.with(|n|n.set(true)); crate::dump::MASK.with(|n|n.set(true)); let r=v.iter().map(|s|s.dump()).collect(); crate::dump::NORM.with(|n|n.set(false)); r }
pub fn c13(seed:u64){
    let mut cases=0; let mut bad=0;
    for &t in &TYPES { let mut r=Rng(seed^(t as u64)); let c=Cfg{dens:0.1}; let shapes:Vec<Shape>=(0..3).map(|_|gen_shape(t,&mut r,&c,3,4)).collect();
        let mut shp=Cursor::new(Vec::new()); let mut shx=Cursor::new(Vec::new()); { let mut w=ShapeWriter::with_shx(&mut shp,&mut shx); for s in &shapes{write_one(&mut w,s).unwrap();} }
        let (shp,shx)=(shp.into_inner(),shx.into_inner()); let want=dumps(&shapes);
        // record boundaries via own walk
        let mut b=vec![100usize]; let mut o=100; while o<shp.len(){ let l=i32::from_be_bytes([shp[o+4],shp[o+5],shp[o+6],shp[o+7]]) as usize; o+=8+2*l; b.push(o); }
        for l in 0..=shp.len(){ for with_shx in [false,true]{ cases+=1;
            let res=std::panic::catch_unwind(||{ let rd= if with_shx {ShapeReader::with_shx(Cursor::new(shp[..l].to_vec()),Cursor::new(shx.clone()))} else {ShapeReader::new(Cursor::new(shp[..l].to_vec()))};
                match rd { Err(e)=>Err(format!("{:?}",e)), Ok(mut rd)=>{ let mut items=vec![]; for it in rd.iter_shapes().take(10){ match it { Ok(s)=>items.push(Ok(s.dump())), Err(e)=>{items.push(Err(format!("{:?}",e)));break;} } } Ok(items) } } });
            let whole=b.iter().filter(|&&x|x<=l).count().saturating_sub(1);
            let ok=match &res { Err(_)=>false, Ok(Err(e))=> l<100 && e.starts_with("IoError"), Ok(Ok(items))=>{ l>=100 && { let oks:Vec<&String>=items.iter().filter_map(|x|x.as_ref().ok()).collect(); let n_ok=oks.len(); n_ok==whole && oks.iter().zip(&want).all(|(a,b)|*a==b) && if l<shp.len(){ matches!(items.last(),Some(Err(e)) if e.starts_with("IoError")) } else { items.len()==3 } } } };
            if !ok { bad+=1; if bad<6 { println!("C13 BAD type {} L {} shx {} whole {} res {:?}",t,l,with_shx,whole,res.as_ref().map(|r|r.as_ref().map(|v|v.iter().map(|x|x.as_ref().map(|_|"ok").map_err(|e|e.clone())).collect::<Vec<_>>()))); } } } }
        // shx truncation
        for m in 0..shx.len(){ cases+=1; let r=std::panic::catch_unwind(||ShapeReader::with_shx(Cursor::new(shp.clone()),Cursor::new(shx[..m].to_vec())).map(|_|()).map_err(|e|format!("{:?}",e))); if !matches!(&r,Ok(Err(e)) if e.starts_with("IoError")) { bad+=1; if bad<6 {println!("C13 BAD shx trunc type {} M {} {:?}",t,m,r);} } }
    }
    println!("C13 cases {} bad {}",cases,bad);
}
pub fn c11(seed:u64){
    let mut cases=0u64; let mut bad=0;
    for &t in &[3i32,1,31,15] { for placement in 0..3 { let mut r=Rng(seed^(t as u64)); let c=Cfg{dens:0.0}; let shapes:Vec<Shape>=(0..3).map(|_|gen_shape(t,&mut r,&c,2,3)).collect(); let want=dumps(&shapes);
        let shp=Dest::default(); let shx=Dest::default(); let mut committed=vec![]; // (shp op count at finalize completion, n shapes)
        { let mut w=ShapeWriter::with_shx(shp.clone(),shx.clone()); for (i,s) in shapes.iter().enumerate(){ write_one(&mut w,s).unwrap(); if placement==1 || (placement==2 && i==1) { w.finalize().unwrap(); committed.push((shp.0.borrow().ops.len(),i+1)); } } }
        let a=images(&shp.0.borrow().ops); let b=images(&shx.0.borrow().ops);
        for (oi,_k,img) in &a { 
            let floor=committed.iter().filter(|(n,_)|*n<=*oi).map(|x|x.1).max().unwrap_or(0);
            // no index
            cases+=1; let res=std::panic::catch_unwind(||{ match ShapeReader::new(Cursor::new(img.clone())) { Err(_)=>None, Ok(mut rd)=>{ let mut v=vec![]; for it in rd.iter_shapes().take(8){ match it {Ok(s)=>v.push(s.dump()),Err(_)=>break} } Some(v) } } });
            match res { Err(_)=>{bad+=1; println!("C11 panic");}, Ok(None)=>{ if floor>0 {bad+=1; println!("C11 lost committed (open failed) t{} op{}",t,oi);} }, Ok(Some(v))=>{ if !(v.len()<=want.len() && v.iter().zip(&want).all(|(x,y)|x==y)) {bad+=1; if bad<5{println!("C11 wrong shape t{} op{} placement{}",t,oi,placement);} } if v.len()<floor {bad+=1; if bad<5{println!("C11 lost committed t{} op{} got {} floor {}",t,oi,v.len(),floor);} } } }
            for (_oj,_kj,ximg) in b.iter().step_by(3) { cases+=1; let res=std::panic::catch_unwind(||{ match ShapeReader::with_shx(Cursor::new(img.clone()),Cursor::new(ximg.clone())) { Err(_)=>None, Ok(mut rd)=>{ let mut v=vec![]; for it in rd.iter_shapes().take(8){ match it {Ok(s)=>v.push(s.dump()),Err(_)=>break} } let n=rd.shape_count().unwrap(); for i in 0..n { if let Some(Ok(s))=rd.read_nth_shape(i){ if i>=want.len() || s.dump()!=want[i] { v.push("WRONG".into()); } } } Some(v) } } });
                match res { Err(_)=>{bad+=1; println!("C11 panic shx");}, Ok(None)=>{}, Ok(Some(v))=>{ if !(v.len()<=want.len() && v.iter().zip(&want).all(|(x,y)|x==y)) {bad+=1; if bad<5{println!("C11 wrong shape (shx) t{} ",t);} } } } }
        } } }
    println!("C11 cases {} bad {}",cases,bad);
}
pub fn c01(seed:u64){
    let nd=format!("{:016x}",(-10e38f64).to_bits());
    let mut cases=0; let mut bad=0;
    for &t in &TYPES { for i in 0..200u64 { let mut r=Rng(seed^((t as u64)<<20)^i); let c=Cfg{dens:[0.0,0.2,1.0][(i%3) as usize]}; let k=1+r.below(4) as usize; let shapes:Vec<Shape>=(0..k).map(|_|gen_shape(t,&mut r,&c,4,5)).collect();
        let mut shp=Cursor::new(Vec::new()); let mut shx=Cursor::new(Vec::new()); { let mut w=ShapeWriter::with_shx(&mut shp,&mut shx); for s in &shapes{write_one(&mut w,s).unwrap();} }
        let (shp,shx)=(shp.into_inner(),shx.into_inner());
        // expected: normalise measures in multi-vertex shapes (done textually on dump via re-parse is awkward; do numerically)
        let want:Vec<String>=dumps(&shapes);
        let got:Vec<String>=ShapeReader::new(Cursor::new(shp.clone())).unwrap().read().unwrap().iter().map(|s|s.dump()).collect();
        let mut rd=ShapeReader::with_shx(Cursor::new(shp.clone()),Cursor::new(shx.clone())).unwrap();
        let got2:Vec<String>=(0..k).map(|i|rd.read_nth_shape(i).unwrap().unwrap().dump()).collect();
        cases+=1; if want!=got || want!=got2 { bad+=1; if bad<4 { println!("C01 BAD type {} i {}\n want {:?}\n got  {:?}",t,i,want,got); } }
    } }
    println!("C01 cases {} bad {}",cases,bad);
}
fn nm(v:f64)->f64{ if v.is_nan()||v<=crate::gen::NO_DATA {crate::gen::NO_DATA} else {v} }
fn norm_dump(s:&Shape,_nd:&str)->String{ // rebuild a shape-like dump with normalised measures, without touching bbox
    // textual approach: dump, then for multi-vertex M/Z types replace last coordinate of each vertex
    let d=s.dump(); let t=match s { Shape::Point(_)|Shape::PointM(_)|Shape::PointZ(_)|Shape::NullShape=>return d, Shape::Multipoint(_)|Shape::Polyline(_)|Shape::Polygon(_)=>return d, _=>() }; let _=t;
    // find vertices arrays: after "pts": or "parts":
    let key= if d.contains("\"pts\":") {"\"pts\":"} else {"\"parts\":"}; let idx=d.find(key).unwrap()+key.len(); let (head,tail)=d.split_at(idx);
    let mut out=String::from(head); let bytes:Vec<char>=tail.chars().collect(); let mut i=0; 
    while i<bytes.len(){ // vertex = [ "h","h",...]: detect `"]`  preceded by 16 hex => last coord of a vertex
        if bytes[i]=='"' && i+18<=bytes.len() && bytes[i+17]=='"' && i+18<bytes.len() && bytes[i+18]==']' { let h:String=bytes[i+1..i+17].iter().collect(); let v=f64::from_bits(u64::from_str_radix(&h,16).unwrap()); out.push_str(&format!("\"{:016x}\"",nm(v).to_bits())); i+=18; } else { out.push(bytes[i]); i+=1; } }
    out }
pub fn c18(seed:u64){ use shapefile::record::WritableShape;
    let mut cases=0; let mut bad=0;
    for &t in &TYPES { for parts in 1..=6usize { for len in 1..=6usize { let mut r=Rng(seed); let c=Cfg{dens:0.0};
        // force exact counts: use gen with min=max by regenerating until counts match is wasteful; build directly
        let s=crate::gen_exact(t,&mut r,&c,parts,len);
        let mut buf=vec![]; let (ann,emit)=match &s { Shape::Point(x)=>{x.write_to(&mut buf).unwrap();(x.size_in_bytes(),buf.len())}, Shape::PointM(x)=>{x.write_to(&mut buf).unwrap();(x.size_in_bytes(),buf.len())}, Shape::PointZ(x)=>{x.write_to(&mut buf).unwrap();(x.size_in_bytes(),buf.len())},
            Shape::Multipoint(x)=>{x.write_to(&mut buf).unwrap();(x.size_in_bytes(),buf.len())}, Shape::MultipointM(x)=>{x.write_to(&mut buf).unwrap();(x.size_in_bytes(),buf.len())}, Shape::MultipointZ(x)=>{x.write_to(&mut buf).unwrap();(x.size_in_bytes(),buf.len())},
            Shape::Polyline(x)=>{x.write_to(&mut buf).unwrap();(x.size_in_bytes(),buf.len())}, Shape::PolylineM(x)=>{x.write_to(&mut buf).unwrap();(x.size_in_bytes(),buf.len())}, Shape::PolylineZ(x)=>{x.write_to(&mut buf).unwrap();(x.size_in_bytes(),buf.len())},
            Shape::Polygon(x)=>{x.write_to(&mut buf).unwrap();(x.size_in_bytes(),buf.len())}, Shape::PolygonM(x)=>{x.write_to(&mut buf).unwrap();(x.size_in_bytes(),buf.len())}, Shape::PolygonZ(x)=>{x.write_to(&mut buf).unwrap();(x.size_in_bytes(),buf.len())},
            Shape::Multipatch(x)=>{x.write_to(&mut buf).unwrap();(x.size_in_bytes(),buf.len())}, Shape::NullShape=>unreachable!() };
        cases+=1; if ann!=emit { bad+=1; println!("C18 BAD t{} parts{} len{} ann {} emit {}",t,parts,len,ann,emit); } } } }
    println!("C18 cases {} bad {}",cases,bad);
}
