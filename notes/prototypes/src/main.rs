mod dump; mod gen; mod iomon; mod probe2; mod probe3; mod probe4; mod probe5; mod probe6; mod probe7; mod probe8; mod probe9; mod probe10;
#[cfg(not(miri))] #[global_allocator] static GA:probe8::A=probe8::A;
use dump::Dump; use gen::*;
use shapefile::*;
use std::io::{Cursor, Write};

pub const TYPES:[i32;13]=[1,21,11,8,28,18,3,23,13,5,25,15,31];
pub fn gen_shape(t:i32, r:&mut Rng, c:&Cfg, maxparts:usize, maxlen:usize)->Shape{
    match t {
        1=>Shape::Point(p2(r,c)), 21=>Shape::PointM(pm(r,c)), 11=>Shape::PointZ(pz(r,c)),
        8=>Shape::Multipoint(Multipoint::new(vecof(r,1,maxlen,|r|p2(r,c)))),
        28=>Shape::MultipointM(MultipointM::new(vecof(r,1,maxlen,|r|pm(r,c)))),
        18=>Shape::MultipointZ(MultipointZ::new(vecof(r,1,maxlen,|r|pz(r,c)))),
        3=>Shape::Polyline(Polyline::with_parts(vecof(r,1,maxparts,|r|vecof(r,2,maxlen.max(2),|r|p2(r,c))))),
        23=>Shape::PolylineM(PolylineM::with_parts(vecof(r,1,maxparts,|r|vecof(r,2,maxlen.max(2),|r|pm(r,c))))),
        13=>Shape::PolylineZ(PolylineZ::with_parts(vecof(r,1,maxparts,|r|vecof(r,2,maxlen.max(2),|r|pz(r,c))))),
        5=>Shape::Polygon(Polygon::with_rings(vecof(r,1,maxparts,|r|{ let v=vecof(r,1,maxlen,|r|p2(r,c)); if r.chance(0.5){PolygonRing::Outer(v)}else{PolygonRing::Inner(v)} }))),
        25=>Shape::PolygonM(PolygonM::with_rings(vecof(r,1,maxparts,|r|{ let v=vecof(r,1,maxlen,|r|pm(r,c)); if r.chance(0.5){PolygonRing::Outer(v)}else{PolygonRing::Inner(v)} }))),
        15=>Shape::PolygonZ(PolygonZ::with_rings(vecof(r,1,maxparts,|r|{ let v=vecof(r,1,maxlen,|r|pz(r,c)); if r.chance(0.5){PolygonRing::Outer(v)}else{PolygonRing::Inner(v)} }))),
        31=>Shape::Multipatch(Multipatch::with_parts(vecof(r,1,maxparts,|r|{ let v=vecof(r,1,maxlen,|r|pz(r,c)); match r.below(6){0=>Patch::TriangleStrip(v),1=>Patch::TriangleFan(v),2=>Patch::OuterRing(v),3=>Patch::InnerRing(v),4=>Patch::FirstRing(v),_=>Patch::Ring(v)} }))),
        _=>unreachable!() } }
pub fn write_one<W:std::io::Write+std::io::Seek>(w:&mut ShapeWriter<W>, s:&Shape)->Result<(),Error>{ match s {
    Shape::NullShape=>unreachable!(),
    Shape::Point(x)=>w.write_shape(x),Shape::PointM(x)=>w.write_shape(x),Shape::PointZ(x)=>w.write_shape(x),
    Shape::Polyline(x)=>w.write_shape(x),Shape::PolylineM(x)=>w.write_shape(x),Shape::PolylineZ(x)=>w.write_shape(x),
    Shape::Polygon(x)=>w.write_shape(x),Shape::PolygonM(x)=>w.write_shape(x),Shape::PolygonZ(x)=>w.write_shape(x),
    Shape::Multipoint(x)=>w.write_shape(x),Shape::MultipointM(x)=>w.write_shape(x),Shape::MultipointZ(x)=>w.write_shape(x),
    Shape::Multipatch(x)=>w.write_shape(x) } }

pub fn gen_exact(t:i32, r:&mut Rng, c:&Cfg, parts:usize, len:usize)->Shape{
    let l2=len.max(2);
    match t {
        1|21|11=>gen_shape(t,r,c,1,1),
        8=>Shape::Multipoint(Multipoint::new(vecof(r,len,len,|r|p2(r,c)))), 28=>Shape::MultipointM(MultipointM::new(vecof(r,len,len,|r|pm(r,c)))), 18=>Shape::MultipointZ(MultipointZ::new(vecof(r,len,len,|r|pz(r,c)))),
        3=>Shape::Polyline(Polyline::with_parts(vecof(r,parts,parts,|r|vecof(r,l2,l2,|r|p2(r,c))))), 23=>Shape::PolylineM(PolylineM::with_parts(vecof(r,parts,parts,|r|vecof(r,l2,l2,|r|pm(r,c))))), 13=>Shape::PolylineZ(PolylineZ::with_parts(vecof(r,parts,parts,|r|vecof(r,l2,l2,|r|pz(r,c))))),
        5=>Shape::Polygon(Polygon::with_rings(vecof(r,parts,parts,|r|PolygonRing::Outer(vecof(r,len,len,|r|p2(r,c)))))), 25=>Shape::PolygonM(PolygonM::with_rings(vecof(r,parts,parts,|r|PolygonRing::Outer(vecof(r,len,len,|r|pm(r,c)))))), 15=>Shape::PolygonZ(PolygonZ::with_rings(vecof(r,parts,parts,|r|PolygonRing::Inner(vecof(r,len,len,|r|pz(r,c)))))),
        31=>Shape::Multipatch(Multipatch::with_parts(vecof(r,parts,parts,|r|Patch::TriangleFan(vecof(r,len,len,|r|pz(r,c)))))), _=>unreachable!() } }
fn main(){
    let a:Vec<String>=std::env::args().collect();
    match a[1].as_str(){
        "gen"=>{ let dir=&a[2]; let seed:u64=a[3].parse().unwrap(); let n:usize=a[4].parse().unwrap();
            std::fs::create_dir_all(dir).unwrap(); let mut log=std::fs::File::create(format!("{}/models.jsonl",dir)).unwrap();
            for &t in &TYPES { for i in 0..n { let mut r=Rng(seed^((t as u64)<<32)^(i as u64)); let c=Cfg{dens:[0.0,0.2,1.0][i%3]};
                let k=if i==0 {0} else {1+r.below(5) as usize}; let shapes:Vec<Shape>=(0..k).map(|_|gen_shape(t,&mut r,&c,4,5)).collect();
                let mut shp=Cursor::new(Vec::new()); let mut shx=Cursor::new(Vec::new());
                { let mut w=ShapeWriter::with_shx(&mut shp,&mut shx); for s in &shapes { write_one(&mut w,s).unwrap(); } if i%2==0 { w.finalize().unwrap(); } }
                let name=format!("t{}_{}",t,i); std::fs::write(format!("{}/{}.shp",dir,name),shp.get_ref()).unwrap(); std::fs::write(format!("{}/{}.shx",dir,name),shx.get_ref()).unwrap();
                writeln!(log,"{{\"file\":\"{}\",\"type\":{},\"shapes\":[{}]}}",name,if k==0{0}else{t},shapes.iter().map(|s|s.dump()).collect::<Vec<_>>().join(",")).unwrap(); } } }
        "read"=>{ let dir=&a[2]; let mut names:Vec<String>=std::fs::read_dir(dir).unwrap().filter_map(|e|{let p=e.unwrap().path(); if p.extension().map(|x|x=="shp").unwrap_or(false){Some(p.file_stem().unwrap().to_string_lossy().to_string())}else{None}}).collect(); names.sort();
            let mut log=std::fs::File::create(format!("{}/decoded.jsonl",dir)).unwrap();
            for name in names { let bytes=std::fs::read(format!("{}/{}.shp",dir,name)).unwrap();
                let res=std::panic::catch_unwind(||{ let mut out=vec![]; let mut err=String::new(); match ShapeReader::new(Cursor::new(bytes.clone())) { Err(e)=>err=format!("open: {}",e), Ok(mut rd)=>{ for it in rd.iter_shapes(){ match it { Ok(s)=>out.push(s.dump()), Err(e)=>{err=format!("{}",e);break;} } } } } (out,err) });
                match res { Ok((out,err))=>writeln!(log,"{{\"file\":\"{}\",\"shapes\":[{}],\"err\":{:?}}}",name,out.join(","),err).unwrap(), Err(_)=>writeln!(log,"{{\"file\":\"{}\",\"panic\":true}}",name).unwrap() } } }
        "c16"=>probe3::c16(a[2].parse().unwrap()), "c20"=>probe4::c20(a[2].parse().unwrap()), "c05"=>{probe5::c05(a[2].parse().unwrap(),false);probe5::c05(a[2].parse().unwrap(),true)}, "c09"=>probe6::c09(a[2].parse().unwrap()), "c15"=>probe7::c15(a[2].parse().unwrap()), "c07"=>probe8::c07(), "readx"=>{ let dir=&a[2]; let mut names:Vec<String>=std::fs::read_dir(dir).unwrap().filter_map(|e|{let p=e.unwrap().path(); if p.extension().map(|x|x=="shp").unwrap_or(false){Some(p.file_stem().unwrap().to_string_lossy().to_string())}else{None}}).collect(); names.sort();
            let mut log=std::fs::File::create(format!("{}/decodedx.jsonl",dir)).unwrap();
            for name in names { let shp=std::fs::read(format!("{}/{}.shp",dir,name)).unwrap(); let shx=std::fs::read(format!("{}/{}.shx",dir,name)).unwrap();
                let mut rd=ShapeReader::with_shx(Cursor::new(shp),Cursor::new(shx)).unwrap(); let mut it=vec![]; let mut err=String::new(); for x in rd.iter_shapes().take(50){ match x {Ok(s)=>it.push(s.dump()),Err(e)=>{err=format!("{}",e);break;}} }
                let n=rd.shape_count().unwrap(); let nth:Vec<String>=(0..n).map(|i| match rd.read_nth_shape(i){Some(Ok(s))=>s.dump(),_=>"null".into()}).collect();
                writeln!(log,"{{\"file\":\"{}\",\"iter\":[{}],\"iter_err\":{:?},\"nth\":[{}],\"count\":{}}}",name,it.join(","),err,nth.join(","),n).unwrap(); } }
        "c07m"=>probe8::c07m(a[2].parse().unwrap()), "c10"=>probe10::c10(a[2].parse().unwrap()), "c06"=>probe10::c06(a[2].parse().unwrap()), "c17e"=>probe10::c17e(), "c01roles"=>probe10::c01roles(a[2].parse().unwrap()), "c19"=>probe9::c19(a[2]=="full"), "c13"=>probe2::c13(a[2].parse().unwrap()), "c11"=>probe2::c11(a[2].parse().unwrap()), "c01"=>probe2::c01(a[2].parse().unwrap()), "c18"=>probe2::c18(a[2].parse().unwrap()),
        _=>panic!("usage") }
}
