use crate::gen::*; use shapefile::*; use std::convert::TryFrom;
use geo_types as g;
fn tof(v:i64)->f64{ (v as f64)*0.25 }
fn ring(r:&mut Rng, cw:bool)->Vec<Point>{ // simple non-degenerate: star-shaped polygon around a centre, guaranteed nonzero area
    let cx=(r.below(200) as i64)-100; let cy=(r.below(200) as i64)-100; let n=3+r.below(4) as usize;
    // convex-ish: take points on a square spiral: use fixed octagon directions scaled
    let dirs=[(4,0),(3,3),(0,4),(-3,3),(-4,0),(-3,-3),(0,-4),(3,-3)]; let mut idx:Vec<usize>=(0..8).collect(); while idx.len()>n { let k=r.below(idx.len() as u64) as usize; idx.remove(k); }
    let s=1+r.below(5) as i64; let mut v:Vec<Point>=idx.iter().map(|&k|Point::new(tof(cx+dirs[k].0*s),tof(cy+dirs[k].1*s))).collect(); // CCW order
    if cw { v.reverse(); } let f=v[0]; v.push(f); v }
fn canon(v:&[(u64,u64)])->Vec<(u64,u64)>{ let mut a=v.to_vec(); let mut b=v.to_vec(); b.reverse(); if b<a {a=b;} a }
fn bitsc(c:&g::Coord<f64>)->(u64,u64){ (c.x.to_bits(),c.y.to_bits()) }
pub fn c20(seed:u64){
    let mut cases=0; let mut bad=0;
    for i in 0..5000u64 { let mut r=Rng(seed^i);
        // shape polygon outer-first with groups
        let ng=1+r.below(3) as usize; let mut rings=vec![]; let mut groups:Vec<(Vec<Point>,Vec<Vec<Point>>)>=vec![];
        for _ in 0..ng { let o=ring(&mut r,true); let nh=r.below(3) as usize; let hs:Vec<Vec<Point>>=(0..nh).map(|_|ring(&mut r,false)).collect(); rings.push(PolygonRing::Outer(o.clone())); for h in &hs { rings.push(PolygonRing::Inner(h.clone())); } groups.push((o,hs)); }
        let poly=Polygon::with_rings(rings);
        let mp:g::MultiPolygon<f64>=poly.clone().into();
        cases+=1; let mut ok= mp.0.len()==ng;
        if ok { for (gp,(o,hs)) in mp.0.iter().zip(&groups){ ok&= gp.exterior().0.iter().map(bitsc).collect::<Vec<_>>()==o.iter().map(|p|(p.x.to_bits(),p.y.to_bits())).collect::<Vec<_>>(); ok&= gp.interiors().len()==hs.len(); for (gi,h) in gp.interiors().iter().zip(hs){ ok&= gi.0.iter().map(bitsc).collect::<Vec<_>>()==h.iter().map(|p|(p.x.to_bits(),p.y.to_bits())).collect::<Vec<_>>(); } } }
        let back:Polygon=mp.clone().into(); ok&= back==poly;
        if !ok { bad+=1; if bad<4 {println!("C20 BAD polygon->geo case {}",i);} }
        // geo -> shape -> geo, exterior CCW (geo convention), holes CW
        let gpolys:Vec<g::Polygon<f64>>=groups.iter().map(|(o,hs)|{ let mut e:Vec<g::Coord<f64>>=o.iter().map(|p|g::Coord{x:p.x,y:p.y}).collect(); e.reverse(); let ints:Vec<g::LineString<f64>>=hs.iter().map(|h|{let mut v:Vec<g::Coord<f64>>=h.iter().map(|p|g::Coord{x:p.x,y:p.y}).collect(); v.reverse(); g::LineString(v)}).collect(); g::Polygon::new(g::LineString(e),ints) }).collect();
        let gm=g::MultiPolygon(gpolys.clone()); let s:Polygon=gm.clone().into(); let gm2:g::MultiPolygon<f64>=s.into();
        cases+=1; let mut ok= gm2.0.len()==gm.0.len(); if ok { for (a,b) in gm.0.iter().zip(&gm2.0){ ok&= canon(&a.exterior().0.iter().map(bitsc).collect::<Vec<_>>())==canon(&b.exterior().0.iter().map(bitsc).collect::<Vec<_>>()); ok&= a.interiors().len()==b.interiors().len(); for (x,y) in a.interiors().iter().zip(b.interiors()){ ok&= canon(&x.0.iter().map(bitsc).collect::<Vec<_>>())==canon(&y.0.iter().map(bitsc).collect::<Vec<_>>()); } } }
        if !ok { bad+=1; if bad<4 {println!("C20 BAD geo->shape->geo case {}",i);} }
        // Geometry dispatch
        let geom=g::Geometry::Polygon(gpolys[0].clone()); let sh=Shape::try_from(geom).unwrap(); ok=matches!(sh,Shape::Polygon(_));
        let gg=g::Geometry::<f64>::try_from(sh).unwrap(); ok&=matches!(gg,g::Geometry::MultiPolygon(_)); if !ok {bad+=1;}
    }
    // refusals
    let res=std::panic::catch_unwind(||{ let mut v=vec![]; v.push(g::Geometry::<f64>::try_from(Shape::NullShape).is_err());
        v.push(g::Geometry::<f64>::try_from(Shape::Multipatch(Multipatch::new(Patch::TriangleStrip(vec![PointZ::new(0.,0.,0.,0.),PointZ::new(1.,0.,0.,0.),PointZ::new(1.,1.,0.,0.)])))).is_err());
        v.push(g::Geometry::<f64>::try_from(Shape::Multipatch(Multipatch::new(Patch::TriangleFan(vec![PointZ::new(0.,0.,0.,0.),PointZ::new(1.,0.,0.,0.),PointZ::new(1.,1.,0.,0.)])))).is_err());
        v.push(Shape::try_from(g::Geometry::GeometryCollection(g::GeometryCollection(vec![]))).is_err());
        v.push(Shape::try_from(g::Geometry::Rect(g::Rect::new(g::Coord{x:0.,y:0.},g::Coord{x:1.,y:1.}))).is_err());
        v.push(Shape::try_from(g::Geometry::Triangle(g::Triangle::new(g::Coord{x:0.,y:0.},g::Coord{x:1.,y:1.},g::Coord{x:1.,y:0.}))).is_err()); v });
    println!("C20 refusals {:?}",res);
    // geo-traits dims
    { use geo_traits::CoordTrait; let nd=-10e38f64; let mut tb=0;
      for m in [1.0,nd,-1e39,f64::NAN,f64::from_bits(nd.to_bits()-1),f64::INFINITY,f64::NEG_INFINITY] {
        let p=PointM::new(1.,2.,m); let r=std::panic::catch_unwind(||{ let d=CoordTrait::dim(&p).size(); (0..d).map(|i|CoordTrait::nth(&p,i).unwrap().to_bits()).collect::<Vec<_>>() }); let exp=[1f64.to_bits(),2f64.to_bits(),m.to_bits()]; match r { Ok(v)=>{ if v[..]!=exp[..v.len()] {tb+=1; println!("traits PointM m={} mismatch",m);} }, Err(_)=>{tb+=1; println!("traits PointM m={} panic",m);} }
        let p=PointZ::new(1.,2.,3.,m); let r=std::panic::catch_unwind(||{ let d=CoordTrait::dim(&p).size(); (0..d).map(|i|CoordTrait::nth(&p,i).unwrap().to_bits()).collect::<Vec<_>>() }); let exp=[1f64.to_bits(),2f64.to_bits(),3f64.to_bits(),m.to_bits()]; match r { Ok(v)=>{ if v[..]!=exp[..v.len()] {tb+=1; println!("traits PointZ m={} mismatch",m);} }, Err(_)=>{tb+=1; println!("traits PointZ m={} panic",m);} } }
      println!("C20 traits bad {}",tb); }
    println!("C20 cases {} bad {}",cases,bad);
}
