use crate::{gen::*,gen_shape,write_one,iomon::*}; use shapefile::*;
use std::collections::BTreeMap;
fn refbytes(shapes:&[&Shape],shx:bool)->(Vec<u8>,Vec<u8>){ let a=Dest::default(); let b=Dest::default(); { let mut w= if shx {ShapeWriter::with_shx(a.clone(),b.clone())} else {ShapeWriter::new(a.clone())}; for s in shapes { write_one(&mut w,s).unwrap(); } } let r=(a.0.borrow().data.clone(),b.0.borrow().data.clone()); r }
pub fn c09(seed:u64){
    let mut total=0; let mut bad:BTreeMap<String,(usize,String)>=BTreeMap::new();
    for &t in &[1i32,3,15,31,28] { let mut r=Rng(seed^(t as u64)); let c=Cfg{dens:0.0}; let sa=gen_shape(t,&mut r,&c,1,2); let sb=gen_shape(t,&mut r,&c,3,5);
      for with_shx in [true,false] { for len in 0..=6usize { for code in 0..3usize.pow(len as u32) { for ending in 0..3 {
        let word:Vec<usize>=(0..len).map(|i|(code/3usize.pow(i as u32))%3).collect(); // 0=Wa 1=Wb 2=F
        total+=1; let a=Dest::default(); let b=Dest::default(); let mut written:Vec<&Shape>=vec![]; let mut errs=vec![];
        { let mut w= if with_shx {ShapeWriter::with_shx(a.clone(),b.clone())} else {ShapeWriter::new(a.clone())}; let mut since_fin=true; let mut fin_seen=false;
          for (i,&l) in word.iter().enumerate(){ a.0.borrow_mut().epoch=i+1; b.0.borrow_mut().epoch=i+1;
            match l { 0=>{write_one(&mut w,&sa).unwrap(); written.push(&sa); since_fin=true;}, 1=>{write_one(&mut w,&sb).unwrap(); written.push(&sb); since_fin=true;},
              _=>{ w.finalize().unwrap(); let (rs,rx)=refbytes(&written,with_shx);
                   if a.0.borrow().data!=rs { errs.push("after-F:shp-not-complete"); } if with_shx && b.0.borrow().data!=rx { errs.push("after-F:shx-not-complete"); }
                   for (d,name) in [(&a,"shp"),(&b,"shx")] { if name=="shx" && !with_shx {continue;} let st=d.0.borrow(); let ops:Vec<&Op>=st.ops.iter().filter(|(e,_)|*e==i+1).map(|x|&x.1).collect();
                      if fin_seen && !since_fin { if !ops.is_empty(){ errs.push("noop-finalize-does-io"); } } else { if !matches!(ops.last(),Some(Op::Flush)) { errs.push("not-flushed"); } } }
                   since_fin=false; fin_seen=true; } } }
          a.0.borrow_mut().epoch=999; b.0.borrow_mut().epoch=999;
          match ending { 0=>drop(w), 1=>{ w.finalize().unwrap(); drop(w) }, _=>{ match (&sa,&sb) { _=>{ // write_shapes tail of [a,b]
                 fn tail<W:std::io::Write+std::io::Seek>(w:ShapeWriter<W>, s:&[&Shape]){ match s[0] { Shape::Point(_)=>{let v:Vec<&Point>=s.iter().map(|x| if let Shape::Point(p)=x {p} else {unreachable!()}).collect(); w.write_shapes(v).unwrap()}, Shape::Polyline(_)=>{let v:Vec<&Polyline>=s.iter().map(|x| if let Shape::Polyline(p)=x {p} else {unreachable!()}).collect(); w.write_shapes(v).unwrap()}, Shape::PolygonZ(_)=>{let v:Vec<&PolygonZ>=s.iter().map(|x| if let Shape::PolygonZ(p)=x {p} else {unreachable!()}).collect(); w.write_shapes(v).unwrap()}, Shape::Multipatch(_)=>{let v:Vec<&Multipatch>=s.iter().map(|x| if let Shape::Multipatch(p)=x {p} else {unreachable!()}).collect(); w.write_shapes(v).unwrap()}, Shape::MultipointM(_)=>{let v:Vec<&MultipointM>=s.iter().map(|x| if let Shape::MultipointM(p)=x {p} else {unreachable!()}).collect(); w.write_shapes(v).unwrap()}, _=>unreachable!() } }
                 tail(w,&[&sa,&sb]); written.push(&sa); written.push(&sb); } } } } }
        let (rs,rx)=refbytes(&written,with_shx);
        if a.0.borrow().data!=rs { errs.push("final:shp"); } if with_shx && b.0.borrow().data!=rx { errs.push("final:shx"); }
        if !errs.is_empty(){ let first_w=word.iter().position(|&l|l<2); let first_f=word.iter().position(|&l|l==2); let class= if matches!((first_f,first_w),(Some(f),Some(w)) if f<w) || (first_f.is_some() && first_w.is_none() && ending==2) {"F-before-first-W"} else {"other"};
            errs.sort(); errs.dedup(); let key=format!("{}:{}",class,errs.join("+")); let e=bad.entry(key).or_insert((0,format!("t{} shx{} word{:?} end{}",t,with_shx,word,ending))); e.0+=1; }
      } } } } }
    println!("C09 histories {} ", total); for (k,v) in &bad { println!("  {:6} {}  e.g. {}",v.0,k,v.1); }
}
