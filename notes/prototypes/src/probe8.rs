use shapefile::*; use std::io::Cursor;
use std::alloc::{GlobalAlloc, Layout, System};
use std::sync::atomic::{AtomicUsize, Ordering::*};
use std::collections::BTreeMap; use std::sync::Mutex;
extern "C" { fn mmap(a:*mut u8,l:usize,p:i32,f:i32,fd:i32,o:i64)->*mut u8; fn munmap(a:*mut u8,l:usize)->i32; }
pub struct A; pub static MAXREQ:AtomicUsize=AtomicUsize::new(0); pub static LIVE:AtomicUsize=AtomicUsize::new(0); pub static PEAK:AtomicUsize=AtomicUsize::new(0);
const BIG:usize=1<<28;
unsafe impl GlobalAlloc for A{
    unsafe fn alloc(&self,l:Layout)->*mut u8{ MAXREQ.fetch_max(l.size(),Relaxed); let v=LIVE.fetch_add(l.size(),Relaxed)+l.size(); PEAK.fetch_max(v,Relaxed); if l.size()>BIG { let p=mmap(std::ptr::null_mut(), l.size(), 3, 0x2|0x20|0x4000, -1, 0); if p as isize == -1 { return std::ptr::null_mut(); } return p; } System.alloc(l) }
    unsafe fn dealloc(&self,p:*mut u8,l:Layout){ LIVE.fetch_sub(l.size(),Relaxed); if l.size()>BIG { munmap(p,l.size()); return; } System.dealloc(p,l) }
    unsafe fn realloc(&self,p:*mut u8,l:Layout,n:usize)->*mut u8{ MAXREQ.fetch_max(n,Relaxed); if n>BIG || l.size()>BIG { let q=self.alloc(Layout::from_size_align_unchecked(n,l.align())); if !q.is_null(){ std::ptr::copy_nonoverlapping(p,q,l.size().min(n)); self.dealloc(p,l);} return q; } let v=LIVE.fetch_add(n,Relaxed)+n; LIVE.fetch_sub(l.size(),Relaxed); PEAK.fetch_max(v,Relaxed); System.realloc(p,l,n) }
}
static PANICS: Mutex<BTreeMap<String,(usize,String)>> = Mutex::new(BTreeMap::new());
fn files()->Vec<(String,Vec<u8>,Vec<u8>)>{
    let mut out=vec![];
    for &t in &crate::TYPES { let mut r=crate::gen::Rng(7^(t as u64)); let c=crate::gen::Cfg{dens:0.0}; let shapes:Vec<Shape>=(0..2).map(|_|crate::gen_shape(t,&mut r,&c,3,3)).collect();
        let mut shp=Cursor::new(Vec::new()); let mut shx=Cursor::new(Vec::new()); { let mut w=ShapeWriter::with_shx(&mut shp,&mut shx); for s in &shapes{crate::write_one(&mut w,s).unwrap();} }
        out.push((format!("t{}",t),shp.into_inner(),shx.into_inner())); }
    out }
fn exercise(shp:&[u8], shx:Option<&[u8]>)->usize{
    let mut items=0usize; let cap=shp.len()+shx.map(|s|s.len()).unwrap_or(0)+2;
    let mk=|| -> Result<ShapeReader<Cursor<Vec<u8>>>,Error> { match shx { Some(x)=>ShapeReader::with_shx(Cursor::new(shp.to_vec()),Cursor::new(x.to_vec())), None=>ShapeReader::new(Cursor::new(shp.to_vec())) } };
    if let Ok(mut r)=mk(){
        let mut k=0; for it in r.iter_shapes() { k+=1; if k>cap { panic!("VERIF-UNBOUNDED first iteration"); } let _=it; } items+=k;
        let _=r.shape_count();
        for i in 0..6 { let _=r.read_nth_shape(i); let _=r.seek(i); }
        let mut k=0; for it in r.iter_shapes() { k+=1; if k>cap { panic!("VERIF-UNBOUNDED second iteration"); } let _=it; } items+=k;
    }
    if let Ok(r)=mk(){ let _=r.read(); }
    if let Ok(r)=mk(){ let _=r.read_as::<Polyline>(); }
    if let Ok(r)=mk(){ let _=r.read_as::<Multipatch>(); }
    if let Ok(r)=mk(){ let _=r.read_as::<MultipointZ>(); }
    items }
pub fn c07(){
    std::panic::set_hook(Box::new(|info|{ let loc=info.location().map(|l|format!("{}:{}",l.file(),l.line())).unwrap_or_default();
        let msg= if let Some(s)=info.payload().downcast_ref::<&str>(){s.to_string()} else if let Some(s)=info.payload().downcast_ref::<String>(){s.clone()} else {"?".into()};
        let msg: String = msg.chars().take(60).collect(); let mut m=PANICS.lock().unwrap(); let e=m.entry(format!("{} | {}",loc,msg)).or_insert((0,String::new())); e.0+=1; }));
    let vals:[i32;16]=[0,1,-1,2,i32::MIN,i32::MAX,1<<30,(1<<30)+1,-2,1<<28,1<<27,0x7fffff00u32 as i32,1<<20,100000,(1<<28)+3,3];
    let mut cases=0usize; let mut worst=(0f64,String::new()); let mut over=0usize;
    for (name,shp,shx) in files(){ for target in 0..2 { let base= if target==0 {&shp} else {&shx};
        for off in (0..base.len()).step_by(4){ for &v in &vals { for be in [true,false]{
            let mut m=base.clone(); let b= if be {v.to_be_bytes()} else {v.to_le_bytes()}; m[off..off+4].copy_from_slice(&b);
            for with_shx in [false,true]{ if target==1 && !with_shx {continue;}
                let (s,x):(&[u8],Option<&[u8]>)= if target==0 {(&m, if with_shx {Some(&shx)} else {None})} else {(&shp,Some(&m))};
                cases+=1; let desc=format!("{} target={} off={} v={} be={} shx={}",name,target,off,v,be,with_shx);
                MAXREQ.store(0,Relaxed); let base_live=LIVE.load(Relaxed); PEAK.store(base_live,Relaxed);
                let r=std::panic::catch_unwind(||exercise(s,x));
                if r.is_err(){ let mut mm=PANICS.lock().unwrap(); for (_k,e) in mm.iter_mut(){ if e.1.is_empty(){ e.1=desc.clone(); } } }
                let inlen=(s.len()+x.map(|x|x.len()).unwrap_or(0)) as f64; let peak=(PEAK.load(Relaxed).saturating_sub(base_live)) as f64; // includes harness copies of input (2-3x)
                let ratio=peak.max(MAXREQ.load(Relaxed) as f64)/inlen; if ratio>64.0+65536.0/inlen {over+=1;} if ratio>worst.0 { worst=(ratio,desc.clone()); }
            } }} } } }
    // truncations
    for (name,shp,shx) in files(){ for l in 0..shp.len(){ for with_shx in [false,true]{ cases+=1; let x= if with_shx {Some(&shx[..])} else {None}; let r=std::panic::catch_unwind(||exercise(&shp[..l],x)); if r.is_err(){ let mut mm=PANICS.lock().unwrap(); for (_k,e) in mm.iter_mut(){ if e.1.is_empty(){ e.1=format!("{} trunc {}",name,l); } } } } } }
    let _=std::panic::take_hook();
    println!("C07/C17 cases {}", cases); for (k,(n,d)) in PANICS.lock().unwrap().iter(){ println!("{:6} {}   e.g. {}", n,k,d); }
    println!("alloc: cases over 64x+64KiB: {}  worst ratio {:.1} at {}", over, worst.0, worst.1);
}

pub fn c07m(n:usize){ let fs=files(); let mut r=crate::gen::Rng(42); let mut done=0; let t0=std::time::Instant::now();
    while done<n { let (_,shp,shx)=&fs[r.below(fs.len() as u64) as usize]; let l=100+r.below((shp.len()-100) as u64) as usize; let with_shx=r.chance(0.5);
        let mut m=shp[..l].to_vec(); if r.chance(0.5) && l>140 { let off=100+4*(r.below(((l-104)/4) as u64) as usize); let v=[0i32,-1,1,2,3,7][r.below(6) as usize]; m[off..off+4].copy_from_slice(&v.to_le_bytes()); }
        let _=std::panic::catch_unwind(||exercise(&m, if with_shx {Some(&shx[..])} else {None})); done+=1; }
    println!("miri shard: {} cases in {:.1}s",done,t0.elapsed().as_secs_f64()); }
