use shapefile::*; use std::io::Cursor;
const CODES:[i32;14]=[0,1,3,5,8,11,13,15,18,21,23,25,28,31];
pub fn c19(full_header:bool){
    let t0=std::time::Instant::now();
    let nthreads=16u64; let chunk=(1u64<<32)/nthreads;
    let hs:Vec<std::thread::JoinHandle<(u64,u64)>>=(0..nthreads).map(|k| std::thread::spawn(move||{ let mut some=0u64; let mut bad=0u64; for u in k*chunk..(k+1)*chunk { let c=u as u32 as i32; match ShapeType::from(c){ Some(t)=>{ some+=1; if !CODES.contains(&c) || t as i32!=c {bad+=1;} }, None=>{ if CODES.contains(&c){bad+=1;} } } } (some,bad) })).collect();
    let (mut some,mut bad)=(0,0); for h in hs { let (s,b)=h.join().unwrap(); some+=s; bad+=b; }
    println!("C19 from(): 2^32 values, Some={} bad={} in {:.2}s",some,bad,t0.elapsed().as_secs_f64());
    let t0=std::time::Instant::now();
    let span:u64= if full_header {1u64<<32} else {1u64<<26}; let chunk=span/nthreads;
    let hs:Vec<std::thread::JoinHandle<u64>>=(0..nthreads).map(|k| std::thread::spawn(move||{ let mut bad=0u64; let mut hdr=vec![0u8;100]; hdr[0..4].copy_from_slice(&9994i32.to_be_bytes()); hdr[24..28].copy_from_slice(&50i32.to_be_bytes()); hdr[28..32].copy_from_slice(&1000i32.to_le_bytes());
        for u in k*chunk..(k+1)*chunk { let c=u as u32 as i32; hdr[32..36].copy_from_slice(&c.to_le_bytes()); let mut cur=Cursor::new(&hdr[..]); match header::Header::read_from(&mut cur){ Ok(h)=>{ if !CODES.contains(&c) || h.shape_type as i32!=c {bad+=1;} }, Err(Error::InvalidShapeType(x))=>{ if x!=c || CODES.contains(&c) {bad+=1;} }, Err(_)=>bad+=1 } } bad })).collect();
    let bad:u64=hs.into_iter().map(|h|h.join().unwrap()).sum();
    println!("C19 Header::read_from: {} values bad={} in {:.2}s",span,bad,t0.elapsed().as_secs_f64());
}
