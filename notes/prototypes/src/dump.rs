use shapefile::*;
use std::cell::Cell;
thread_local!{ pub static NORM:Cell<bool>=Cell::new(false); pub static MASK:Cell<bool>=Cell::new(false); }
pub fn hx(v:f64)->String{ format!("\"{:016x}\"", v.to_bits()) }
fn hm(v:f64)->String{ let nd=-10e38f64; if NORM.with(|n|n.get()) && (v.is_nan()||v<=nd) { hx(nd) } else { hx(v) } }
fn area<T:shapefile::record::traits::HasXY>(p:&[T])->f64{ p.windows(2).map(|w|(w[1].x()-w[0].x())*(w[1].y()+w[0].y())).sum::<f64>() }
fn pt2(p:&Point)->String{ format!("[{},{}]",hx(p.x),hx(p.y)) }
fn ptm(p:&PointM)->String{ format!("[{},{},{}]",hx(p.x),hx(p.y),hm(p.m)) }
fn ptz(p:&PointZ)->String{ format!("[{},{},{},{}]",hx(p.x),hx(p.y),hx(p.z),hm(p.m)) }
fn join<T>(v:&[T], f:impl Fn(&T)->String)->String{ format!("[{}]", v.iter().map(|x|f(x)).collect::<Vec<_>>().join(",")) }
pub trait Dump { fn dump(&self)->String; }
impl Dump for Point { fn dump(&self)->String{ format!("{{\"type\":1,\"x\":{},\"y\":{}}}",hx(self.x),hx(self.y)) } }
impl Dump for PointM { fn dump(&self)->String{ format!("{{\"type\":21,\"x\":{},\"y\":{},\"m\":{}}}",hx(self.x),hx(self.y),hx(self.m)) } }
impl Dump for PointZ { fn dump(&self)->String{ format!("{{\"type\":11,\"x\":{},\"y\":{},\"z\":{},\"m\":{}}}",hx(self.x),hx(self.y),hx(self.z),hx(self.m)) } }
fn box2(b:&shapefile::record::GenericBBox<Point>)->String{ format!("\"box\":[{},{},{},{}],\"zr\":null,\"mr\":null",hx(b.min.x),hx(b.min.y),hx(b.max.x),hx(b.max.y)) }
fn boxm(b:&shapefile::record::GenericBBox<PointM>)->String{ format!("\"box\":[{},{},{},{}],\"zr\":null,\"mr\":[{},{}]",hx(b.min.x),hx(b.min.y),hx(b.max.x),hx(b.max.y),hx(b.min.m),hx(b.max.m)) }
fn boxz(b:&shapefile::record::GenericBBox<PointZ>)->String{ format!("\"box\":[{},{},{},{}],\"zr\":[{},{}],\"mr\":[{},{}]",hx(b.min.x),hx(b.min.y),hx(b.max.x),hx(b.max.y),hx(b.min.z),hx(b.max.z),hx(b.min.m),hx(b.max.m)) }
impl Dump for Multipoint { fn dump(&self)->String{ format!("{{\"type\":8,{},\"pts\":{}}}",box2(self.bbox()),join(self.points(),pt2)) } }
impl Dump for MultipointM { fn dump(&self)->String{ format!("{{\"type\":28,{},\"pts\":{}}}",boxm(self.bbox()),join(self.points(),ptm)) } }
impl Dump for MultipointZ { fn dump(&self)->String{ format!("{{\"type\":18,{},\"pts\":{}}}",boxz(self.bbox()),join(self.points(),ptz)) } }
impl Dump for Polyline { fn dump(&self)->String{ format!("{{\"type\":3,{},\"parts\":{}}}",box2(self.bbox()),join(self.parts(),|p|join(p,pt2))) } }
impl Dump for PolylineM { fn dump(&self)->String{ format!("{{\"type\":23,{},\"parts\":{}}}",boxm(self.bbox()),join(self.parts(),|p|join(p,ptm))) } }
impl Dump for PolylineZ { fn dump(&self)->String{ format!("{{\"type\":13,{},\"parts\":{}}}",boxz(self.bbox()),join(self.parts(),|p|join(p,ptz))) } }
fn roles<T:shapefile::record::traits::HasXY>(r:&[PolygonRing<T>])->String{ format!("[{}]", r.iter().map(|x| { let a=area(x.points()); if MASK.with(|m|m.get()) && !(a.abs()>0.0 && a.is_finite()) { "\"Z\"" } else { match x { PolygonRing::Outer(_)=>"\"O\"", PolygonRing::Inner(_)=>"\"I\"" } } }).collect::<Vec<_>>().join(",")) }
impl Dump for Polygon { fn dump(&self)->String{ format!("{{\"type\":5,{},\"roles\":{},\"parts\":{}}}",box2(self.bbox()),roles(self.rings()),join(self.rings(),|p|join(p.points(),pt2))) } }
impl Dump for PolygonM { fn dump(&self)->String{ format!("{{\"type\":25,{},\"roles\":{},\"parts\":{}}}",boxm(self.bbox()),roles(self.rings()),join(self.rings(),|p|join(p.points(),ptm))) } }
impl Dump for PolygonZ { fn dump(&self)->String{ format!("{{\"type\":15,{},\"roles\":{},\"parts\":{}}}",boxz(self.bbox()),roles(self.rings()),join(self.rings(),|p|join(p.points(),ptz))) } }
impl Dump for Multipatch { fn dump(&self)->String{
    let kinds:Vec<String>=self.patches().iter().map(|p| match p { Patch::TriangleStrip(_)=>"0",Patch::TriangleFan(_)=>"1",Patch::OuterRing(_)=>"2",Patch::InnerRing(_)=>"3",Patch::FirstRing(_)=>"4",Patch::Ring(_)=>"5"}.to_string()).collect();
    format!("{{\"type\":31,{},\"kinds\":[{}],\"parts\":{}}}",boxz(self.bbox()),kinds.join(","),join(self.patches(),|p|join(p.points(),ptz))) } }
impl Dump for Shape { fn dump(&self)->String{ match self {
    Shape::NullShape=>"{\"type\":0}".to_string(),
    Shape::Point(s)=>s.dump(),Shape::PointM(s)=>s.dump(),Shape::PointZ(s)=>s.dump(),
    Shape::Polyline(s)=>s.dump(),Shape::PolylineM(s)=>s.dump(),Shape::PolylineZ(s)=>s.dump(),
    Shape::Polygon(s)=>s.dump(),Shape::PolygonM(s)=>s.dump(),Shape::PolygonZ(s)=>s.dump(),
    Shape::Multipoint(s)=>s.dump(),Shape::MultipointM(s)=>s.dump(),Shape::MultipointZ(s)=>s.dump(),
    Shape::Multipatch(s)=>s.dump() } } }
