use crate::{gen::*,gen_shape,write_one,TYPES}; use shapefile::*; use std::io::Cursor;
fn verts(s:&Shape)->Vec<[f64;4]>{ // x,y,z,m (NaN marks absent)
    let n=f64::NAN;
    match s { Shape::Point(p)=>vec![[p.x,p.y,n,n]], Shape::PointM(p)=>vec![[p.x,p.y,n,p.m]], Shape::PointZ(p)=>vec![[p.x,p.y,p.z,p.m]],
      Shape::Multipoint(x)=>x.points().iter().map(|p|[p.x,p.y,n,n]).collect(), Shape::MultipointM(x)=>x.points().iter().map(|p|[p.x,p.y,n,p.m]).collect(), Shape::MultipointZ(x)=>x.points().iter().map(|p|[p.x,p.y,p.z,p.m]).collect(),
      Shape::Polyline(x)=>x.parts().iter().flatten().map(|p|[p.x,p.y,n,n]).collect(), Shape::PolylineM(x)=>x.parts().iter().flatten().map(|p|[p.x,p.y,n,p.m]).collect(), Shape::PolylineZ(x)=>x.parts().iter().flatten().map(|p|[p.x,p.y,p.z,p.m]).collect(),
      Shape::Polygon(x)=>x.rings().iter().flat_map(|r|r.points()).map(|p|[p.x,p.y,n,n]).collect(), Shape::PolygonM(x)=>x.rings().iter().flat_map(|r|r.points()).map(|p|[p.x,p.y,n,p.m]).collect(), Shape::PolygonZ(x)=>x.rings().iter().flat_map(|r|r.points()).map(|p|[p.x,p.y,p.z,p.m]).collect(),
      Shape::Multipatch(x)=>x.patches().iter().flat_map(|r|r.points()).map(|p|[p.x,p.y,p.z,p.m]).collect(), Shape::NullShape=>vec![] } }
fn lo(v:impl Iterator<Item=f64>)->f64{ let mut it=v; let mut a=it.next().unwrap(); for b in it { if b<a {a=b;} } a }
fn hi(v:impl Iterator<Item=f64>)->f64{ let mut it=v; let mut a=it.next().unwrap(); for b in it { if b>a {a=b;} } a }
pub fn c05(seed:u64, with_inf:bool){
    let nd=-10e38f64; let mut cases=0; let mut bad=0;
    let sp=|r:&mut Rng| { let pool=[0.0,-0.0,5e-324,-5e-324,f64::MAX,f64::MIN,f64::from_bits(f64::MAX.to_bits()-1),f64::from_bits(f64::MIN.to_bits()-1),1e300,-1e300,f64::INFINITY,f64::NEG_INFINITY]; let n= if with_inf {pool.len()} else {pool.len()-2}; pool[r.below(n as u64) as usize] };
    for &t in &TYPES { for i in 0..400u64 { let mut r=Rng(seed^((t as u64)<<24)^i); let c=Cfg{dens:0.0}; let k=1+r.below(4) as usize;
        let mut shapes:Vec<Shape>=(0..k).map(|_|gen_shape(t,&mut r,&c,3,4)).collect();
        // inject specials by rebuilding shapes through public ctor: simplest — for point types only & multipoints; others rely on dens
        if i%2==1 { let c2=Cfg{dens:0.0}; shapes=(0..k).map(|_|{ match t { 1=>Shape::Point(Point::new(sp(&mut r),sp(&mut r))), 21=>Shape::PointM(PointM::new(sp(&mut r),sp(&mut r),{let m=sp(&mut r); if m<=nd {1.0} else {m}})), 11=>Shape::PointZ(PointZ::new(sp(&mut r),sp(&mut r),sp(&mut r),{let m=sp(&mut r); if m<=nd {1.0} else {m}})),
              8=>Shape::Multipoint(Multipoint::new(vecof(&mut r,1,4,|r|Point::new(sp(r),sp(r))))), 18=>Shape::MultipointZ(MultipointZ::new(vecof(&mut r,1,4,|r|PointZ::new(sp(r),sp(r),sp(r),{let m=sp(r); if m<=nd {2.0} else {m}})))), _=>gen_shape(t,&mut r,&c2,3,4) } }).collect(); }
        let mut shp=Cursor::new(Vec::new()); { let mut w=ShapeWriter::new(&mut shp); for s in &shapes{write_one(&mut w,s).unwrap();} }
        let rd=ShapeReader::new(Cursor::new(shp.into_inner())).unwrap(); let b=rd.header().bbox;
        let all:Vec<[f64;4]>=shapes.iter().flat_map(verts).collect();
        cases+=1; let mut ok=true;
        ok&= b.min.x==lo(all.iter().map(|v|v[0])) && b.max.x==hi(all.iter().map(|v|v[0])) && b.min.y==lo(all.iter().map(|v|v[1])) && b.max.y==hi(all.iter().map(|v|v[1]));
        let hasz=[11,13,15,18,31].contains(&t); let hasm=[11,13,15,18,21,23,25,28].contains(&t);
        if hasz { ok&= b.min.z==lo(all.iter().map(|v|v[2])) && b.max.z==hi(all.iter().map(|v|v[2])); } else { ok&= b.min.z==0.0 && b.max.z==0.0; }
        if hasm { if all.iter().all(|v|v[3]>nd) { ok&= b.min.m==lo(all.iter().map(|v|v[3])) && b.max.m==hi(all.iter().map(|v|v[3])); } } else if t!=31 { ok&= b.min.m==0.0 && b.max.m==0.0; }
        if !ok { bad+=1; if bad<6 { println!("C05 BAD t{} i{} hdr min {:?} max {:?} all {:?}",t,i,b.min,b.max,&all[..all.len().min(4)]); } }
    } }
    println!("C05 (inf={}) cases {} bad {}",with_inf,cases,bad);
}
