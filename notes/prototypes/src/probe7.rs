use crate::{gen::*,gen_shape,write_one,dump::Dump}; use shapefile::*; use std::io::Cursor; use std::collections::{BTreeMap,BTreeSet};
#[derive(Clone,Copy,Debug,PartialEq)] enum L{ Iter(usize), IterAll, Nth(usize), Seek(usize), Count }
pub fn c15(seed:u64){
    let n=3usize;
    for equal in [false,true] { for with_shx in [true,false] {
    let mut r=Rng(seed); let c=Cfg{dens:0.0};
    let shapes:Vec<Shape>= if equal {(0..n).map(|_|gen_shape(1,&mut r,&c,1,1)).collect()} else {(0..n).map(|i|gen_shape(3,&mut r,&c,1+i,2+i)).collect()};
    let mut shp=Cursor::new(Vec::new()); let mut shx=Cursor::new(Vec::new()); { let mut w=ShapeWriter::with_shx(&mut shp,&mut shx); for s in &shapes{write_one(&mut w,s).unwrap();} }
    let (shp,shx)=(shp.into_inner(),shx.into_inner()); let recs:Vec<String>=shapes.iter().map(|s|s.dump()).collect();
    let mut alpha=vec![L::Iter(0),L::Iter(1),L::Iter(2),L::IterAll]; if with_shx { alpha.push(L::Count); for i in 0..=n { alpha.push(L::Nth(i)); alpha.push(L::Seek(i)); } }
    let maxlen= if with_shx {3} else {4}; let mut total=0; let mut bad:BTreeMap<String,(usize,String)>=BTreeMap::new();
    let mut words:Vec<Vec<L>>=vec![vec![]]; let mut frontier=vec![vec![]]; for _ in 0..maxlen { let mut nf=vec![]; for w in &frontier { for &l in &alpha { let mut x:Vec<L>=w.clone(); x.push(l); nf.push(x); } } words.extend(nf.iter().cloned()); frontier=nf; }
    for w in &words { if w.is_empty(){continue;} total+=1;
        let mut rd= if with_shx {ShapeReader::with_shx(Cursor::new(shp.clone()),Cursor::new(shx.clone())).unwrap()} else {ShapeReader::new(Cursor::new(shp.clone())).unwrap()};
        let mut allowed:BTreeSet<usize>=[0].into_iter().collect(); let mut fail:Option<String>=None;
        for (idx,&l) in w.iter().enumerate(){ match l {
            L::Count=>{ if rd.shape_count().unwrap()!=n { fail=Some(format!("count@{}",idx)); } }
            L::Nth(i)=>{ let got=rd.read_nth_shape(i); let ok= if i<n { matches!(&got,Some(Ok(s)) if s.dump()==recs[i]) } else { got.is_none() }; if !ok { fail=Some(format!("nth@{}",idx)); } if i<n { allowed=[0].into_iter().collect(); } }
            L::Seek(k)=>{ rd.seek(k).unwrap(); allowed=[k].into_iter().collect(); }
            L::Iter(_)|L::IterAll=>{ let take= if let L::Iter(j)=l {Some(j)} else {None}; let mut items:Vec<Result<String,String>>=vec![]; let mut ended=false;
                { let mut it=rd.iter_shapes(); loop { if let Some(j)=take { if items.len()>=j {break;} } if items.len()>n+3 {break;} match it.next(){ None=>{ended=true;break}, Some(Ok(s))=>items.push(Ok(s.dump())), Some(Err(e))=>items.push(Err(format!("{}",e))) } } }
                let mut matched:BTreeSet<usize>=BTreeSet::new();
                for &s in &allowed { let exp:Vec<&String>=recs[s.min(n)..].iter().collect(); let exp:Vec<&String>= match take { Some(j)=>exp.into_iter().take(j).collect(), None=>exp };
                    let full_ok= items.len()==exp.len() && items.iter().zip(&exp).all(|(a,b)|a.as_ref().ok()==Some(*b)) && (take.is_some() && (items.len()==take.unwrap() || ended) || take.is_none() && ended);
                    if full_ok { matched.insert(s); } }
                if matched.is_empty(){ fail=Some(format!("iter@{} got {:?} allowed {:?}",idx,items.iter().map(|x|match x{Ok(d)=>recs.iter().position(|r|r==d).map(|p|p.to_string()).unwrap_or("?".into()),Err(_)=>"E".into()}).collect::<Vec<_>>(),allowed)); }
                else { let consumed=items.len(); allowed=matched.iter().map(|s|(s+consumed).min(n)).collect(); allowed.insert(0); } }
        } if fail.is_some(){break;} }
        if let Some(f)=fail { // classify by minimal failing suffix: last two letters
            let idx:usize=f.split('@').nth(1).unwrap().split(' ').next().unwrap().parse().unwrap(); let prev= if idx>0 {format!("{:?}",w[idx-1])} else {"<fresh>".into()}; let key=format!("{} ; {:?}",prev,w[idx]); let e=bad.entry(key).or_insert((0,format!("{:?} -> {}",w,f))); e.0+=1; }
    }
    println!("C15 equal={} shx={} histories {} failing {}",equal,with_shx,total,bad.values().map(|v|v.0).sum::<usize>()); for (k,v) in &bad { println!("  {:5} {}   e.g. {}",v.0,k,v.1); }
    } }
}
