use std::io::{self,Write,Seek,SeekFrom,Read};
use std::rc::Rc; use std::cell::RefCell;
#[derive(Clone,Debug)] pub enum Op{ Write(u64,Vec<u8>), Seek(u64), Flush }
#[derive(Default)] pub struct St{ pub data:Vec<u8>, pub pos:u64, pub ops:Vec<(usize,Op)>, pub epoch:usize }
#[derive(Clone,Default)] pub struct Dest(pub Rc<RefCell<St>>);
impl Write for Dest{ fn write(&mut self,b:&[u8])->io::Result<usize>{ let mut s=self.0.borrow_mut(); let p=s.pos as usize; if s.data.len()<p+b.len(){s.data.resize(p+b.len(),0);} s.data[p..p+b.len()].copy_from_slice(b); let e=s.epoch; s.ops.push((e,Op::Write(p as u64,b.to_vec()))); s.pos+=b.len() as u64; Ok(b.len()) } fn flush(&mut self)->io::Result<()>{ let mut s=self.0.borrow_mut(); let e=s.epoch; s.ops.push((e,Op::Flush)); Ok(()) } }
impl Seek for Dest{ fn seek(&mut self,p:SeekFrom)->io::Result<u64>{ let mut s=self.0.borrow_mut(); let np=match p{SeekFrom::Start(x)=>x as i64,SeekFrom::End(x)=>s.data.len() as i64+x,SeekFrom::Current(x)=>s.pos as i64+x}; s.pos=np as u64; let e=s.epoch; s.ops.push((e,Op::Seek(np as u64))); Ok(s.pos) } }
/// all crash images: after each op prefix and each byte cut inside a write
pub fn images(ops:&[(usize,Op)])->Vec<(usize,usize,Vec<u8>)>{ // (op index, bytes of that op applied, image)
    let mut out=vec![]; let mut img:Vec<u8>=vec![]; out.push((0,0,img.clone()));
    for (i,(_,op)) in ops.iter().enumerate(){ if let Op::Write(p,b)=op { for k in 1..=b.len(){ let q=*p as usize; if img.len()<q+k{img.resize(q+k,0);} img[q+k-1]=b[k-1]; out.push((i,k,img.clone())); } } }
    out }
