use crate::gen::*; use shapefile::*;
fn area2_exact(p:&[(i64,i64)])->i128{ p.windows(2).map(|w|((w[1].0-w[0].0) as i128)*((w[1].1+w[0].1) as i128)).sum() }
// dyadic with common scale 2^-10: ints in +-2^30
fn ip(r:&mut Rng)->(i64,i64){ let small=r.chance(0.6); let f=|r:&mut Rng| if small {(r.below(7) as i64)-3} else {(r.below(1<<21) as i64)-(1<<20)}; (f(r),f(r)) }
fn tof(v:i64)->f64{ (v as f64)*(2f64).powi(-10) }
pub fn c16(seed:u64){
    let mut cases=0; let mut bad=0; let mut nonzero=0; let mut reversed=0; let mut closed_added=0;
    for i in 0..20000u64 { let mut r=Rng(seed^i); let nr=1+r.below(5) as usize;
        let mut input:Vec<(bool,Vec<(i64,i64)>,Vec<PointZ>)>=vec![];
        for _ in 0..nr { let n=1+r.below(8) as usize; let mut ints:Vec<(i64,i64)>=(0..n).map(|_|ip(&mut r)).collect(); if r.chance(0.4) && n>1 { let f=ints[0]; ints.push(f); }
            let zs:Vec<(f64,f64)>=ints.iter().map(|_|((r.below(3) as f64),(r.below(3) as f64))).collect();
            let mut pts:Vec<PointZ>=ints.iter().zip(&zs).map(|(p,z)|PointZ::new(tof(p.0),tof(p.1),z.0,z.1)).collect();
            // if closed in xy make zm sometimes equal too
            if pts.len()>1 && ints[0]==ints[ints.len()-1] && r.chance(0.7) { let f=pts[0]; let l=pts.len()-1; pts[l]=f; }
            input.push((r.chance(0.5),ints,pts)); }
        let rings:Vec<PolygonRing<PointZ>>=input.iter().map(|(outer,_,p)| if *outer {PolygonRing::Outer(p.clone())} else {PolygonRing::Inner(p.clone())}).collect();
        let poly= if nr==1 && r.chance(0.5) { PolygonZ::new(rings[0].clone()) } else { PolygonZ::with_rings(rings.clone()) };
        cases+=1; let mut ok=poly.rings().len()==nr;
        for ((outer,_ints,inp),out) in input.iter().zip(poly.rings()){
            let o=out.points();
            // role tag
            ok&= matches!(out,PolygonRing::Outer(_))==*outer;
            // closed
            ok&= o.first()==o.last();
            // vertex preservation
            let mut closed=inp.clone(); if closed.first()!=closed.last(){ closed.push(closed[0]); closed_added+=1; }
            let mut rev=closed.clone(); rev.reverse();
            let same= o==&closed[..]; let isrev= o==&rev[..]; ok&= same||isrev; if isrev && !same {reversed+=1;}
            // orientation exact
            let ints_out:Vec<(i64,i64)>=o.iter().map(|p|((p.x*1024.0) as i64,(p.y*1024.0) as i64)).collect();
            let a=area2_exact(&ints_out); if a!=0 {nonzero+=1;}
            ok&= if *outer { a>=0 } else { a<=0 };
        }
        // idempotence when all areas nonzero
        let again=PolygonZ::with_rings(poly.rings().to_vec()); 
        let allnz=poly.rings().iter().all(|rg|{ let v:Vec<(i64,i64)>=rg.points().iter().map(|p|((p.x*1024.0) as i64,(p.y*1024.0) as i64)).collect(); area2_exact(&v)!=0 });
        if allnz { ok&= again==poly; }
        if !ok { bad+=1; if bad<4 { println!("C16 BAD case {} input {:?} out {:?}",i,input.iter().map(|x|(x.0,&x.1)).collect::<Vec<_>>(),poly.rings()); } }
    }
    println!("C16 cases {} bad {} nonzero-area rings {} reversed {} closed-added {}",cases,bad,nonzero,reversed,closed_added);
}
