use crate::{gen::*,gen_shape,write_one,iomon::*,dump::Dump,TYPES}; use shapefile::*; use std::io::Cursor; use std::convert::TryFrom;
fn st(code:i32)->ShapeType{ ShapeType::from(code).unwrap() }
pub fn c10(seed:u64){
    let mut total=0; let mut bad=0; let mut rejected=0;
    for &t in &TYPES { for &u in &TYPES { if t==u {continue;} let mut r=Rng(seed^((t as u64)<<8)^(u as u64)); let c=Cfg{dens:0.0}; let st_=gen_shape(t,&mut r,&c,2,3); let su=gen_shape(u,&mut r,&c,2,3);
        for len in 1..=5usize { for code in 0..3usize.pow(len as u32) { let word:Vec<usize>=(0..len).map(|i|(code/3usize.pow(i as u32))%3).collect(); // 0=W_T 1=W_U 2=F
            if !word.contains(&1) {continue;} total+=1;
            let first_w=word.iter().find(|&&l|l<2).copied(); let (ft,fs,os)= if first_w==Some(1) {(u,&su,&st_)} else {(t,&st_,&su)}; let other= if ft==t {u} else {t};
            let a=Dest::default(); let b=Dest::default(); let mut ok=true; let mut kept:Vec<usize>=vec![];
            { let mut w=ShapeWriter::with_shx(a.clone(),b.clone()); let mut fixed=false;
              for (i,&l) in word.iter().enumerate(){ a.0.borrow_mut().epoch=i+1; b.0.borrow_mut().epoch=i+1;
                match l { 2=>{w.finalize().unwrap(); kept.push(2);}, _=>{ let s= if (l==0)==(ft==t) {fs} else {os}; let is_first_type= std::ptr::eq(s,fs);
                    let res=write_one(&mut w,s);
                    if !fixed || is_first_type { ok&=res.is_ok(); fixed=true; kept.push(l); }
                    else { rejected+=1; match res { Err(Error::MismatchShapeType{requested,actual})=>{ ok&= requested==st(ft) && actual==st(other); }, _=>ok=false }
                        ok&= a.0.borrow().ops.iter().all(|(e,_)|*e!=i+1) && b.0.borrow().ops.iter().all(|(e,_)|*e!=i+1); } } } } }
            // filtered history
            let a2=Dest::default(); let b2=Dest::default(); { let mut w=ShapeWriter::with_shx(a2.clone(),b2.clone()); for &l in &kept { match l {2=>w.finalize().unwrap(), _=>write_one(&mut w,fs).unwrap()} } }
            ok&= a.0.borrow().data==a2.0.borrow().data && b.0.borrow().data==b2.0.borrow().data;
            if !ok { bad+=1; if bad<5 {println!("C10 BAD T{} U{} word {:?}",t,u,word);} } } } } }
    println!("C10 histories {} rejected-writes {} bad {}",total,rejected,bad);
}
pub fn c06(seed:u64){
    let mut cells=0; let mut bad=0;
    for &t in &TYPES { let mut r=Rng(seed^(t as u64)); let c=Cfg{dens:0.1}; let shapes:Vec<Shape>=(0..3).map(|_|gen_shape(t,&mut r,&c,2,3)).collect();
        let mut shp=Cursor::new(Vec::new()); let mut shx=Cursor::new(Vec::new()); { let mut w=ShapeWriter::with_shx(&mut shp,&mut shx); for s in &shapes{write_one(&mut w,s).unwrap();} } let (shp,shx)=(shp.into_inner(),shx.into_inner());
        for s in &shapes { cells+=1; if s.shapetype()!=st(t) { bad+=1; println!("C06 shapetype({})={}",t,s.shapetype()); } }
        macro_rules! cell { ($S:ty,$code:expr) => {{ cells+=1;
            let typed=ShapeReader::new(Cursor::new(shp.clone())).unwrap().read_as::<$S>();
            let conv=convert_shapes_to_vec_of::<$S>(ShapeReader::new(Cursor::new(shp.clone())).unwrap().read().unwrap());
            let nth=ShapeReader::with_shx(Cursor::new(shp.clone()),Cursor::new(shx.clone())).unwrap().read_nth_shape_as::<$S>(1).unwrap();
            let ok= if $code==t { match (&typed,&conv,&nth) { (Ok(a),Ok(b),Ok(n))=> a.iter().map(|x|x.dump()).collect::<Vec<_>>()==b.iter().map(|x|x.dump()).collect::<Vec<_>>() && a.len()==3 && n.dump()==a[1].dump() && <$S as HasShapeType>::shapetype()==st($code), _=>false } }
              else { let chk=|e:&Error| matches!(e,Error::MismatchShapeType{requested,actual} if *requested==st($code) && *actual==st(t)); match (&typed,&conv,&nth) { (Err(a),Err(b),Err(n))=>chk(a)&&chk(b)&&chk(n), _=>false } };
            if !ok { bad+=1; let d=|r:&Result<Vec<$S>,Error>| match r {Ok(v)=>format!("Ok({})",v.len()),Err(e)=>format!("{}",e)}; println!("C06 BAD S={} T={} typed={} conv={}", $code,t,d(&typed),d(&conv)); } }} }
        cell!(Point,1); cell!(PointM,21); cell!(PointZ,11); cell!(Multipoint,8); cell!(MultipointM,28); cell!(MultipointZ,18); cell!(Polyline,3); cell!(PolylineM,23); cell!(PolylineZ,13); cell!(Polygon,5); cell!(PolygonM,25); cell!(PolygonZ,15); cell!(Multipatch,31);
    }
    // identity
    let mut r=Rng(seed); let c=Cfg{dens:0.0}; if let Shape::PolygonM(p)=gen_shape(25,&mut r,&c,2,3) { let back=PolygonM::try_from(Shape::from(p.clone())).unwrap(); if back!=p {bad+=1;} }
    println!("C06 cells {} bad {}",cells,bad);
}
pub fn c17e(){
    // consistent-but-unbacked: polyline with 1 part, num_points=2^k, record length consistent (wrapped into i32 words where possible), no data
    let mut worst=0f64; let mut n=0;
    for k in 4..28 { let npts:i64=1<<k; let content:i64=4+32+4+4+4+16*npts; if content/2 > i32::MAX as i64 {continue;}
        let mut f=vec![]; f.extend(9994i32.to_be_bytes()); f.extend([0u8;20]); f.extend((((100+8+content)/2).min(i32::MAX as i64) as i32).to_be_bytes()); f.extend(1000i32.to_le_bytes()); f.extend(3i32.to_le_bytes()); f.extend([0u8;64]);
        f.extend(1i32.to_be_bytes()); f.extend(((content/2) as i32).to_be_bytes()); f.extend(3i32.to_le_bytes()); f.extend([0u8;32]); f.extend(1i32.to_le_bytes()); f.extend((npts as i32).to_le_bytes()); f.extend(0i32.to_le_bytes());
        use std::sync::atomic::Ordering::Relaxed; crate::probe8::MAXREQ.store(0,Relaxed);
        let res=std::panic::catch_unwind(||{ let mut rd=ShapeReader::new(Cursor::new(f.clone())).unwrap(); rd.iter_shapes().next().map(|r|r.is_ok()) });
        let ratio=crate::probe8::MAXREQ.load(Relaxed) as f64/f.len() as f64; if ratio>worst {worst=ratio;} n+=1; if k%6==0 { println!("  2^{} points, {} input bytes: largest request {} bytes, result {:?}",k,f.len(),crate::probe8::MAXREQ.load(Relaxed),res); } }
    println!("C17(e) files {} worst ratio {:.1}",n,worst);
}
pub fn c01roles(seed:u64){
    let mut n=0; let mut mism=0;
    for i in 0..20000u64 { let mut r=Rng(seed^i); let c=Cfg{dens:[0.3,0.7,1.0][(i%3) as usize]}; let s=gen_shape(5,&mut r,&c,3,6);
        let mut shp=Cursor::new(Vec::new()); { let mut w=ShapeWriter::new(&mut shp); write_one(&mut w,&s).unwrap(); }
        let back=ShapeReader::new(Cursor::new(shp.into_inner())).unwrap().read().unwrap();
        if let (Shape::Polygon(a),Shape::Polygon(b))=(&s,&back[0]) { for (ra,rb) in a.rings().iter().zip(b.rings()){ n+=1; let oa=matches!(ra,PolygonRing::Outer(_)); let ob=matches!(rb,PolygonRing::Outer(_)); if oa!=ob { mism+=1; println!("RING {} {}", if oa {"O"} else {"I"}, ra.points().iter().map(|p|format!("{:016x}:{:016x}",p.x.to_bits(),p.y.to_bits())).collect::<Vec<_>>().join(",")); } } } }
    eprintln!("rings {} role mismatches {}",n,mism);
}
