#!/bin/sh
# Run once after a fresh restore (offline): builds the harness in both profiles so the
# quick checks start from a warm cargo cache. Every check re-invokes cargo itself, so the
# binaries always reflect /repo's current working tree.
set -e
cd "$(dirname "$0")"
export CARGO_NET_OFFLINE=true
/usr/bin/python3 - <<'PY'
import sys
sys.path.insert(0, 'monitors')
import driver
driver.build('checked')
driver.build('release')
print('setup: harness built (checked, release)')
PY
