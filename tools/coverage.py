#!/usr/bin/env python3
"""Which lines and functions of the library do the quick workloads actually execute?

Runtime monitoring says nothing about code the workload never drives, so this tool measures it:
the harness is rebuilt with source-based coverage instrumentation (nightly toolchain, its
llvm-tools), every quick check is run once against a *path alias* of the repository (so logs,
generated files and evidence go to out/alt-<hash>/ and the registered evidence files are left
alone), the profiles are merged and the regions of <repo>/src that no engine reached are listed.

usage: tools/coverage.py [--tier quick] [--seed 1] [ID ...]
output: out/coverage/summary.json, out/coverage/uncovered.txt (and the table on stdout)
"""
import glob
import json
import os
import shutil
import subprocess
import sys

VERIF = os.path.dirname(os.path.dirname(os.path.abspath(__file__)))
REPO = os.environ.get('VERIF_REPO', '/repo')
ALIAS = REPO.rstrip('/') + '/.'     # same tree, another string: separate out/ directory
COV = os.path.join(VERIF, 'out', 'coverage')


def main():
    args = sys.argv[1:]
    tier, seed, ids = 'quick', '1', []
    while args:
        a = args.pop(0)
        if a == '--tier':
            tier = args.pop(0)
        elif a == '--seed':
            seed = args.pop(0)
        else:
            ids.append(a)
    ids = ids or ['C%02d' % i for i in range(1, 21)]
    sysroot = subprocess.run(['rustc', '+nightly', '--print', 'sysroot'], stdout=subprocess.PIPE, text=True).stdout.strip()
    bindir = os.path.join(sysroot, 'lib', 'rustlib', 'x86_64-unknown-linux-gnu', 'bin')
    if os.path.isdir(COV):
        shutil.rmtree(COV)
    os.makedirs(os.path.join(COV, 'raw'))
    env = dict(os.environ, VERIF_COV='1', VERIF_REPO=ALIAS, VERIF_TIER=tier, VERIF_SEED=seed,
               LLVM_PROFILE_FILE=os.path.join(COV, 'raw', '%p-%m.profraw'))
    per_check = {}
    for pid in ids:
        p = subprocess.run([os.path.join(VERIF, 'check'), pid, '--tier', tier, '--seed', seed], env=env,
                           stdout=subprocess.PIPE, stderr=subprocess.STDOUT, text=True)
        last = (p.stdout.strip().splitlines() or [''])[-1]
        per_check[pid] = {'exit': p.returncode, 'last_line': last[:200]}
        print('%s exit=%d %s' % (pid, p.returncode, last[:120]), flush=True)
    raws = glob.glob(os.path.join(COV, 'raw', '*.profraw'))
    if not raws:
        print('no profiles were written')
        return 2
    prof = os.path.join(COV, 'merged.profdata')
    subprocess.run([os.path.join(bindir, 'llvm-profdata'), 'merge', '-sparse', '-o', prof] + raws, check=True)
    import hashlib
    bdir = os.path.join(VERIF, 'out', 'build', hashlib.sha1(ALIAS.encode()).hexdigest()[:10], 'target-cov')
    exes = [e for e in glob.glob(os.path.join(bdir, '*', 'svh')) if os.path.isfile(e)]
    objs = exes[:1]
    for e in exes[1:]:
        objs += ['-object', e]
    src_prefix = os.path.realpath(REPO) + '/src'
    exp = subprocess.run([os.path.join(bindir, 'llvm-cov'), 'export', '-format=text', '-instr-profile', prof] + objs,
                         stdout=subprocess.PIPE, text=True)
    data = json.loads(exp.stdout)['data'][0]
    files = {}
    for f in data['files']:
        name = os.path.normpath(f['filename'])
        if not name.startswith(src_prefix):
            continue
        s = f['summary']
        # uncovered line ranges from segments: (line, col, count, has_count, is_region_entry, is_gap)
        unc = set()
        segs = f['segments']
        for a, b in zip(segs, segs[1:] + [None]):
            line, col, count, has_count = a[0], a[1], a[2], a[3]
            if has_count and count == 0 and not a[5]:
                end = b[0] if b else line
                for ln in range(line, max(line, end - (1 if b and b[1] == 1 else 0)) + 1):
                    unc.add(ln)
        files[name[len(src_prefix) + 1:]] = {
            'lines': s['lines'], 'functions': s['functions'], 'regions': s['regions'],
            'uncovered_lines': sorted(unc),
        }
    fnames = {}
    for fn in data['functions']:
        fs = [os.path.normpath(x) for x in fn['filenames']]
        if not fs or not fs[0].startswith(src_prefix):
            continue
        key = (fs[0][len(src_prefix) + 1:], fn['regions'][0][0])
        fnames.setdefault(key, 0)
        fnames[key] = max(fnames[key], fn['count'])
    never = sorted(k for k, c in fnames.items() if c == 0)
    tot = lambda k: (sum(f[k]['covered'] for f in files.values()), sum(f[k]['count'] for f in files.values()))
    summary = {'tier': tier, 'seed': seed, 'checks': per_check, 'files': {k: {x: v[x] for x in ('lines', 'functions', 'regions')} for k, v in files.items()},
               'total_lines': tot('lines'), 'total_functions': tot('functions'), 'total_regions': tot('regions'),
               'function_bodies_never_entered': ['%s:%d' % k for k in never]}
    json.dump(summary, open(os.path.join(COV, 'summary.json'), 'w'), indent=1)
    with open(os.path.join(COV, 'uncovered.txt'), 'w') as out:
        for name, f in sorted(files.items()):
            src = open(os.path.join(src_prefix, name)).read().splitlines()
            out.write('== %s  lines %d/%d  functions %d/%d  regions %d/%d\n' % (name, f['lines']['covered'], f['lines']['count'], f['functions']['covered'], f['functions']['count'], f['regions']['covered'], f['regions']['count']))
            for ln in f['uncovered_lines']:
                if 0 < ln <= len(src):
                    out.write('%5d  %s\n' % (ln, src[ln - 1]))
    print('%-28s %12s %12s %12s' % ('file', 'lines', 'functions', 'regions'))
    for name, f in sorted(files.items()):
        print('%-28s %5d/%-6d %5d/%-6d %5d/%-6d' % (name, f['lines']['covered'], f['lines']['count'], f['functions']['covered'], f['functions']['count'], f['regions']['covered'], f['regions']['count']))
    print('total lines %d/%d, functions %d/%d, regions %d/%d' % (tot('lines') + tot('functions') + tot('regions')))
    print('details: %s' % os.path.join(COV, 'uncovered.txt'))
    shutil.rmtree(os.path.join(COV, 'raw'))
    return 0


if __name__ == '__main__':
    sys.exit(main())
