#!/usr/bin/python3
"""Regenerates /verif/MANIFEST.json from monitors/meta.py (one source of truth for the
per-property level claims) and validates it against /root/.vp/MANIFEST.schema.json."""
import json
import os
import sys

HERE = os.path.dirname(os.path.dirname(os.path.abspath(__file__)))
sys.path.insert(0, os.path.join(HERE, 'monitors'))
import meta  # noqa: E402

ALL = ['C%02d' % i for i in range(1, 21)]
checks = []
for pid in ALL:
    m = meta.META.get(pid)
    if not m or not m.get('claimed'):
        continue
    checks.append({
        'property_id': pid,
        'quick_cmd': './check %s --tier quick' % pid,
        'thorough_cmd': './check %s --tier thorough' % pid,
        'evidence_file': '/verif/evidence/%s.json' % pid,
        'replay_cmd_template': './check %s --replay {path}' % pid,
        'engine': m['engine'],
        'level_claimed': {'category': m['category'], 'text': m['text'], 'design_ref': m['design_ref']},
        'level_note': m['note'],
        'technique': m['technique'],
    })
na = [{'property_id': pid, 'reason': meta.META.get(pid, {}).get('na_reason', 'check under construction in this session; not claimed yet')}
      for pid in ALL if not (meta.META.get(pid) or {}).get('claimed')]
manifest = {
    'version': 1,
    'setup_cmd': './setup.sh',
    'hooks': {
        'guard': 'shapefile_rs_verif',
        'enable': 'RUSTFLAGS="--cfg shapefile_rs_verif" would enable hooks, but none exist: every observation point is at the public API boundary (the harness links the unmodified library and passes its own instrumented Read/Write/Seek objects, panic hook and counting allocator), so source_commits is empty',
        'baseline_off_cmd': 'cd /repo && cargo test --workspace --no-fail-fast --offline',
        'source_commits': [],
        'add_only': True,
    },
    'engines': meta.ENGINES,
    'checks': checks,
    'notes': meta.NOTES,
    'not_applicable': na,
}
path = os.path.join(HERE, 'MANIFEST.json')
json.dump(manifest, open(path, 'w'), indent=1)
try:
    import jsonschema
    jsonschema.validate(manifest, json.load(open('/root/.vp/MANIFEST.schema.json')))
    print('MANIFEST.json written and valid: %d checks, %d not claimed' % (len(checks), len(na)))
except ImportError:
    print('MANIFEST.json written (jsonschema not importable here; validate with python3-vt)')
