#!/usr/bin/env python3
"""Prints the markdown table of DESIGN.md §8.5 from seeded/*/meta.json."""
import glob
import json
import os
import re

ROOT = os.path.dirname(os.path.dirname(os.path.abspath(__file__)))


def first_sig(m):
    own = m.get('owning_check_quick_tier') or {}
    sigs = own.get('signatures') or []
    if not sigs and own.get('caught_by'):
        return str(own['caught_by'])[:64]
    if not sigs:
        return ''
    s = sigs[0]
    s = re.sub(r'^signature:\s*', '', s)
    s = re.sub(r'\s+\(x\d+\).*$', '', s)
    return s[:64]


def status(m):
    if not m.get('caught', False):
        return 'no (outside the stated properties)' if 'does not violate' in str(m.get('verdict', '')) else 'no'
    if (m.get('owning_check_quick_tier') or {}).get('caught_by'):
        return 'after strengthening (by another check)'
    if str(m.get('history', '')).startswith('the earlier version caught it'):
        return 'as it was (on single cases; now on many)'
    w = m.get('owning_check_quick_tier_when_produced')
    if isinstance(w, dict):
        return 'as it was' if w.get('exit') == 1 and not m.get('history') else ('as it was (weakly)' if w.get('exit') == 1 else 'after strengthening')
    if m.get('strengthened') or m.get('history'):
        return 'after strengthening'
    return m.get('status', 'as it was')


rows = []
for d in sorted(glob.glob(os.path.join(ROOT, 'seeded', '*'))):
    mp = os.path.join(d, 'meta.json')
    if not os.path.exists(mp):
        continue
    m = json.load(open(mp))
    rows.append((os.path.basename(d), m))
print('| id | needs, in order to manifest | first signature of the owning check | caught |')
print('|---|---|---|---|')
for i, m in rows:
    need = str(m.get('needs_to_manifest', '')).replace('|', '/')[:160]
    print('| %s | %s | %s | %s |' % (i, need, first_sig(m).replace('|', '/'), status(m)))
