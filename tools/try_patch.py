#!/usr/bin/python3
"""Apply a patch to a scratch worktree of /repo (outside /repo and /verif), confirm that the
repository's own tests still pass there, optionally run a demonstration test, run the given
checks against it through VERIF_REPO, report the exit codes, and remove the worktree with
its build output.

usage: try_patch.py <patch.diff> [--demo demo.rs] [--tier quick|thorough] [--keep] [--no-tests] <ID> [<ID> ...]
Not part of any registered command."""
import hashlib
import json
import os
import shutil
import subprocess
import sys
import time

VERIF = os.path.dirname(os.path.dirname(os.path.abspath(__file__)))


def sh(cmd, cwd=None, env=None, timeout=3600):
    p = subprocess.run(cmd, cwd=cwd, env=env, stdout=subprocess.PIPE, stderr=subprocess.STDOUT, text=True, timeout=timeout)
    return p.returncode, p.stdout


def main():
    args = sys.argv[1:]
    patch = os.path.abspath(args.pop(0))
    demo, tier, keep, tests = None, 'quick', False, True
    ids = []
    while args:
        a = args.pop(0)
        if a == '--demo':
            demo = os.path.abspath(args.pop(0))
        elif a == '--tier':
            tier = args.pop(0)
        elif a == '--keep':
            keep = True
        elif a == '--no-tests':
            tests = False
        else:
            ids.append(a)
    tag = hashlib.sha1((patch + str(time.time())).encode()).hexdigest()[:8]
    wt = '/scratch/mut-%s' % tag
    os.makedirs('/scratch', exist_ok=True)
    rc, out = sh(['git', '-C', '/repo', 'worktree', 'add', '--detach', '-q', wt, 'HEAD'])
    if rc != 0:
        print('worktree failed', out)
        return 2
    result = {'patch': patch, 'checks': {}}
    try:
        rc, out = sh(['git', '-C', wt, 'apply', patch])
        if rc != 0:
            print('PATCH DOES NOT APPLY:', out)
            return 2
        env = dict(os.environ, CARGO_NET_OFFLINE='true')
        if tests:
            # the pinned suite (unit + integration tests); the doctests are run as well, with one
            # retry: two of the repository's doctests write and delete the same ./points.shp
            # and occasionally trip over each other, whatever the patch
            rc, out = sh(['cargo', 'test', '--offline', '--lib', '--tests'], cwd=wt, env=env)
            result['repo_tests_pass'] = rc == 0
            print('repo tests with patch: %s' % ('PASS' if rc == 0 else 'FAIL'))
            if rc != 0:
                print('\n'.join([l for l in out.splitlines() if 'FAILED' in l or 'panicked' in l][:20]))
            rc, out = sh(['cargo', 'test', '--offline', '--doc'], cwd=wt, env=env)
            if rc != 0:
                rc, out = sh(['cargo', 'test', '--offline', '--doc'], cwd=wt, env=env)
            result['repo_doctests_pass'] = rc == 0
            print('repo doctests with patch: %s' % ('PASS' if rc == 0 else 'FAIL'))
        if demo:
            name = os.path.basename(demo)
            shutil.copy(demo, os.path.join(wt, 'tests', name))
            rc, out = sh(['cargo', 'test', '--offline', '--features', 'geo-types,geo-traits', '--test', name[:-3]], cwd=wt, env=env)
            result['demo_fails_with_patch'] = rc != 0
            print('demo with patch: %s' % ('fails (as claimed)' if rc != 0 else 'PASSES (claim not confirmed)'))
            sh(['git', '-C', wt, 'apply', '-R', patch])
            rc, out = sh(['cargo', 'test', '--offline', '--features', 'geo-types,geo-traits', '--test', name[:-3]], cwd=wt, env=env)
            result['demo_passes_without_patch'] = rc == 0
            print('demo without patch: %s' % ('passes (as claimed)' if rc == 0 else 'FAILS (claim not confirmed)'))
            if rc != 0:
                print(out[-1500:])
            sh(['git', '-C', wt, 'apply', patch])
            os.remove(os.path.join(wt, 'tests', name))
        env = dict(os.environ, VERIF_REPO=wt, VERIF_TIER=tier)
        for pid in ids:
            t0 = time.time()
            rc, out = sh([os.path.join(VERIF, 'check'), pid, '--tier', tier], cwd=VERIF, env=env, timeout=7200)
            sigs = [l.strip() for l in out.splitlines() if l.strip().startswith('signature:')]
            result['checks'][pid] = {'exit': rc, 'signatures': sigs[:6], 'wall_s': round(time.time() - t0, 1)}
            verdict = {0: 'silent (MISSED)', 1: 'VIOLATION reported (caught)', 2: 'inconclusive'}.get(rc, 'exit %d' % rc)
            print('check %s [%s]: %s  %s' % (pid, tier, verdict, '; '.join(sigs[:3])))
            if rc == 2:
                print(out[-800:])
    finally:
        if not keep:
            sh(['git', '-C', '/repo', 'worktree', 'remove', '--force', wt])
            h = hashlib.sha1(wt.encode()).hexdigest()[:10]
            shutil.rmtree(os.path.join(VERIF, 'out', 'build', h), ignore_errors=True)
            shutil.rmtree(os.path.join(VERIF, 'out', 'alt-' + h), ignore_errors=True)
            shutil.rmtree(wt, ignore_errors=True)
    print('RESULT ' + json.dumps(result))
    return 0


if __name__ == '__main__':
    sys.exit(main())
