#!/usr/bin/python3
"""Runs every seeded change under seeded/ (and optionally the calibration mutants) against its
owning check in the quick tier through tools/try_patch.py and prints one line each.
usage: run_seeded.py [-j N] [substring ...]"""
import json
import os
import subprocess
import sys
from concurrent.futures import ThreadPoolExecutor

HERE = os.path.dirname(os.path.dirname(os.path.abspath(__file__)))
args = sys.argv[1:]
jobs = 4
if args[:1] == ['-j']:
    jobs = int(args[1])
    args = args[2:]
ids = sorted(d for d in os.listdir(os.path.join(HERE, 'seeded')) if os.path.isdir(os.path.join(HERE, 'seeded', d)))
if args:
    ids = [i for i in ids if any(a in i for a in args)]


def one(sid):
    meta = json.load(open(os.path.join(HERE, 'seeded', sid, 'meta.json')))
    pid = meta['property']
    p = subprocess.run([os.path.join(HERE, 'tools', 'try_patch.py'), os.path.join(HERE, 'seeded', sid, 'patch.diff'), '--no-tests', pid],
                       stdout=subprocess.PIPE, stderr=subprocess.STDOUT, text=True)
    line = [l for l in p.stdout.splitlines() if l.startswith('check ')]
    return sid, (line[0] if line else 'ERROR ' + p.stdout[-300:])


with ThreadPoolExecutor(jobs) as ex:
    results = list(ex.map(one, ids))
missed = 0
for sid, line in results:
    ok = 'caught' in line
    missed += not ok
    print('%-8s %s' % (sid, line[:170]))
print('%d seeded changes, %d not caught' % (len(results), missed))
sys.exit(1 if missed else 0)
