"""Offline monitor for C03: what the library decoded (decoded.jsonl, canonical dumps) against
the model the reference encoder was given (models.jsonl)."""
import json
import os

import shpref
from exact import exact_sign
from shpref import NO_DATA_BITS, POINT, carries_m, to_float


def norm_m(bits, multi_vertex):
    """Expected measure: absent -> NO_DATA; present -> verbatim for points, and for
    multi-vertex shapes NaN or <= NO_DATA becomes exactly NO_DATA (C01's normalisation)."""
    if bits is None:
        return NO_DATA_BITS
    if not multi_vertex:
        return bits
    v = to_float(bits)
    if v != v or v <= -10e38:
        return NO_DATA_BITS
    return bits


def expected(m):
    t = m['type']
    e = {'type': t, 'parts': []}
    multi = t not in POINT
    for p in m.get('parts', []):
        q = []
        for v in p:
            w = list(v)
            if carries_m(t):
                w[-1] = norm_m(v[-1], multi)
            q.append(w)
        e['parts'].append(q)
    if 'kinds' in m:
        e['kinds'] = m['kinds']
    if 'box' in m:
        e['box'] = m['box']
        e['zr'] = m.get('zr')
        e['mr'] = m.get('mr')
    return e


def diff(got, want):
    """First differing field between a library dump and the expected model. The M range of
    the box is compared only when the file stores one."""
    g = {k: v for k, v in got.items() if k != 'roles'}
    w = dict(want)
    if w.get('mr') is None and 'mr' in w:
        g['mr'] = None
    return shpref.first_model_diff(g, w)


def check(gen_dir, out_dir, only=None):
    decoded = {}
    with open(os.path.join(out_dir, 'decoded.jsonl')) as f:
        for line in f:
            d = json.loads(line)
            decoded[d['file']] = d
    violations, samples = {}, []
    counters = {'files': 0, 'records': 0, 'role_checks_exact_pool': 0}
    feature_hits = {}
    distinct = set()

    def viol(sig, case, detail):
        v = violations.setdefault(sig, {'sig': sig, 'case': case, 'count': 0, 'detail': detail})
        v['count'] += 1

    with open(os.path.join(gen_dir, 'models.jsonl')) as f:
        for line in f:
            m = json.loads(line)
            name = m['file']
            if only is not None and name != only:
                continue
            counters['files'] += 1
            tname = shpref.NAMES[m['type']]
            feats = m['features'] or ['plain']
            for ft in feats:
                feature_hits[ft] = feature_hits.get(ft, 0) + 1
            ftag = '+'.join(feats)
            d = decoded.get(name)
            want = [expected(r) for r in m['records']]
            shp_hex = open(os.path.join(gen_dir, name + '.shp'), 'rb').read()[:2048].hex()
            ctx = {'file': name, 'features': feats, 'shp_hex': shp_hex}
            if d is None:
                viol('not-decoded/%s' % tname, name, ctx)
                continue
            if 'panic' in d:
                viol('panic/%s/%s' % (ftag, tname), name, dict(ctx, panic=d['panic']))
                continue
            if 'open_err' in d:
                viol('open-error/%s/%s' % (ftag, tname), name, dict(ctx, error=d['open_err']))
                continue
            if d.get('header_type') != m['type']:
                viol('header.type/%s' % tname, name, dict(ctx, got=d.get('header_type')))
            if d.get('header_box') != m['header_box']:
                viol('header.box/%s' % tname, name, dict(ctx, got=d.get('header_box'), want=m['header_box']))
            routes = [('read', d['read'].get('ok'), d['read'].get('err')), ('iter', d.get('iter'), None)]
            if 'iter_chunked' in d:
                routes.append(('iter_chunked', d['iter_chunked'], None))
            if 'path_read' in d:
                routes.append(('path_read', d['path_read'].get('ok'), d['path_read'].get('err')))
                routes.append(('path_iter', d.get('path_iter'), None))
                counters['files_also_read_by_path'] = counters.get('files_also_read_by_path', 0) + 1
                if m['typed'] >= 1 and 'path_typed' in d:
                    routes.append(('path_typed', d['path_typed'].get('ok'), d['path_typed'].get('err')))
                if 'path_read_pairs' in d:
                    # the complete reader on the foreign file plus a table of n rows: shape i with row i
                    routes.append(('path_read_pairs', d['path_read_pairs'], None))
                    counters['files_also_read_through_the_complete_reader'] = counters.get('files_also_read_through_the_complete_reader', 0) + 1
            if m['typed'] >= 1:
                routes.append(('typed', d['typed'].get('ok'), d['typed'].get('err')))
                routes.append(('typed_iter', d.get('typed_iter'), None))
            file_ok = True
            for route, got, err in routes:
                if err is not None or got is None:
                    viol('%s/%s/%s/error' % (ftag, tname, route), name, dict(ctx, error=err))
                    file_ok = False
                    continue
                bad_item = next((x for x in got if 'err' in x or 'overrun' in x), None)
                if bad_item is not None:
                    viol('%s/%s/%s/error' % (ftag, tname, route), name, dict(ctx, item=bad_item))
                    file_ok = False
                    continue
                if len(got) != len(want):
                    viol('%s/%s/%s/count' % (ftag, tname, route), name, dict(ctx, decoded=len(got), encoded=len(want)))
                    file_ok = False
                    continue
                for i, (g, w) in enumerate(zip(got, want)):
                    fld = diff(g, w)
                    if fld:
                        rfeat = 'no-M-block' if (carries_m(w['type']) and 'mr' in w and w['mr'] is None) or (w['type'] == 11 and m['records'][i]['parts'][0][0][3] is None) else 'M-present'
                        viol('%s/%s/%s/%s' % (rfeat, shpref.NAMES[w['type']], route, fld), name, dict(ctx, record=i, decoded=g, expected=w))
                        file_ok = False
                        break
            # bonus: ring roles where the f64 test is exact (exact pool, non-zero exact area)
            got = d['read'].get('ok') or []
            if len(got) == len(want):
                for g, r in zip(got, m['records']):
                    counters['records'] += 1
                    if r['type'] in (5, 15, 25) and r.get('_exact_pool') and 'roles' in g and len(g['roles']) == len(r['parts']):
                        for role, ring in zip(g['roles'], r['parts']):
                            s = exact_sign([v[:2] for v in ring]) if ring else 0
                            if s:
                                counters['role_checks_exact_pool'] += 1
                                if (role == 0) != (s > 0):
                                    viol('ring-role/%s' % shpref.NAMES[r['type']], name, dict(ctx, ring=ring, role=role, exact_sign=s))
            if file_ok:
                distinct.add((m['type'], ftag, tuple(len(r.get('parts', [])) for r in m['records'])))
                if len(samples) < 2 and m['records'] and feats != ['plain']:
                    samples.append({'file': name, 'type': tname, 'features': feats, 'records': len(want), 'shp_hex': shp_hex[:600]})
    counters.update({'feature:' + k: v for k, v in feature_hits.items()})
    return counters, list(violations.values()), samples, len(distinct), feature_hits
