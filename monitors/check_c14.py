"""Offline monitor for C14: with an index, iteration / random access / count follow the index
alone, whatever the physical order of the records and whatever lies between them."""
import json
import os

import shpref
from check_c03 import diff, expected


def check(gen_dir, out_dir, only=None):
    decoded = {}
    with open(os.path.join(out_dir, 'decoded.jsonl')) as f:
        for line in f:
            d = json.loads(line)
            decoded[d['file']] = d
    violations, samples = {}, []
    counters = {'files': 0, 'permuted_files': 0, 'files_with_filler': 0, 'seeks_observed_during_indexed_iteration': 0,
                'files_where_iteration_had_to_seek': 0}
    distinct = set()

    def viol(sig, case, detail):
        v = violations.setdefault(sig, {'sig': sig, 'case': case, 'count': 0, 'detail': detail})
        v['count'] += 1

    with open(os.path.join(gen_dir, 'models.jsonl')) as f:
        for line in f:
            m = json.loads(line)
            name = m['file']
            if only is not None and name != only:
                continue
            counters['files'] += 1
            perm = m['physical_order']
            n = len(perm)
            permuted = any(a > b for a, b in zip(perm, perm[1:]))
            pclass = 'descending-somewhere' if permuted else 'identity'
            fclass = 'no-filler' if m['filler_bytes'] == 0 else ('filler,none-trailing' if m['trailing_filler'] == 0 else 'filler')
            counters['permuted_files'] += permuted
            counters['files_with_filler'] += m['filler_bytes'] > 0
            want = [expected(r) for r in m['records']]
            shp = open(os.path.join(gen_dir, name + '.' + m.get('ext', 'shp')), 'rb').read()
            shx = open(os.path.join(gen_dir, name + '.shx'), 'rb').read()
            ctx = {'file': name, 'physical_order': perm[:24], 'filler_mode': m['filler_mode'], 'shp_hex': shp[:3000].hex(), 'shx_hex': shx[:1200].hex()}
            d = decoded.get(name)
            if d is None or 'panic' in d or 'open_idx_err' in d:
                viol('%s/%s/open' % (pclass, fclass), name, dict(ctx, got=d))
                continue
            seeks = d.get('seeks_during_iter_idx', 0)
            counters['seeks_observed_during_indexed_iteration'] += seeks
            counters['files_where_iteration_had_to_seek'] += seeks > 0
            if d.get('count') != n:
                viol('%s/%s/count' % (pclass, fclass), name, dict(ctx, reported=d.get('count'), entries=n))
            # iteration: one shape per index entry, in index order
            it = d.get('iter_idx', [])
            if len(it) != n or any('err' in x or 'overrun' in x for x in it):
                viol('%s/%s/iter' % (pclass, fclass), name,
                     dict(ctx, items=['err' if 'err' in x else ('overrun' if 'overrun' in x else 'ok') for x in it], index_entries=n))
            else:
                for i, (g, w) in enumerate(zip(it, want)):
                    fld = diff(g, w)
                    if fld:
                        viol('%s/%s/iter' % (pclass, fclass), name, dict(ctx, item=i, field=fld, decoded=g, expected=w))
                        break
            # interleavings on one reader, and the path-based constructor: same expectation
            for route in ('iter_after_nth_last', 'iter_after_partial_iter_and_nth0', 'path_iter_idx', 'iter_idx_chunked',
                          'path_read_shapes_idx', 'path_read_pairs_idx', 'nth_ascending', 'read_idx'):
                if route not in d:
                    continue
                counters['interleaved_or_path_iterations'] = counters.get('interleaved_or_path_iterations', 0) + 1
                it2 = d[route]
                bad = len(it2) != n or any('err' in x or 'overrun' in x for x in it2)
                if not bad:
                    bad = any(diff(g, w) for g, w in zip(it2, want))
                if bad:
                    viol('%s/%s/%s' % (pclass, fclass, route), name,
                         dict(ctx, items=['err' if 'err' in x else ('overrun' if 'overrun' in x else 'ok') for x in it2], index_entries=n))
            # random access: every i < n, None at n and n+1
            nth = d.get('nth', [])
            ok = len(nth) == n + 2 and nth[n] is None and nth[n + 1] is None
            if ok:
                for i, (g, w) in enumerate(zip(nth[:n], want)):
                    if g is None or 'err' in g or diff(g, w):
                        ok = False
                        break
            if not ok:
                viol('%s/%s/nth' % (pclass, fclass), name, dict(ctx, nth=[None if x is None else ('err' if 'err' in x else 'shape') for x in nth]))
            distinct.add((m['type'], tuple(perm), m['filler_mode']))
            if len(samples) < 2 and permuted and m['filler_bytes']:
                samples.append({'file': name, 'type': shpref.NAMES[m['type']], 'physical_order': perm[:24], 'filler_bytes': m['filler_bytes'],
                                'seeks_during_indexed_iteration': seeks, 'shx_hex': shx[:400].hex()})
    return counters, list(violations.values()), samples, len(distinct)
