"""Reference-encoder workload for C14: .shp files whose records are stored in an arbitrary
physical permutation with filler bytes before, between and after them, and a .shx that lists
them in logical order. Header length covers the whole file."""
import itertools
import json
import os
import struct

import shpref
from gen_c03 import Gen

TYPES = [1, 3, 15, 31, 28, 11]


def filler(g, mode, slot):
    r = g.r
    if mode == 'none':
        return b''
    if mode == 'all' or r.random() < 0.6:
        n = 2 * r.randrange(1, 33)
        if r.random() < 0.12:
            # gaps around one and two 4 KiB blocks (scratch buffers, read-ahead sizes)
            n = r.choice([2050, 3070, 3074, 3500, 4000, 4094, 4096, 4098, 6000, 8190, 8192, 8194, 12290])
        kind = r.randrange(0, 3)
        if kind == 0:
            return bytes(n)
        if kind == 1:
            return bytes(r.getrandbits(8) for _ in range(n))
        # bytes that look like a (different) record: header + a Point body
        fake = struct.pack('>ii', 99, 10) + struct.pack('<i', 1) + struct.pack('<dd', 123.0, 456.0)
        return (fake * 3)[:n]
    return b''


def generate(out_dir, seed, max_n):
    os.makedirs(out_dir, exist_ok=True)
    files = open(os.path.join(out_dir, 'files.jsonl'), 'w')
    models = open(os.path.join(out_dir, 'models.jsonl'), 'w')
    count = 0
    for ti, t in enumerate(TYPES):
        for n in range(1, max_n + 1):
            g0 = Gen('%d/c14/%d/%d' % (seed, t, n))
            recs = []
            for k in range(n):
                while True:
                    m, with_m, feats = g0.record(t, 0.1, 'mixed')
                    if with_m and not feats:
                        break
                recs.append(m)
            if n >= 3 and ti % 2 == 0:
                # a null-shape record in the middle of the index (content: nothing but its type word)
                recs[1] = dict(type=0, parts=[])
            for perm in itertools.permutations(range(n)):
                for mode in ('none', 'all', 'random'):
                    g = Gen('%d/c14f/%d/%d/%s/%s' % (seed, t, n, perm, mode))
                    # record numbers: by index position, by physical position, all zero, descending
                    # (the index alone locates a record; its number is not part of that)
                    numbering = count % 4
                    slot_of = {k: slot for slot, k in enumerate(perm)}
                    num = lambda k: [k + 1, slot_of[k] + 1, 0, n - k][numbering]
                    bodies = [shpref.enc_record(num(k), m, True) for k, m in enumerate(recs)]
                    buf = b''
                    offsets = {}
                    fill_total = 0
                    f = filler(g, mode, 0)
                    buf += f
                    fill_total += len(f)
                    for slot, k in enumerate(perm):
                        offsets[k] = 100 + len(buf)
                        buf += bodies[k]
                        f = filler(g, mode, slot + 1)
                        buf += f
                        fill_total += len(f)
                    shp = shpref.enc_header((100 + len(buf)) // 2, t) + buf
                    shx = shpref.enc_header(50 + 4 * n, t)
                    for k in range(n):
                        shx += struct.pack('>ii', offsets[k] // 2, (len(bodies[k]) - 8) // 2)
                    name = 'p%02d_n%d_%s_%s' % (t, n, ''.join(map(str, perm)), mode)
                    # every fourth pair is named NAME.SHP with its index next to it as NAME.shx
                    ext = 'SHP' if count % 4 == 1 else 'shp'
                    open(os.path.join(out_dir, name + '.' + ext), 'wb').write(shp)
                    open(os.path.join(out_dir, name + '.shx'), 'wb').write(shx)
                    files.write(json.dumps({'file': name, 'shx': True, 'typed': t, 'ext': ext}) + '\n')
                    models.write(json.dumps({'file': name, 'ext': ext, 'type': t, 'records': recs, 'physical_order': list(perm),
                                             'filler_mode': mode, 'filler_bytes': fill_total,
                                             'trailing_filler': len(f)}) + '\n')
                    count += 1
    # layouts WITHOUT any record: an index of zero entries next to a .shp that holds nothing
    # (or nothing but filler) behind its header
    for t in TYPES:
        for mode in ('none', 'all'):
            g = Gen('%d/c14z/%d/%s' % (seed, t, mode))
            buf = filler(g, mode, 0)
            shp = shpref.enc_header((100 + len(buf)) // 2, t) + buf
            shx = shpref.enc_header(50, t)
            name = 'p%02d_n0_%s' % (t, mode)
            open(os.path.join(out_dir, name + '.shp'), 'wb').write(shp)
            open(os.path.join(out_dir, name + '.shx'), 'wb').write(shx)
            files.write(json.dumps({'file': name, 'shx': True, 'typed': t}) + '\n')
            models.write(json.dumps({'file': name, 'type': t, 'records': [], 'physical_order': [],
                                     'filler_mode': mode, 'filler_bytes': len(buf), 'trailing_filler': len(buf)}) + '\n')
            count += 1
    # layouts with MANY records (amounts straddling powers of two): point records in reversed and
    # in interleaved physical order, with and without filler
    for n in ([1025, 4097, 8193] if max_n <= 4 else [1025, 4097, 8193, 16385, 65537]):
        for t in (1, 11):
            g0 = Gen('%d/c14big/%d/%d' % (seed, t, n))
            recs = []
            while len(recs) < n:
                m, with_m, feats = g0.record(t, 0.0, 'mixed')
                if with_m and not feats:
                    recs.append(m)
            bodies = [shpref.enc_record(k + 1, m, True) for k, m in enumerate(recs)]
            for pname, perm in (('rev', list(range(n - 1, -1, -1))), ('evenodd', list(range(0, n, 2)) + list(range(1, n, 2)))):
                for mode in ('none', 'all'):
                    buf = b''
                    offsets = {}
                    fill_total = 0
                    for k in perm:
                        if mode == 'all':
                            buf += b'\xa5' * 6
                            fill_total += 6
                        offsets[k] = 100 + len(buf)
                        buf += bodies[k]
                    shp = shpref.enc_header((100 + len(buf)) // 2, t) + buf
                    shx = shpref.enc_header(50 + 4 * n, t)
                    for k in range(n):
                        shx += struct.pack('>ii', offsets[k] // 2, (len(bodies[k]) - 8) // 2)
                    name = 'p%02d_n%d_%s_%s' % (t, n, pname, mode)
                    open(os.path.join(out_dir, name + '.shp'), 'wb').write(shp)
                    open(os.path.join(out_dir, name + '.shx'), 'wb').write(shx)
                    files.write(json.dumps({'file': name, 'shx': True, 'typed': t}) + '\n')
                    models.write(json.dumps({'file': name, 'type': t, 'records': recs, 'physical_order': perm,
                                             'filler_mode': mode, 'filler_bytes': fill_total, 'trailing_filler': 0}) + '\n')
                    count += 1
    files.close()
    models.close()
    return count
