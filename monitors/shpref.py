"""Independent ESRI shapefile codec written from the 1998 ESRI whitepaper with `struct` only.

Shares no code, crate or language with the library under test. Floats are carried as
16-hex-digit bit patterns so nothing is ever rounded or normalised on the way.

Model of one shape (the same JSON the harness's dump.rs emits):
  {"type": t, "parts": [[[x, y, (z), (m)], ...], ...], "kinds": [..] (multipatch only),
   "box": [xmin, ymin, xmax, ymax], "zr": [zmin, zmax] | null, "mr": [mmin, mmax] | null}
Points have exactly one part with one vertex and no box; multipoints have one part;
NullShape is {"type": 0, "parts": []}. A vertex measure that is absent from the file is None.
"""
import struct

VALID = (0, 1, 3, 5, 8, 11, 13, 15, 18, 21, 23, 25, 28, 31)
POINT = {1, 11, 21}
MULTIPOINT = {8, 18, 28}
POLY = {3, 5, 13, 15, 23, 25}
PATCH = {31}
HASZ = {11, 13, 15, 18, 31}
MONLY = {21, 23, 25, 28}
NAMES = {0: 'NullShape', 1: 'Point', 3: 'Polyline', 5: 'Polygon', 8: 'Multipoint', 11: 'PointZ', 13: 'PolylineZ',
         15: 'PolygonZ', 18: 'MultipointZ', 21: 'PointM', 23: 'PolylineM', 25: 'PolygonM', 28: 'MultipointM', 31: 'Multipatch'}
NO_DATA_BITS = '%016x' % struct.unpack('<Q', struct.pack('<d', -10e38))[0]


def carries_m(t):
    return t in HASZ or t in MONLY


def bits(b):
    """8 little-endian bytes -> hex of the u64 bit pattern"""
    return '%016x' % struct.unpack('<Q', b)[0]


def unbits(h):
    return struct.pack('<Q', int(h, 16))


def to_float(h):
    return struct.unpack('<d', unbits(h))[0]


class Bad(Exception):
    """A rule of the format is broken; `rule` is the stable identifier used in signatures."""

    def __init__(self, rule, msg=''):
        Exception.__init__(self, '%s: %s' % (rule, msg))
        self.rule = rule


def need(cond, rule, msg=''):
    if not cond:
        raise Bad(rule, msg)


# ------------------------------------------------------------------------------ decoding

def decode_header(buf, rule_prefix='hdr'):
    need(len(buf) >= 100, rule_prefix + '.size', '%d bytes' % len(buf))
    code, = struct.unpack('>i', buf[0:4])
    need(code == 9994, rule_prefix + '.file_code', str(code))
    need(buf[4:24] == b'\0' * 20, rule_prefix + '.unused_words')
    length, = struct.unpack('>i', buf[24:28])
    ver, typ = struct.unpack('<ii', buf[28:36])
    box = [bits(buf[36 + 8 * i:44 + 8 * i]) for i in range(8)]  # xmin ymin xmax ymax zmin zmax mmin mmax
    return dict(length=length, version=ver, type=typ, box=box)


def decode_body(typ, body, strict=True):
    """`body` excludes the 4-byte type code. strict: the layout the library's writer must
    produce (M block always present); otherwise every layout the whitepaper allows."""
    n = len(body)

    def dbl(o):
        need(o + 8 <= n, 'rec.body_short')
        return bits(body[o:o + 8])

    def i32(o):
        need(o + 4 <= n, 'rec.body_short')
        return struct.unpack('<i', body[o:o + 4])[0]

    if typ == 0:
        need(n == 0, 'null.size', str(n))
        return dict(type=0, parts=[])
    if typ in POINT:
        want = {1: 16, 21: 24, 11: 32}[typ]
        if typ == 11 and not strict:
            need(n in (24, 32), 'point.size', str(n))
        else:
            need(n == want, 'point.size', '%d != %d' % (n, want))
        c = [dbl(8 * i) for i in range(n // 8)]
        v = [c[0], c[1]]
        if typ == 11:
            v.append(c[2])
            v.append(c[3] if n == 32 else None)
        if typ == 21:
            v.append(c[2])
        return dict(type=typ, parts=[[v]])
    box = [dbl(0), dbl(8), dbl(16), dbl(24)]
    kinds = None
    if typ in MULTIPOINT:
        npts = i32(32)
        need(npts >= 0, 'multipoint.num_points', str(npts))
        o = 36
        nparts = None
        offs = [0]
    else:
        nparts = i32(32)
        npts = i32(36)
        need(nparts >= 0 and npts >= 0, 'poly.counts', '%d %d' % (nparts, npts))
        o = 40
        need(o + 4 * nparts <= n, 'rec.body_short')
        offs = [i32(o + 4 * i) for i in range(nparts)]
        o += 4 * nparts
        if nparts:
            need(offs[0] == 0, 'parts.first_offset', str(offs[0]))
        for a, b in zip(offs, offs[1:]):
            need(a <= b, 'parts.ascending', '%d > %d' % (a, b))
        for a in offs:
            need(0 <= a <= npts, 'parts.range', str(a))
        if typ in PATCH:
            need(o + 4 * nparts <= n, 'rec.body_short')
            kinds = [i32(o + 4 * i) for i in range(nparts)]
            o += 4 * nparts
            for k in kinds:
                need(0 <= k <= 5, 'patch.kind', str(k))
    need(o + 16 * npts <= n, 'rec.body_short')
    xy = [(dbl(o + 16 * i), dbl(o + 16 * i + 8)) for i in range(npts)]
    o += 16 * npts
    zr = zs = mr = ms = None
    if typ in HASZ:
        zr = [dbl(o), dbl(o + 8)]
        o += 16
        need(o + 8 * npts <= n, 'rec.body_short')
        zs = [dbl(o + 8 * i) for i in range(npts)]
        o += 8 * npts
    if carries_m(typ):
        if o == n and not strict:
            pass  # optional M block absent
        else:
            need(o + 16 + 8 * npts <= n, 'rec.m_block_missing' if strict else 'rec.body_short')
            mr = [dbl(o), dbl(o + 8)]
            o += 16
            ms = [dbl(o + 8 * i) for i in range(npts)]
            o += 8 * npts
    need(o == n, 'rec.body_size', '%d != %d' % (o, n))
    pts = []
    for i in range(npts):
        p = [xy[i][0], xy[i][1]]
        if zs is not None:
            p.append(zs[i])
        if carries_m(typ):
            p.append(ms[i] if ms is not None else None)
        pts.append(p)
    d = dict(type=typ, box=box, zr=zr, mr=mr)
    if typ in MULTIPOINT:
        d['parts'] = [pts]
    else:
        ends = offs[1:] + [npts]
        d['parts'] = [pts[a:b] for a, b in zip(offs, ends)] if nparts else []
        if kinds is not None:
            d['kinds'] = kinds
    return d


def decode_shp(buf, strict=True):
    """Strict validator (writer output) / lenient decoder (foreign layouts). Returns
    (header, [record models]); each model also carries _off, _clen (words), _num."""
    h = decode_header(buf)
    if strict:
        need(h['length'] * 2 == len(buf), 'hdr.length', '%d*2 != %d' % (h['length'], len(buf)))
        need(h['version'] == 1000, 'hdr.version', str(h['version']))
    need(h['type'] in VALID, 'hdr.type', str(h['type']))
    end = len(buf) if strict else min(len(buf), max(100, h['length'] * 2))
    recs = []
    o = 100
    k = 1
    while o < end:
        need(o + 8 <= end, 'rec.header_short')
        num, clen = struct.unpack('>ii', buf[o:o + 8])
        if strict:
            need(num == k, 'rec.number', '%d != %d' % (num, k))
        need(clen >= 2, 'rec.content_len', str(clen))
        need(o + 8 + 2 * clen <= end, 'rec.overrun', 'record %d' % k)
        typ, = struct.unpack('<i', buf[o + 8:o + 12])
        if strict:
            need(typ == h['type'], 'rec.type', '%d != %d' % (typ, h['type']))
        else:
            need(typ in VALID, 'rec.type', str(typ))
        m = decode_body(typ, buf[o + 12:o + 8 + 2 * clen], strict)
        m['_off'] = o
        m['_clen'] = clen
        m['_num'] = num
        recs.append(m)
        o += 8 + 2 * clen
        k += 1
    return h, recs


def decode_shx(buf):
    h = decode_header(buf, 'shx')
    need(h['length'] * 2 == len(buf), 'shx.length', '%d*2 != %d' % (h['length'], len(buf)))
    need((len(buf) - 100) % 8 == 0, 'shx.size')
    ents = [struct.unpack('>ii', buf[o:o + 8]) for o in range(100, len(buf), 8)]
    return h, ents


# ------------------------------------------------------------------------------ encoding

def enc_body(m, with_m=True):
    """Content after the type code. with_m=False leaves the optional M block out (and the M
    of a PointZ), which the whitepaper allows and the library's writer never does."""
    t = m['type']
    if t == 0:
        return b''
    if t in POINT:
        v = m['parts'][0][0]
        out = unbits(v[0]) + unbits(v[1])
        if t == 11:
            out += unbits(v[2])
            if with_m:
                out += unbits(v[3])
        if t == 21:
            out += unbits(v[2])
        return out
    out = b''.join(unbits(b) for b in m['box'])
    parts = m['parts']
    pts = [p for part in parts for p in part]
    if t in MULTIPOINT:
        out += struct.pack('<i', len(pts))
    else:
        out += struct.pack('<ii', len(parts), len(pts))
        s = 0
        for part in parts:
            out += struct.pack('<i', s)
            s += len(part)
        if t in PATCH:
            out += b''.join(struct.pack('<i', k) for k in m['kinds'])
    for p in pts:
        out += unbits(p[0]) + unbits(p[1])
    if t in HASZ:
        out += unbits(m['zr'][0]) + unbits(m['zr'][1]) + b''.join(unbits(p[2]) for p in pts)
    if carries_m(t) and with_m:
        out += unbits(m['mr'][0]) + unbits(m['mr'][1]) + b''.join(unbits(p[-1]) for p in pts)
    return out


def enc_header(length_words, typ, box=None):
    box = box or ['0' * 16] * 8
    return (struct.pack('>i', 9994) + b'\0' * 20 + struct.pack('>i', length_words) + struct.pack('<ii', 1000, typ)
            + b''.join(unbits(b) for b in box))


def enc_record(num, m, with_m=True):
    body = struct.pack('<i', m['type']) + enc_body(m, with_m)
    assert len(body) % 2 == 0
    return struct.pack('>ii', num, len(body) // 2) + body


def closed_form_size(t, nparts, npts):
    """Whitepaper size of the content after the type code, with the M block present."""
    if t in POINT:
        return {1: 16, 21: 24, 11: 32}[t]
    s = 32 + 4 + 16 * npts
    if t not in MULTIPOINT:
        s += 4 + 4 * nparts
    if t in PATCH:
        s += 4 * nparts
    if t in HASZ:
        s += 16 + 8 * npts
    if carries_m(t):
        s += 16 + 8 * npts
    return s


# ------------------------------------------------------------------------------ comparing

def strip(m):
    """Geometry part of a model (drops private keys and polygon roles, which the file format
    does not store)."""
    d = {k: v for k, v in m.items() if not k.startswith('_') and k != 'roles'}
    return d


def first_model_diff(got, want):
    """Name of the first field in which two models differ, or None."""
    if got.get('type') != want.get('type'):
        return 'type'
    gp, wp = got.get('parts', []), want.get('parts', [])
    if len(gp) != len(wp):
        return 'nparts'
    for a, b in zip(gp, wp):
        if len(a) != len(b):
            return 'partlen'
    if got.get('kinds') != want.get('kinds'):
        return 'kinds'
    names = 'xyzm'
    t = want['type']
    for a, b in zip(gp, wp):
        for va, vb in zip(a, b):
            if len(va) != len(vb):
                return 'dims'
            for i, (x, y) in enumerate(zip(va, vb)):
                if x != y:
                    if t in MONLY and i == 2:
                        return 'm'
                    return names[i]
    for k in ('box', 'zr', 'mr'):
        if got.get(k) != want.get(k):
            return k
    return None
