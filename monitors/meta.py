"""Level claims per property (source of MANIFEST.json, see tools/gen_manifest.py)."""

NOTES = ('Technique family: runtime monitoring and sanitizers. Every check runs the real library (rebuilt from the current '
         'working tree) under generated / exhaustive-within-a-bound workloads while monitors observe it at the public API '
         'boundary; see DESIGN.md. Exit codes: 0 held, 1 violated, 2 inconclusive (never folded into the others).')

ENGINES = [
    {'name': 'svh', 'path': '/verif/harness', 'serves_properties': ['C%02d' % i for i in range(1, 21)],
     'kind_free_text': 'Rust driver linking the real library (checked = overflow-checks + debug-assertions, release, and Miri builds); '
                       'hosts in-process monitors: instrumented Read/Write/Seek with op logs and fault plans, panic hook, counting allocator, reference models'},
    {'name': 'monitors', 'path': '/verif/monitors', 'serves_properties': ['C01', 'C02', 'C03', 'C04', 'C14'],
     'kind_free_text': 'Python (stdlib) offline monitors over event logs: independent ESRI codec written from the whitepaper (shpref.py), exact rational area, known-findings matching, evidence'},
]

TB = 'trusted: the harness code and its oracles, rustc/std, Python 3 stdlib; decides only the executions it produced'

META = {
    'C01': dict(claimed=True, engine='svh c01 + monitors/check_c01.py', category='exploration', design_ref='DESIGN.md §4 C01',
                technique='runtime monitoring: differential round trip against the input over 18 reading routes; ring roles adjudicated offline by exact rational area',
                text='Held on every generated sequence and route except the listed known finding (ring role lost when the f64 orientation test loses the sign of the exact area); sampled input space steered at special values, Miri shards in the thorough tier.',
                note=TB + '; rings with non-finite coordinates carry no role claim'),
    'C02': dict(claimed=True, engine='svh c02 + monitors/check_c02.py (shpref.py)', category='exploration', design_ref='DESIGN.md §4 C02',
                technique='runtime monitoring: offline strict validator/decoder written from the ESRI whitepaper over the bytes the real writer produced, compared with the model log',
                text='Every produced .shp (cursor and from_path destinations, drop and finalize endings, 0..N shapes, all 13 types) passes the strict independent validator and decodes to exactly the logged geometry.',
                note=TB + '; shpref.py is the trusted reference for the byte layout'),
    'C03': dict(claimed=True, engine='monitors/gen_c03.py (shpref.py encoder) + svh decode + monitors/check_c03.py', category='exploration', design_ref='DESIGN.md §4 C03',
                technique='runtime monitoring: independent reference encoder produces foreign-layout files, the real reader decodes them, offline comparison with the encoder model',
                text='Held on every generated spec-conformant file incl. all optional-M variants, null records, empty/one-vertex parts, arbitrary boxes/record numbers and trailing bytes; guards require each layout feature to be observed.',
                note=TB + '; only layouts the whitepaper allows'),
    'C04': dict(claimed=True, engine='svh c04 + monitors/check_c02.py:check_c04', category='exploration', design_ref='DESIGN.md §4 C04',
                technique='runtime monitoring: .shx bytes vs an independent walk of the .shp (offline) + in-process reader-side equalities incl. size_hint before every next',
                text='Held on every written pair: header, length 50+4n, every entry, shape_count, random access in descending order, None past the end, iteration with == without index.',
                note=TB),
    'C14': dict(claimed=True, engine='monitors/gen_c14.py + svh decode + monitors/check_c14.py', category='exploration', design_ref='DESIGN.md §4 C14',
                technique='runtime monitoring: reference encoder lays records out in every physical permutation with filler; the real indexed reader is compared with the index-order model; seeks counted on the instrumented source',
                text='All permutations for n <= 4 (quick) / 6 (thorough) x 3 filler patterns x 6 record types; iteration, random access and count follow the index alone.',
                note=TB),
    'C05': dict(claimed=True, engine='svh c05', category='exploration', design_ref='DESIGN.md §4 C05',
                technique='runtime monitoring: naive min/max fold oracle over constructor boxes, record bytes and header bytes of real writer output',
                text='Held on every generated sequence: constructor box, stored record box, header bytes 36..100 and the reader view, with extremes forced into every position class and values at/around the sentinels (+-inf, f64::MAX/MIN, +-0).',
                note=TB + '; header M only claimed when every measure is real data and the type is not Multipatch; n>=1'),
    'C06': dict(claimed=True, engine='svh c06', category='exploration', design_ref='DESIGN.md §4 C06',
                technique='runtime monitoring: differential typed-vs-generic reads over the exhaustive 13x14 type matrix against a hard-coded table',
                text='The (requested type, record type) matrix and all 14 variants are enumerated completely in both tiers for every typed read API; shapes inside the files are sampled.',
                note=TB + '; the enum->code mapping used to compare error fields is itself swept by C19'),
    'C16': dict(claimed=True, engine='svh c16', category='exploration', design_ref='DESIGN.md §4 C16',
                technique='runtime monitoring: differential oracle (exact integer shoelace, close/reverse) over generated ring lists',
                text='Held on every generated ring list: closure, exact orientation (exact pool), vertex preservation, role tags, idempotence, patch handling; sampled input space steered at degenerate rings.',
                note=TB + '; orientation asserted only where f64 shoelace arithmetic is exact'),
    'C18': dict(claimed=True, engine='svh c18', category='exploration', design_ref='DESIGN.md §4 C18',
                technique='runtime monitoring: announced size vs emitted bytes vs whitepaper closed form vs stored record header, dense grid',
                text='The (parts, points) grid is enumerated completely for all 13 types plus random larger shapes; every shape is serialised for real and measured.',
                note=TB),
    'C19': dict(claimed=True, engine='svh c19', category='exploration', design_ref='DESIGN.md §4 C19',
                technique='runtime monitoring: exhaustive sweep of all 2^32 codes through the real decoding functions against a hard-coded table',
                text='All 2^32 codes are pushed through ShapeType::from and Header::read_from in both tiers (exhaustive); record-level decoding and predicates on subsets.',
                note=TB + '; the optimiser is kept from folding the sweep by black_box'),
}
