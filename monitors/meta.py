"""Level claims per property (source of MANIFEST.json, see tools/gen_manifest.py)."""

NOTES = ('Technique family: runtime monitoring and sanitizers. Every check runs the real library (rebuilt from the current '
         'working tree) under generated / exhaustive-within-a-bound workloads while monitors observe it at the public API '
         'boundary; see DESIGN.md. Exit codes: 0 held, 1 violated, 2 inconclusive (never folded into the others).')

ENGINES = [
    {'name': 'svh', 'path': '/verif/harness', 'serves_properties': ['C%02d' % i for i in range(1, 21)],
     'kind_free_text': 'Rust driver linking the real library (checked = overflow-checks + debug-assertions, release, and Miri builds); '
                       'hosts in-process monitors: instrumented Read/Write/Seek with op logs and fault plans, panic hook, counting allocator, reference models'},
    {'name': 'monitors', 'path': '/verif/monitors', 'serves_properties': ['C01', 'C02', 'C03', 'C04', 'C14'],
     'kind_free_text': 'Python (stdlib) offline monitors over event logs: independent ESRI codec written from the whitepaper (shpref.py), exact rational area, known-findings matching, evidence'},
]

TB = 'trusted: the harness code and its oracles, rustc/std, Python 3 stdlib; decides only the executions it produced'

META = {
    'C05': dict(claimed=True, engine='svh c05', category='exploration', design_ref='DESIGN.md §4 C05',
                technique='runtime monitoring: naive min/max fold oracle over constructor boxes, record bytes and header bytes of real writer output',
                text='Held on every generated sequence: constructor box, stored record box, header bytes 36..100 and the reader view, with extremes forced into every position class and values at/around the sentinels (+-inf, f64::MAX/MIN, +-0).',
                note=TB + '; header M only claimed when every measure is real data and the type is not Multipatch; n>=1'),
    'C06': dict(claimed=True, engine='svh c06', category='exploration', design_ref='DESIGN.md §4 C06',
                technique='runtime monitoring: differential typed-vs-generic reads over the exhaustive 13x14 type matrix against a hard-coded table',
                text='The (requested type, record type) matrix and all 14 variants are enumerated completely in both tiers for every typed read API; shapes inside the files are sampled.',
                note=TB + '; the enum->code mapping used to compare error fields is itself swept by C19'),
    'C16': dict(claimed=True, engine='svh c16', category='exploration', design_ref='DESIGN.md §4 C16',
                technique='runtime monitoring: differential oracle (exact integer shoelace, close/reverse) over generated ring lists',
                text='Held on every generated ring list: closure, exact orientation (exact pool), vertex preservation, role tags, idempotence, patch handling; sampled input space steered at degenerate rings.',
                note=TB + '; orientation asserted only where f64 shoelace arithmetic is exact'),
    'C18': dict(claimed=True, engine='svh c18', category='exploration', design_ref='DESIGN.md §4 C18',
                technique='runtime monitoring: announced size vs emitted bytes vs whitepaper closed form vs stored record header, dense grid',
                text='The (parts, points) grid is enumerated completely for all 13 types plus random larger shapes; every shape is serialised for real and measured.',
                note=TB),
    'C19': dict(claimed=True, engine='svh c19', category='exploration', design_ref='DESIGN.md §4 C19',
                technique='runtime monitoring: exhaustive sweep of all 2^32 codes through the real decoding functions against a hard-coded table',
                text='All 2^32 codes are pushed through ShapeType::from and Header::read_from in both tiers (exhaustive); record-level decoding and predicates on subsets.',
                note=TB + '; the optimiser is kept from folding the sweep by black_box'),
}
