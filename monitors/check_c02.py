"""Offline monitors for C02 (every written .shp is a well-formed ESRI shapefile) and C04
(the .shx addresses exactly the records of the .shp), over the files and the model log the
`c02` / `c04` engines produced with the real writer."""
import json
import os
import struct

import shpref
from shpref import Bad


def _models(out_dir):
    with open(os.path.join(out_dir, 'models.jsonl')) as f:
        for line in f:
            yield json.loads(line)


def _viol(violations, sig, case, detail):
    v = violations.setdefault(sig, {'sig': sig, 'case': case, 'count': 0, 'detail': detail})
    v['count'] += 1


def check_c02(out_dir):
    """Strict validation of every .shp + decoded geometry == model log + stored box == bbox()."""
    violations, samples = {}, []
    counters = {'files': 0, 'records': 0, 'bytes': 0, 'empty_files': 0}
    distinct = set()
    for m in _models(out_dir):
        name, case = m['file'], m['case']
        buf = open(os.path.join(out_dir, 'files', m.get('shp_file', name + '.shp')), 'rb').read()
        counters['files'] += 1
        counters['bytes'] += len(buf)
        tname = shpref.NAMES.get(m['type'], '?')
        try:
            hdr, recs = shpref.decode_shp(buf, strict=True)
        except Bad as e:
            _viol(violations, '%s/%s' % (e.rule, tname), case, {'rule': e.rule, 'message': str(e), 'file': name, 'shp_hex': buf[:4096].hex()})
            continue
        if hdr['type'] != m['type']:
            _viol(violations, 'hdr.type-vs-shapes/%s' % tname, case, {'header_type': hdr['type'], 'shapes_type': m['type'], 'file': name})
            continue
        if len(recs) != len(m['shapes']):
            _viol(violations, 'rec.count/%s' % tname, case, {'decoded': len(recs), 'written': len(m['shapes']), 'file': name})
            continue
        if not recs:
            counters['empty_files'] += 1
        bad = None
        for i, (got, want) in enumerate(zip(recs, m['shapes'])):
            counters['records'] += 1
            d = shpref.first_model_diff(shpref.strip(got), shpref.strip(want))
            if d:
                bad = (i, d, got, want)
                break
            # record size is the closed form for its counts
            npts = sum(len(p) for p in got['parts'])
            if got['_clen'] * 2 != 4 + shpref.closed_form_size(got['type'], len(got['parts']), npts):
                bad = (i, 'closed_form_size', got, want)
                break
        if bad:
            i, field, got, want = bad
            _viol(violations, 'geometry.%s/%s' % (field, tname), case,
                  {'record': i, 'field': field, 'decoded': shpref.strip(got), 'handed_to_writer': want, 'file': name})
            continue
        distinct.add((m['type'], len(recs), tuple(r['_clen'] for r in recs[:8])))
        if len(samples) < 2 and recs:
            samples.append({'file': name, 'route': m['route'], 'ending': m['ending'], 'records': len(recs), 'bytes': len(buf),
                            'header': hdr, 'first_record_decoded': shpref.strip(recs[0])})
    return counters, list(violations.values()), samples, len(distinct)


def check_c04(out_dir):
    """.shx header == .shp header outside the length field; length = 50 + 4n words = real size;
    entry i = (offset of record i's header / 2, its content length) from an independent walk."""
    violations, samples = {}, []
    counters = {'files': 0, 'index_entries': 0, 'non_arithmetic_offset_files': 0}
    distinct = set()
    for m in _models(out_dir):
        name, case = m['file'], m['case']
        shp = open(os.path.join(out_dir, 'files', m.get('shp_file', name + '.shp')), 'rb').read()
        shx = open(os.path.join(out_dir, 'files', name + '.shx'), 'rb').read()
        counters['files'] += 1
        tname = shpref.NAMES.get(m['type'], '?')
        try:
            _, recs = shpref.decode_shp(shp, strict=True)
        except Bad as e:
            _viol(violations, 'shp.%s/%s' % (e.rule, tname), case, {'message': str(e), 'file': name})
            continue
        n = len(recs)
        if len(shx) < 100 or shx[:24] != shp[:24] or shx[28:100] != shp[28:100]:
            _viol(violations, 'shx.header/%s' % tname, case, {'file': name, 'shp_header_hex': shp[:100].hex(), 'shx_header_hex': shx[:100].hex()})
            continue
        words, = struct.unpack('>i', shx[24:28])
        if words != 50 + 4 * n or words * 2 != len(shx):
            _viol(violations, 'shx.len/%s' % tname, case, {'file': name, 'length_field_words': words, 'records': n, 'real_bytes': len(shx)})
            continue
        ents = [struct.unpack('>ii', shx[o:o + 8]) for o in range(100, len(shx), 8)]
        bad = None
        for i, (r, (off, clen)) in enumerate(zip(recs, ents)):
            counters['index_entries'] += 1
            if off * 2 != r['_off']:
                bad = ('offset', i, off * 2, r['_off'])
                break
            if clen != r['_clen']:
                bad = ('length', i, clen, r['_clen'])
                break
        if bad:
            _viol(violations, 'shx.entry.%s/%s' % (bad[0], tname), case,
                  {'file': name, 'entry': bad[1], 'stored': bad[2], 'from_walking_the_shp': bad[3], 'records': n})
            continue
        gaps = {b['_off'] - a['_off'] for a, b in zip(recs, recs[1:])}
        if len(gaps) > 1:
            counters['non_arithmetic_offset_files'] += 1
        if n >= 2:
            distinct.add((m['type'], n, tuple(r['_clen'] for r in recs[:8])))
        if len(samples) < 2 and n >= 2:
            samples.append({'file': name, 'route': m['route'], 'records': n, 'index_entries_(offset_words,content_words)': ents[:6]})
    return counters, list(violations.values()), samples, len(distinct)
