"""Supervisor for the C07/C17 engine: runs the shards of the case space as child processes
(`svh c07worker`), each of which records the index of the case it is about to execute in a
progress file. A child that dies (process abort on a refused giant allocation, stack
overflow) or stops making progress is attributed to the in-flight case; the shard restarts
right after it. A suspected hang is re-run alone with 60 s before it is reported.

Verdict mapping: abort -> violation `abort`; confirmed hang -> violation `hang`; watchdog
firing that does not reproduce alone -> counted, not a violation; anything else that stops a
child from reporting -> Inconclusive."""
import json
import os
import shutil
import subprocess
import time

import driver

WATCHDOG_S = 15
MAX_CONFIRMED_HANGS = 3
CONFIRM_S = 60
MAX_RESTARTS = 300


def _read_progress(path):
    try:
        return int(open(path).read().strip())
    except Exception:
        return None


def run(prop, profile, tier, seed, shards=16, sample=None, tag=None):
    exe = driver.build(profile)
    name = tag or ('c07-%s' % profile)
    out = os.path.join(driver.OUT, prop, tier, name)
    if os.path.isdir(out):
        shutil.rmtree(out)
    os.makedirs(out)
    t0 = time.time()

    def spawn(shard, start, attempt):
        d = os.path.join(out, 'child-%d-%d' % (shard, attempt))
        os.makedirs(d)
        cmd = [exe, 'c07worker', '--tier', tier, '--seed', str(seed), '--out', d, '--threads', '1',
               '--opt', 'shards=%d' % shards, '--opt', 'shard=%d' % shard, '--opt', 'start=%d' % start]
        if sample:
            cmd += ['--opt', 'sample=%d' % sample]
        p = subprocess.Popen(cmd, stdout=subprocess.DEVNULL, stderr=subprocess.DEVNULL)
        return {'shard': shard, 'start': start, 'proc': p, 'dir': d, 'last': None, 'changed': time.time(), 'cmd': cmd}

    running = [spawn(s, 0, 0) for s in range(shards)]
    attempt = 1
    results, extra_viol, counters = [], [], {'child_aborts': 0, 'watchdog_false_alarms': 0, 'confirmed_hangs': 0}
    stopped_early = False
    while running:
        time.sleep(0.05)
        nxt = []
        for c in running:
            prog = _read_progress(os.path.join(c['dir'], 'progress-%d' % c['shard']))
            if prog != c['last']:
                c['last'] = prog
                c['changed'] = time.time()
            rc = c['proc'].poll()
            if rc is not None:
                rp = os.path.join(c['dir'], 'result.json')
                if rc == 0 and os.path.exists(rp):
                    r = json.load(open(rp))
                    r['pending'] = []
                    results.append(r)
                else:
                    inflight = c['last'] if c['last'] is not None else c['start']
                    counters['child_aborts'] += 1
                    extra_viol.append({'sig': 'abort', 'case': 'c07:%d' % inflight,
                                       'detail': {'what': 'child process ended abnormally (status %s) while executing this case' % rc,
                                                  'cmd': c['cmd']}})
                    if counters['child_aborts'] > MAX_RESTARTS:
                        raise driver.Inconclusive('more than %d child aborts; giving up' % MAX_RESTARTS)
                    nxt.append(spawn(c['shard'], inflight + 1, attempt))
                    attempt += 1
            elif time.time() - c['changed'] > WATCHDOG_S:
                c['proc'].kill()
                c['proc'].wait()
                inflight = c['last'] if c['last'] is not None else c['start']
                if _confirm_hang(exe, tier, seed, inflight, out):
                    counters['confirmed_hangs'] += 1
                    extra_viol.append({'sig': 'hang', 'case': 'c07:%d' % inflight,
                                       'detail': {'what': 'the case did not return within %d s when run alone' % CONFIRM_S}})
                    if counters['confirmed_hangs'] >= MAX_CONFIRMED_HANGS:
                        # a tree on which inputs hang by the dozen would keep the sweep busy for hours
                        # (one minute per confirmation): three confirmed witnesses decide the run
                        stopped_early = True
                        for o in running + nxt:
                            if o['proc'].poll() is None:
                                o['proc'].kill()
                                o['proc'].wait()
                        nxt = []
                        break
                else:
                    counters['watchdog_false_alarms'] += 1
                nxt.append(spawn(c['shard'], inflight + 1, attempt))
                attempt += 1
            else:
                nxt.append(c)
        running = nxt
    if stopped_early and not results:
        results = [{'engine': 'c07', 'evaluations': 0, 'distinct_nontrivial': 0, 'classes': {}, 'counters': {}, 'samples': [],
                    'violation_counts': {}, 'violations': [], 'guards': {}, 'pending': [], 'wall_s': 0.0}]
    if not results:
        raise driver.Inconclusive('no c07 child produced a report')
    m = driver.merge_results(results, name=name, profile=profile)
    m['engine'] = 'c07'
    for k, v in counters.items():
        m['counters'][k] = v
    for v in extra_viol:
        m['violation_counts'][v['sig']] = m['violation_counts'].get(v['sig'], 0) + 1
        m['violations'].append(v)
    if stopped_early:
        m['counters']['sweep_stopped_after_%d_confirmed_hangs' % MAX_CONFIRMED_HANGS] = 1
        m['guards'] = {}
    else:
        m['guards']['child shards that reported'] = {'observed': len(results), 'required': shards}
    m['wall_s'] = time.time() - t0
    m['_cmd'] = [exe, 'c07worker', '--tier', tier, '--seed', str(seed)]
    m['_out'] = out
    driver.log('  engine %-14s [%-7s] %9d evaluations, %d violation signature(s), %.1fs (%d child processes, %d aborts)'
               % ('c07', profile, m['evaluations'], len(m['violation_counts']), m['wall_s'], shards, counters['child_aborts']))
    # the children's directories only hold small reports; remove them
    for d in os.listdir(out):
        shutil.rmtree(os.path.join(out, d), ignore_errors=True)
    return m


def run_single(prop, profile, tier, seed, case):
    """Replay of one case in one child process."""
    exe = driver.build(profile)
    out = os.path.join(driver.OUT, prop, tier, 'replay-%s' % profile)
    if os.path.isdir(out):
        shutil.rmtree(out)
    os.makedirs(out)
    cmd = [exe, 'c07worker', '--tier', tier, '--seed', str(seed), '--out', out, '--case', case]
    try:
        p = subprocess.run(cmd, stdout=subprocess.DEVNULL, stderr=subprocess.DEVNULL, timeout=CONFIRM_S)
    except subprocess.TimeoutExpired:
        return {'engine': 'c07', 'evaluations': 1, 'distinct_nontrivial': 1, 'classes': {}, 'counters': {}, 'samples': [], 'guards': {},
                'violation_counts': {'hang': 1}, 'violations': [{'sig': 'hang', 'case': case, 'detail': None}], 'pending': [],
                '_profile': profile, '_name': 'c07-replay', '_cmd': cmd}
    if p.returncode != 0:
        return {'engine': 'c07', 'evaluations': 1, 'distinct_nontrivial': 1, 'classes': {}, 'counters': {}, 'samples': [], 'guards': {},
                'violation_counts': {'abort': 1}, 'violations': [{'sig': 'abort', 'case': case, 'detail': None}], 'pending': [],
                '_profile': profile, '_name': 'c07-replay', '_cmd': cmd}
    r = json.load(open(os.path.join(out, 'result.json')))
    r.update({'pending': [], '_profile': profile, '_name': 'c07-replay', '_cmd': cmd})
    return r


def _confirm_hang(exe, tier, seed, idx, out):
    d = os.path.join(out, 'confirm-%d' % idx)
    os.makedirs(d, exist_ok=True)
    cmd = [exe, 'c07worker', '--tier', tier, '--seed', str(seed), '--out', d, '--case', 'c07:%d' % idx]
    try:
        subprocess.run(cmd, stdout=subprocess.DEVNULL, stderr=subprocess.DEVNULL, timeout=CONFIRM_S)
        return False
    except subprocess.TimeoutExpired:
        return True
