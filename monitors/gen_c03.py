"""Reference *encoder* workload for C03: spec-conformant .shp files in layouts the library's
own writer never emits, built from random models. Writes <dir>/<name>.shp, the manifest
<dir>/files.jsonl (read by the `decode` engine) and <dir>/models.jsonl (the expectation)."""
import json
import os
import random
import struct

import shpref
from shpref import HASZ, MONLY, MULTIPOINT, PATCH, POINT, VALID, carries_m


def fbits(x):
    return '%016x' % struct.unpack('<Q', struct.pack('<d', x))[0]


NO_DATA = -10e38
SPECIAL = [0.0, -0.0, 5e-324, -5e-324, 2.2250738585072014e-308, 1e-310, float('inf'), float('-inf'), 1.7976931348623157e308,
           -1.7976931348623157e308, NO_DATA, -1.0000000000000002e39, -9.999999999999999e38, -1e300, 1e300, -1e39, 1.0, -1.0]
NANS = ['7ff8000000000000', 'fff8000000000000', '7ff0000000000001', 'fff8000000000123', '7fffffffffffffff']


class Gen:
    def __init__(self, seed):
        self.r = random.Random(seed)

    def exact(self):
        """exact pool: multiples of 2^-6 below 2^12 (f64 shoelace arithmetic is exact)"""
        return fbits((self.r.randrange(-(1 << 12), (1 << 12) + 1)) * 2.0 ** -self.r.randrange(0, 7))

    def coord(self, dens, zm, pool):
        r = self.r
        if pool == 'exact':
            return self.exact()
        if r.random() < dens:
            if zm and r.random() < 0.25:
                return r.choice(NANS)
            if r.random() < 0.1:
                return '%016x' % r.getrandbits(64)  # any bit pattern at all
            return fbits(r.choice(SPECIAL))
        if r.random() < 0.5:
            return fbits(r.randrange(-(1 << 20), 1 << 20) * 2.0 ** -r.randrange(0, 11))
        return fbits((1 + r.random()) * 2.0 ** r.randrange(-40, 40) * r.choice((-1, 1)))

    def vertex(self, t, dens, pool):
        v = [self.coord(dens, False, pool), self.coord(dens, False, pool)]
        if dens > 0 and pool != 'exact' and self.r.random() < 0.02:
            # NaN in X and / or Y is a bit pattern like any other
            k = self.r.randrange(0, 3)
            if k != 1:
                v[0] = self.r.choice(NANS)
            if k != 0:
                v[1] = self.r.choice(NANS)
        if t in HASZ:
            v.append(self.coord(dens, True, 'mixed' if pool == 'exact' else pool))
        if carries_m(t):
            v.append(self.coord(dens, True, 'mixed' if pool == 'exact' else pool))
        return v

    def box(self, dens):
        """arbitrary stored box, unrelated to the vertices; one in five is the box of a producer
        that never fills it (all zeros, of either sign), one in ten repeats a single value"""
        r = self.r
        k = r.random()
        if k < 0.2:
            return [fbits(r.choice((0.0, 0.0, 0.0, -0.0))) for _ in range(4)]
        if k < 0.3:
            v = self.coord(max(dens, 0.3), True, 'mixed')
            return [v, v, v, v]
        return [self.coord(max(dens, 0.3), True, 'mixed') for _ in range(4)]

    def rng2(self, dens):
        """stored Z / M range: arbitrary, or left at zero by the producer"""
        if self.r.random() < 0.2:
            return [fbits(0.0), fbits(0.0)]
        return [self.coord(max(dens, 0.3), True, 'mixed'), self.coord(max(dens, 0.3), True, 'mixed')]

    def record(self, t, dens, pool):
        """-> (model, with_m). Layout features are drawn independently per record."""
        r = self.r
        feats = []
        if t == 0:
            return dict(type=0, parts=[]), True, ['null-record']
        with_m = True
        if carries_m(t) and t != 21:
            # the optional M block may be absent in multi-vertex M types, Z types (PointZ: 24-byte body) and MultiPatch
            if r.random() < 0.35:
                with_m = False
                feats.append('no-M-block')
        if t in POINT:
            m = dict(type=t, parts=[[self.vertex(t, dens, pool)]])
            if t == 11 and not with_m:
                m['parts'][0][0][3] = None
            return m, with_m, feats
        m = dict(type=t, box=self.box(dens))
        if all(b in ('0000000000000000', '8000000000000000') for b in m['box']):
            feats.append('zeroed-box')
        if t in MULTIPOINT:
            n = r.choice([0, 1, 1, 2, 3, r.randrange(0, 9)])
            if n == 0:
                feats.append('zero-points')
            m['parts'] = [[self.vertex(t, dens, pool) for _ in range(n)]]
        else:
            choice = r.random()
            if choice < 0.08:
                parts = []
                feats.append('zero-parts')
            else:
                nparts = r.randrange(1, 5)
                parts = []
                for _ in range(nparts):
                    ln = r.choice([0, 1, 1, 2, 3, 4, 5, r.randrange(0, 9)])
                    if ln == 0:
                        feats.append('empty-part')
                    if ln == 1:
                        feats.append('one-vertex-part')
                    part = [self.vertex(t, dens, pool) for _ in range(ln)]
                    if t in (5, 15, 25) and ln >= 3 and r.random() < 0.7:
                        part.append(list(part[0]))  # closed ring; orientation is whatever the vertices give
                    parts.append(part)
            m['parts'] = parts
            if t in PATCH:
                m['kinds'] = [r.randrange(0, 6) for _ in parts]
        m['zr'] = self.rng2(dens) if t in HASZ else None
        m['mr'] = self.rng2(dens) if carries_m(t) else None
        if not with_m:
            m['mr'] = None
            for p in m['parts']:
                for v in p:
                    v[-1] = None
        return m, with_m, feats


def generate(out_dir, seed, per_code):
    os.makedirs(out_dir, exist_ok=True)
    files = open(os.path.join(out_dir, 'files.jsonl'), 'w')
    models = open(os.path.join(out_dir, 'models.jsonl'), 'w')
    count = 0
    for t in VALID:
        for i in range(per_code):
            g = Gen('%d/%d/%d' % (seed, t, i))
            r = g.r
            dens = [0.0, 0.2, 1.0][i % 3]
            pool = 'exact' if i % 5 == 4 else 'mixed'
            nrec = 0 if i == 0 else r.randrange(1, 6)
            feats = set()
            recs, body = [], b''
            homogeneous = True
            for k in range(nrec):
                rt = t
                if t != 0 and r.random() < 0.15:
                    rt = 0  # a null-shape record inside a typed file
                    homogeneous = False
                m, with_m, f = g.record(rt, dens, pool)
                if i % 50 == 11 and k == 0 and rt not in POINT and rt not in MULTIPOINT and rt != 0:
                    # more than 1024 parts (two vertices each)
                    npp = 1100 + (i // 50) % 500
                    m['parts'] = [[g.vertex(rt, 0.0, 'mixed') for _ in range(2)] for _ in range(npp)]
                    if rt in PATCH:
                        m['kinds'] = [r.randrange(0, 6) for _ in range(npp)]
                    if not with_m:
                        for pp in m['parts']:
                            for v in pp:
                                v[-1] = None
                    f = list(f) + ['more-than-1024-parts']
                if i % 25 == 7 and k == 0 and rt not in POINT and rt != 0 and m['parts']:
                    # amounts beyond 1024 vertices in one part (caps, block sizes)
                    big = 1025 + (i // 25) % 700
                    has_m_val = m['parts'][-1] and m['parts'][-1][0][-1] is not None if m['parts'][-1] else with_m
                    m['parts'][-1] = [g.vertex(rt, 0.0, 'mixed') for _ in range(big)]
                    if not with_m:
                        for v in m['parts'][-1]:
                            v[-1] = None
                    f = list(f) + ['part-beyond-1024-vertices']
                feats.update(f)
                numbering = i % 4
                num = {0: k + 1, 1: 0, 2: -(k + 1), 3: 7}[numbering]
                if i % 16 == 3:
                    num = [2147483647, -2147483648, 2147483646][k % 3]
                if numbering:
                    feats.add('arbitrary-record-numbers')
                body += shpref.enc_record(num, m, with_m)
                m['_exact_pool'] = pool == 'exact'
                recs.append(m)
            declared = 100 + len(body)
            trailing = b''
            if i == 0 and t != 0:
                # a file without records whose declared end is followed by a stale well-formed record
                stale, stale_m, _ = g.record(t, dens, pool)
                trailing = shpref.enc_record(1, stale, stale_m)
                feats.add('trailing-wellformed-record')
                feats.add('no-records')
            if i % 3 == 2:
                trailing = bytes(r.getrandbits(8) for _ in range(r.choice([1, 2, 7, 8, 12, 40])))
                feats.add('trailing-bytes')
                if i % 6 == 2 and t != 0:
                    # ... or a stale but perfectly well-formed record of the file's type (what an
                    # in-place rewrite of a longer file leaves behind the declared end)
                    stale, stale_m, _ = g.record(t, dens, pool)
                    trailing = shpref.enc_record(nrec + 1, stale, stale_m)
                    feats.add('trailing-wellformed-record')
            hdr_box = [g.coord(0.5, True, 'mixed') for _ in range(8)]
            buf = shpref.enc_header(declared // 2, t, hdr_box) + body + trailing
            name = 'c%02d_%04d' % (t, i)
            open(os.path.join(out_dir, name + '.shp'), 'wb').write(buf)
            typed = t if (homogeneous and t != 0) else -1
            files.write(json.dumps({'file': name, 'shx': False, 'typed': typed, 'n': len(recs)}) + '\n')
            models.write(json.dumps({'file': name, 'type': t, 'records': recs, 'features': sorted(feats), 'header_box': hdr_box,
                                     'typed': typed}) + '\n')
            count += 1
    files.close()
    models.close()
    return count
