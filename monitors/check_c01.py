"""Offline monitor for C01: adjudicates the ring-role changes the in-process monitor logged.

A polygon ring must keep its outer/inner role whenever its exact signed area is non-zero.
For every logged change (declared role != role read back) the exact rational shoelace sum
decides: zero -> allowed; non-finite coordinate -> no claim; non-zero -> violation, whose
signature says whether the library's own f64 orientation test could have known better."""
from exact import exact_sign, f64_sign_as_library


def adjudicate(pending):
    counters = {'role_changes': 0, 'allowed_zero_exact_area': 0, 'no_claim_nonfinite_coordinates': 0, 'nonzero_exact_area': 0}
    violations = {}
    samples = []
    distinct = set()
    for p in pending:
        if p.get('kind') != 'role':
            continue
        counters['role_changes'] += 1
        ring = p['ring']
        distinct.add(tuple(tuple(v) for v in ring))
        s = exact_sign(ring)
        if s is None:
            counters['no_claim_nonfinite_coordinates'] += 1
            continue
        if s == 0:
            counters['allowed_zero_exact_area'] += 1
            continue
        counters['nonzero_exact_area'] += 1
        exact_role = 'outer' if s > 0 else 'inner'
        rev = list(reversed(ring))
        f_fwd = f64_sign_as_library(ring)
        f_rev = f64_sign_as_library(rev)
        # The known finding is narrow: the role read back is the one the library's documented
        # orientation test (f64 shoelace sum, left to right, `area < 0` -> inner) yields on the
        # ring as stored, and that differs from the declared role because the f64 sum loses the
        # sign somewhere (the constructor could not orient the ring; the reader repeats the
        # same test). A role that the documented test on the stored ring does NOT yield is not
        # explained by that finding, whatever the floats look like; and a ring on which the f64 test
        # is right both as stored and reversed was not mis-oriented by floating point at all.
        rev_exact = 'inner' if exact_role == 'outer' else 'outer'
        sign_lost = (p['read'] == f_fwd) and ((f_fwd != exact_role) or (f_rev != rev_exact))
        sig = 'role-flip:f64-sign-lost' if sign_lost else 'role-flip:other'
        v = violations.setdefault(sig, {'sig': sig, 'case': p['case'], 'count': 0,
                                        'detail': dict(p, exact_orientation=exact_role, f64_test_on_stored_ring=f_fwd,
                                                       f64_test_on_reversed_ring=f_rev)})
        v['count'] += 1
        if len(samples) < 2:
            samples.append({'role_change': {k: p[k] for k in ('case', 'type', 'declared', 'read')}, 'exact_orientation': exact_role,
                            'f64_on_stored': f_fwd, 'ring_vertices': len(ring)})
    return counters, list(violations.values()), samples, len(distinct)
