"""Driver shared by every check: builds the harness against the tree under test, runs
engines, merges their reports, matches violations against known_findings.json, writes the
evidence file and replay files, prints the verdict lines and returns the exit code.

Exit codes: 0 held (on everything explored), 1 violated (+ `VIOLATION property=.. replay=..`),
2 inconclusive (+ `INCONCLUSIVE property=.. reason=..`, never a VIOLATION line).
"""
import hashlib
import json
import os
import shutil
import subprocess
import sys
import time

VERIF = os.path.dirname(os.path.dirname(os.path.abspath(__file__)))
REPO = os.environ.get('VERIF_REPO', '/repo')
_OUT_ROOT = os.path.join(VERIF, 'out')
# event logs, generated files and replay files of runs against another tree (VERIF_REPO) live in
# their own directory, so such runs can go on next to each other and next to a run against /repo
OUT = _OUT_ROOT if REPO == '/repo' else os.path.join(_OUT_ROOT, 'alt-' + hashlib.sha1(REPO.encode()).hexdigest()[:10])
MAX_VIOLATION_LINES = 12


class Inconclusive(Exception):
    pass


def log(msg):
    print(msg, flush=True)


# ----------------------------------------------------------------------------- build

def _build_dir():
    tag = 'default' if REPO == '/repo' else hashlib.sha1(REPO.encode()).hexdigest()[:10]
    return os.path.join(_OUT_ROOT, 'build', tag)


def _prepare_build_dir():
    """A scratch cargo project under /verif/out whose `src` is /verif/harness/src and whose
    shapefile dependency points at the tree under test."""
    d = _build_dir()
    os.makedirs(d, exist_ok=True)
    tmpl = open(os.path.join(VERIF, 'harness', 'Cargo.toml.in')).read().replace('@REPO@', REPO)
    toml = os.path.join(d, 'Cargo.toml')
    if not os.path.exists(toml) or open(toml).read() != tmpl:
        open(toml, 'w').write(tmpl)
    lock_src = os.path.join(VERIF, 'harness', 'Cargo.lock')
    lock = os.path.join(d, 'Cargo.lock')
    if not os.path.exists(lock):
        shutil.copy(lock_src, lock)
    src = os.path.join(d, 'src')
    if not os.path.islink(src):
        if os.path.exists(src):
            shutil.rmtree(src)
        os.symlink(os.path.join(VERIF, 'harness', 'src'), src)
    cfgdir = os.path.join(d, '.cargo')
    os.makedirs(cfgdir, exist_ok=True)
    open(os.path.join(cfgdir, 'config.toml'), 'w').write('[net]\noffline = true\n')
    return d


def _env():
    e = dict(os.environ)
    e['CARGO_NET_OFFLINE'] = 'true'
    e['CARGO_TARGET_DIR'] = os.path.join(_build_dir(), 'target')
    e.pop('RUSTFLAGS', None)
    return e


_built = {}


def build(profile):
    """profile: 'checked' | 'release'. Returns the path of the svh binary. Always invokes
    cargo, so the binary reflects the current working tree of the repository."""
    if profile in _built:
        return _built[profile]
    d = _prepare_build_dir()
    t0 = time.time()
    env = _env()
    cmd = ['cargo', 'build', '--offline', '--profile', profile, '--quiet']
    if os.environ.get('VERIF_COV'):
        # coverage measurement of the workloads (tools/coverage.py): same sources, nightly
        # toolchain (its llvm-tools read the profiles), source-based coverage instrumentation
        cmd = ['cargo', '+nightly'] + cmd[1:]
        env['RUSTFLAGS'] = '-Cinstrument-coverage'
        env['CARGO_TARGET_DIR'] = os.path.join(_build_dir(), 'target-cov')
    p = subprocess.run(cmd, cwd=d, env=env, stdout=subprocess.PIPE, stderr=subprocess.STDOUT, text=True)
    if p.returncode != 0:
        tail = '\n'.join(p.stdout.splitlines()[-40:])
        raise Inconclusive('harness build failed (%s profile):\n%s' % (profile, tail))
    exe = os.path.join(env['CARGO_TARGET_DIR'], profile, 'svh')
    _built[profile] = exe
    log('  built harness [%s] against %s in %.1fs' % (profile, REPO, time.time() - t0))
    return exe


# ----------------------------------------------------------------------------- engines

def run_engine(prop, engine, profile, tier, seed, opts=None, case=None, timeout=3600, tag=None, threads=None):
    """Run one engine; returns its result dict (with 'pending' loaded if present)."""
    exe = build(profile)
    name = tag or ('%s-%s' % (engine, profile))
    out = os.path.join(OUT, prop, tier, name)
    if os.path.isdir(out):
        shutil.rmtree(out)
    os.makedirs(out)
    cmd = [exe, engine, '--tier', tier, '--seed', str(seed), '--out', out]
    if threads:
        cmd += ['--threads', str(threads)]
    for k, v in (opts or {}).items():
        cmd += ['--opt', '%s=%s' % (k, v)]
    if case:
        cmd += ['--case', case]
    t0 = time.time()
    try:
        p = subprocess.run(cmd, stdout=subprocess.PIPE, stderr=subprocess.PIPE, text=True, timeout=timeout)
    except subprocess.TimeoutExpired:
        raise Inconclusive('engine %s [%s] exceeded the %ds watchdog' % (engine, profile, timeout))
    if p.returncode != 0:
        raise Inconclusive('engine %s [%s] exited with status %d: %s' % (engine, profile, p.returncode, (p.stderr or '')[-2000:]))
    res = json.load(open(os.path.join(out, 'result.json')))
    res['_out'] = out
    res['_cmd'] = cmd
    res['_profile'] = profile
    res['_name'] = name
    pend = os.path.join(out, 'pending.jsonl')
    res['pending'] = [json.loads(l) for l in open(pend)] if os.path.exists(pend) else []
    log('  engine %-14s [%-7s] %9d evaluations, %d violation signature(s), %.1fs'
        % (engine, profile, res['evaluations'], len(res['violation_counts']), time.time() - t0))
    return res


def run_miri(prop, engine, tier, seed, opts=None, case=None, timeout=3000, shards=1):
    """Run an engine under Miri (nightly). The engine prints RESULT/PENDING lines on stdout.
    `shards` independent processes run in parallel, each with --opt shard=i/--opt shards=n."""
    d = _prepare_build_dir()
    env = _env()
    env['MIRIFLAGS'] = '-Zmiri-disable-isolation'
    env['CARGO_TARGET_DIR'] = os.path.join(_build_dir(), 'target-miri')
    base = ['cargo', '+nightly', 'miri', 'run', '--offline', '--quiet', '--', engine, '--tier', tier, '--seed', str(seed)]
    for k, v in (opts or {}).items():
        base += ['--opt', '%s=%s' % (k, v)]
    if case:
        base += ['--case', case]
    t0 = time.time()
    # build once (first process), then the shards in parallel
    procs = []
    first = subprocess.run(['cargo', '+nightly', 'miri', 'run', '--offline', '--quiet', '--', 'noop'], cwd=d, env=env,
                           stdout=subprocess.PIPE, stderr=subprocess.PIPE, text=True, timeout=timeout)
    if 'usage: svh' not in (first.stderr or ''):
        raise Inconclusive('miri build/run failed: %s' % (first.stderr or '')[-1500:])
    for i in range(shards):
        cmd = base + ['--opt', 'shard=%d' % i, '--opt', 'shards=%d' % shards]
        procs.append((cmd, subprocess.Popen(cmd, cwd=d, env=env, stdout=subprocess.PIPE, stderr=subprocess.PIPE, text=True)))
    results = []
    for cmd, p in procs:
        try:
            so, se = p.communicate(timeout=timeout)
        except subprocess.TimeoutExpired:
            p.kill()
            raise Inconclusive('miri shard exceeded the %ds watchdog' % timeout)
        ub = 'Undefined Behavior' in se or 'error: unsupported operation' in se
        res = None
        pending = []
        for line in so.splitlines():
            if line.startswith('RESULT '):
                res = json.loads(line[7:])
            elif line.startswith('PENDING '):
                pending.append(json.loads(line[8:]))
        if ub:
            # Miri stops at the first UB: report it as a violation of the run
            first_lines = [l for l in se.splitlines() if l.strip()][:25]
            res = res or {'engine': engine, 'evaluations': 0, 'distinct_nontrivial': 0, 'classes': {}, 'counters': {}, 'samples': [],
                          'violation_counts': {}, 'violations': [], 'guards': {}, 'wall_s': 0}
            sig = 'miri:' + next((l.split('error:')[1].strip()[:80] for l in first_lines if 'error:' in l), 'undefined behaviour')
            res['violation_counts'][sig] = res['violation_counts'].get(sig, 0) + 1
            res['violations'].append({'sig': sig, 'case': 'miri-shard', 'detail': {'stderr': first_lines, 'cmd': cmd}})
        elif res is None or p.returncode != 0:
            raise Inconclusive('miri shard produced no result (status %s): %s' % (p.returncode, se[-1500:]))
        res['pending'] = pending
        res['_profile'] = 'miri'
        res['_name'] = '%s-miri' % engine
        res['_cmd'] = cmd
        results.append(res)
    merged = merge_results(results, name='%s-miri' % engine, profile='miri')
    log('  engine %-14s [miri x%d] %9d evaluations, %d violation signature(s), %.1fs'
        % (engine, shards, merged['evaluations'], len(merged['violation_counts']), time.time() - t0))
    return merged


def merge_results(results, name, profile):
    m = {'engine': results[0].get('engine'), 'evaluations': 0, 'distinct_nontrivial': 0, 'classes': {}, 'counters': {},
         'samples': [], 'violation_counts': {}, 'violations': [], 'guards': {}, 'pending': [], 'wall_s': 0.0,
         '_profile': profile, '_name': name, '_cmd': results[0].get('_cmd')}
    for r in results:
        m['evaluations'] += r['evaluations']
        m['distinct_nontrivial'] += r['distinct_nontrivial']
        for k, v in r['classes'].items():
            m['classes'][k] = m['classes'].get(k, 0) + v
        for k, v in r['counters'].items():
            if k.startswith('max:'):
                m['counters'][k] = max(m['counters'].get(k, 0), v)
            else:
                m['counters'][k] = m['counters'].get(k, 0) + v
        m['samples'] += r['samples'][:2]
        for k, v in r['violation_counts'].items():
            m['violation_counts'][k] = m['violation_counts'].get(k, 0) + v
        m['violations'] += r['violations']
        for k, g in r['guards'].items():
            e = m['guards'].setdefault(k, {'observed': 0, 'required': g['required']})
            e['observed'] += g['observed']
        m['pending'] += r.get('pending', [])
        m['wall_s'] = max(m['wall_s'], r.get('wall_s', 0))
    return m


# ----------------------------------------------------------------------------- known findings

def load_known():
    path = os.path.join(VERIF, 'known_findings.json')
    if not os.path.exists(path):
        return []
    return json.load(open(path))['findings']


# ----------------------------------------------------------------------------- verdict

class Verdict:
    """Accumulates what the engines and offline monitors of one check observed."""

    def __init__(self, prop, tier, seed, level, rule, assumptions, exhaustive=False):
        self.prop, self.tier, self.seed, self.level = prop, tier, seed, level
        self.rule, self.assumptions, self.exhaustive = rule, assumptions, exhaustive
        self.t0 = time.time()
        self.runs = []
        self.violations = []      # dicts: sig, case, detail, engine, profile, cmd
        self.viol_counts = {}
        self.guards = {}
        self.extra = {}
        self.samples = []
        self.evaluations = 0
        self.distinct = {}        # engine name -> distinct_nontrivial (max over profiles)
        self.inconclusive = []

    def add_run(self, res):
        self.runs.append(res)
        self.evaluations += res['evaluations']
        eng = res.get('engine') or res.get('_name')
        self.distinct[eng] = max(self.distinct.get(eng, 0), res['distinct_nontrivial'])
        for s in res['samples'][:3]:
            if len(self.samples) < 10:
                self.samples.append({'engine': res.get('_name'), 'sample': s})
        for k, v in res['violation_counts'].items():
            self.viol_counts[k] = self.viol_counts.get(k, 0) + v
        for v in res['violations']:
            self.violations.append(dict(v, engine=res.get('engine'), profile=res.get('_profile'), cmd=res.get('_cmd')))
        for k, g in res['guards'].items():
            e = self.guards.setdefault('%s/%s' % (res.get('_name'), k), {'observed': 0, 'required': g['required']})
            e['observed'] += g['observed']
        if res.get('pending_dropped'):
            self.inconclusive.append('%s dropped %d pending observations' % (res.get('_name'), res['pending_dropped']))

    def add_offline(self, name, evaluations, distinct, samples, violations, counters=None, guards=None):
        """Result of an offline (Python) monitor over event logs."""
        self.evaluations += evaluations
        self.distinct[name] = max(self.distinct.get(name, 0), distinct)
        for s in samples[:3]:
            if len(self.samples) < 10:
                self.samples.append({'engine': name, 'sample': s})
        for v in violations:
            self.viol_counts[v['sig']] = self.viol_counts.get(v['sig'], 0) + v.get('count', 1)
            self.violations.append(dict(v, engine=name, profile='offline'))
        self.runs.append({'_name': name, '_profile': 'offline', 'engine': name, 'evaluations': evaluations,
                          'distinct_nontrivial': distinct, 'counters': counters or {}, 'classes': {}, 'wall_s': 0})
        for k, (obs, req) in (guards or {}).items():
            self.guards['%s/%s' % (name, k)] = {'observed': obs, 'required': req}

    def finish(self, replay_mode=False):
        known = [k for k in load_known() if k['property'] == self.prop]
        known_open = {k['signature']: k for k in known if k['status'] == 'known'}
        seen_known = {}
        new = {}
        for v in self.violations:
            if v['sig'] in known_open:
                seen_known.setdefault(v['sig'], v)
            else:
                new.setdefault(v['sig'], v)
        # counted signatures without a retained example (cannot happen: first examples are kept)
        for sig in self.viol_counts:
            if sig not in known_open and sig not in new:
                new[sig] = {'sig': sig, 'case': '?', 'detail': None}
        failed_guards = {k: g for k, g in self.guards.items() if g['observed'] < g['required']}
        for k, g in failed_guards.items():
            self.inconclusive.append('minimum-observation guard "%s": observed %d < required %d' % (k, g['observed'], g['required']))

        wall = time.time() - self.t0
        coverage = {
            'evaluations': int(self.evaluations),
            'distinct_nontrivial': int(sum(self.distinct.values())),
            'rule': self.rule,
            'samples': self.samples or [{'note': 'no sample retained'}],
            'exhaustive': bool(self.exhaustive),
            'engines': [{'name': r.get('_name'), 'profile': r.get('_profile'), 'evaluations': r['evaluations'],
                         'distinct_nontrivial': r['distinct_nontrivial'], 'wall_s': r.get('wall_s'),
                         'counters': r.get('counters', {}), 'classes': _top(r.get('classes', {}), 40)} for r in self.runs],
            'guards': self.guards,
            'violation_signatures': self.viol_counts,
            'known_findings_observed': sorted(seen_known),
            'inconclusive_reasons': self.inconclusive,
        }
        coverage.update(self.extra)
        ev = {
            'property_id': self.prop, 'tier': self.tier, 'seed': int(self.seed), 'level': self.level,
            'coverage': coverage, 'assumptions': self.assumptions, 'wall_s': round(wall, 2),
            'violations': len(new),
        }
        if not replay_mode:
            # runs against another tree (mutants, seeded changes) keep their evidence apart
            evdir = os.path.join(VERIF, 'evidence') if REPO == '/repo' else os.path.join(OUT, 'evidence')
            os.makedirs(evdir, exist_ok=True)
            tmp = os.path.join(evdir, '%s.json.tmp' % self.prop)
            json.dump(ev, open(tmp, 'w'), indent=1, sort_keys=True)
            os.replace(tmp, os.path.join(evdir, '%s.json' % self.prop))

        for sig, k in known_open.items():
            if sig in seen_known:
                log('KNOWN-FINDING: property=%s %s [%s; observed %d time(s) this run]' % (self.prop, k['what'], sig, self.viol_counts.get(sig, 1)))
            else:
                log('note: known finding %s was not observed in this run' % sig)
        if new:
            rdir = os.path.join(OUT, 'replay', self.prop)
            os.makedirs(rdir, exist_ok=True)
            for i, (sig, v) in enumerate(sorted(new.items())):
                if i >= MAX_VIOLATION_LINES:
                    log('  ... %d more violation signatures (see evidence file)' % (len(new) - i))
                    break
                path = os.path.join(rdir, '%s-%03d.json' % (self.tier, i))
                json.dump({'property': self.prop, 'tier': self.tier, 'seed': self.seed, 'signature': sig, 'case': v.get('case'),
                           'engine': v.get('engine'), 'profile': v.get('profile'), 'cmd': v.get('cmd'),
                           'count_in_run': self.viol_counts.get(sig, 1), 'detail': v.get('detail'), 'opts': v.get('opts')},
                          open(path, 'w'), indent=1)
                log('VIOLATION property=%s replay=%s' % (self.prop, path))
                log('  signature: %s  (x%d)  case: %s' % (sig, self.viol_counts.get(sig, 1), v.get('case')))
            return 1
        if self.inconclusive:
            log('INCONCLUSIVE property=%s reason=%s' % (self.prop, '; '.join(self.inconclusive)))
            return 2
        log('HELD property=%s tier=%s seed=%s: %d evaluations, %d distinct non-trivial, %.1fs'
            % (self.prop, self.tier, self.seed, self.evaluations, sum(self.distinct.values()), wall))
        return 0


def _top(d, n):
    items = sorted(d.items(), key=lambda kv: -kv[1])
    return dict(items[:n])
