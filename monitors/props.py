"""Per-property plans: which engines run in which build profile for each tier, which offline
monitors judge their logs, and the texts that go into the evidence file."""
from driver import Verdict, run_engine, run_miri, log

ASSUME_COMMON = [
    'the harness (svh) drives the library only through its public API; oracles share no code with the library',
    'rustc/cargo, std and the pinned dependency versions behave as specified',
]


# What the workloads gained after the white-box review (DESIGN 8.8); appended to the rule text
# of the evidence files so that they describe what actually ran.
ADDED = {
    'C01': 'every 5th sequence has a finalize in the middle; every record by index and then all of them in sequence on ONE reader; '
           'read_as with the index; one part beyond 2^16 vertices for every Z / M multi-vertex type; polygons converted from polylines '
           '(open rings); vertex-less rings / patches; a role change is the known finding only when the documented f64 test yields the '
           'role read back and disagrees with the exact orientation on the stored ring or its reversal',
    'C02': 'files without any record in every route x ending; large cases for every type (33 / 65 / 129 and 2^8..2^13 +-1 vertices, '
           'parts, records; 65537 records); a finalize before the first write in every 11th file; ShapeWriter::new for every 9th cursor '
           'file; write_shape followed by the consuming write_shapes',
    'C04': 'size hint and items after seek(k); iteration after the random accesses on the same reader; files of 16385 / 32769 records; '
           '.shp inside a stem or directory name; finalize before the first write; files without records',
    'C05': 'Polyline*::new and Multipoint*::from(Vec); a finalize between two writes; the large part also as FIRST part; files of 9..40 '
           'records; vertex-less rings / patches',
    'C06': 'the complete reader\'s typed routes; a record beyond 64 KiB / 4100 records per type; sequences of 65..140 shapes; mixed '
           'sequences; malformed records of another type',
    'C07': 'size_hint before every next(); seek to n+1, n+1000, usize::MAX followed by size_hint / next / skip; from_path and '
           'read_shapes(path) on every 16th input; class (g) many real parts without points; class (h) VALID files with parts of 1025 / '
           '4097 vertices and 3000 two-vertex parts; forged part counts vouched for by the lengths; 65537+ real points behind a forged count; '
           'the sweep stops after three confirmed hangs',
    'C08': 'data sets addressed as NAME.SHP; the bulk route by path and for 65 / 129 pairs; iter.last() / iter.count(); seek(k) repeated '
           'after a pair was consumed; readers without index and readers used twice; a record beyond 2^17 bytes in the long histories',
    'C09': 'a shape pair whose first shape has NaN X and Y everywhere (every type); after every finalize the files are also judged on '
           'their own (100-byte header, length field = size, one record and one index entry per shape); no I/O at a drop that follows a finalize',
    'C10': 'extra histories per (T, U, V): an index-less writer, seven accepted writes before a refusal, a third type V after U was '
           'refused, and a first shape whose own type is NullShape (user-defined)',
    'C11': 'byte-level cuts for six types in the quick tier; a second class in which one destination dies for good while the other keeps working',
    'C12': 'four writer kinds (with index, complete Writer, ShapeWriter::new, one consuming write_shapes call); seven error kinds; after a '
           'failed finalize a second attempt on the still broken destination must fail, the retry after healing must reach the flush of '
           'every destination, and every second persistent case lets the writer go while the destination still fails; shapes of 33 / 65 / '
           '300 vertices per part under the short-write schedules',
    'C13': 'every cut also through ShapeReader::read, Reader::read, the pair iterator and read_nth_shape for every index; a seek-first '
           'traversal (the public seek is a call under test); the fault enumeration also on a padded layout read through its index; seven '
           'error kinds; PointZ records without measure',
    'C14': 'record numbers unrelated to the index position; indexes of zero entries; gaps around 4 KiB and 8 KiB; random access in '
           'ascending order; read() with the index; shapefile::read_shapes and shapefile::read (with a table of n rows) on every pair',
    'C15': 'every history also ended through one iterator adaptor (skip(1), nth(1), count(), last()); two configurations on a padded layout',
    'C16': 'every arm of the four macros; every 50th case one ring of 33..200 vertices, every 97th 33..70 rings; first / last vertex '
           'differing in a no-data measure',
    'C17': 'see C07 (same sweep, allocation windows); files of 2500 tiny records; the complete one-liners by path',
    'C18': 'every shape also as SECOND record of a file; doubled vertices; 63..300 parts; vertex-less parts; NaN X / Y',
    'C19': 'the header image of the sweep varies with the code (version word, length, box); record-level codes requested as every type '
           'they resemble (byte shifts, byte swap, negation, one extra bit); read_nth_shape(_as) through an index; the codes the writer stores',
    'C20': 'FirstRing opening any group; components up to 120 vertices; repeated coordinates in the geo -> shape lane; ring groups in front '
           'of a strip / fan and non-empty geometry collections among the refusals; PointTrait::dim, coord() = None is a violation, every '
           'index of every view; the *_unchecked accessors first run in a probe process',
}


# second white-box round
ADDED2 = {
    'C01': 'the untyped read_nth_shape / iter_shapes / read / read_shapes routes; single-ring constructors; more than 4096 parts; special measures on long parts; round 9: every written file also read through sources handing out 1..100 bytes per read call and through BufReaders of capacity 37 and 8191',
    'C02': 'the complete Writer by path (over longer files too); the bulk call as the only call and handed nothing; part starts beyond vertex 2^16; round 10: in every 17th file a shape of another type is offered (and refused) between two accepted writes, the records must stay numbered 1..n',
    'C03': 'NaN in X / Y; record numbers i32::MAX / MIN; more than 1024 parts; a file without records followed by a stale record; the complete reader on every file',
    'C04': 'iteration after a random access at the last index; two finalizes in a row; 65537 records; read_nth_shape(usize::MAX); round 9: random access after k good steps and one typed step asking for another type',
    'C05': 'shapes of 17..40 parts; a finalize before the first write; the boxes of the geo-types constructors; round 10: every third file is written again through a destination whose one-shot failure hits the first operation of one write_shape (a shape with a vertex at +-1e305), the caller keeps writing and finalizes, and the header box must be that of the shapes an independent walk of the bytes finds',
    'C06': 'identity of the conversions on shapes decoded from foreign files; shapefile::read_as(path) and Reader::from_path typed routes; round 10: the printed names of the 14 kinds are pairwise distinct and each of the 196 MismatchShapeType messages contains the printed names of its two kinds',
    'C07': 'far-away indices for Reader::seek, read_nth_shape and nth on a used iterator; small negative content lengths with every type code; round 9: an unoptimised build (profile noopt) over a sample of the case space and every case of class (i), 3000 / 40 000 / 200 000 index entries that cannot address a record',
    'C08': 'seek(2) / seek(5); per-pair calls followed by the bulk call; the empty history by path; pairs accepted before a refused row must survive; round 9: seek on the index-less complete reader (refused), then read()',
    'C09': 'a refused write before a finalize; write_shapes of nothing; no I/O at an unwinding drop; 255 / 256 / 257 / 512 writes between finalizes; a writer of user-defined NullShape shapes; round 9: no write left behind the last flush once the writer is dropped',
    'C10': 'refusals on a file beyond 64 KiB; a refused shape with special values; the path-created writer; a pre-typed ShapeWriter handed to Writer::new',
    'C11': 'byte-level cuts for every type in the quick tier; large-part workloads for PolylineM, PolygonZ, MultipointZ; a sixth workload kind: all shapes through one consuming write_shapes call; round 9: a sample of the crash images written to a file and opened by path',
    'C12': 'the complete writer\'s bulk route; the empty history and bulk calls handed nothing; a part of 40 vertices; interrupted seeks (persistent and one-shot)',
    'C13': 'the complete reader under fault enumeration; typed and by-path one-liners on cut files; a seek behind the end; ten error kinds; a cut index that opens must report the cut',
    'C14': 'gaps of 2..4 KiB; null-shape records behind the index; 8193 entries in the quick tier',
    'C15': 'every seek position on a 40-record file; round 9: all ordered pairs of random accesses on one reader over 40 records of mixed sizes',
    'C16': 'rings up to 700 vertices; the geo-types constructors',
    'C18': 'the bulk route for the two-record file; 511..4097 parts; round 9: serialisation into destinations accepting 1, 7, 8, 13, 4096 bytes per write call',
    'C19': 'bodies of 44 / 100 bytes; indexed iteration and read(); the complete reader; the code in a second record; the index header by path; round 9: headers and records through sources handing out 1..3 bytes per read call',
    'C20': 'typed conversions compared with the generic one; strips / fans of 3..6 vertices (typed refusal too); a vertex-less hole; round 9: geo rings of 1..3 coordinates',
}


def _mk(prop, tier, seed, level, rule, assumptions=None, exhaustive=False):
    if prop in ADDED:
        rule = rule + '. ALSO (DESIGN 8.8): ' + ADDED[prop]
    if prop in ADDED2:
        rule = rule + '; second round: ' + ADDED2[prop]
    return Verdict(prop, tier, seed, level, rule, ASSUME_COMMON + (assumptions or []), exhaustive)


def _cleanup(res, keep=False):
    """Generated shapefiles are removed at the end of a passing run (kept on violation)."""
    import os
    import shutil
    d = os.path.join(res['_out'], 'files')
    if not keep and os.path.isdir(d):
        shutil.rmtree(d)
    if not keep:
        # the model / decode logs of a passing run can be gigabytes in the thorough tier
        for name in ('models.jsonl', 'decoded.jsonl'):
            f = os.path.join(res['_out'], name)
            if os.path.exists(f):
                os.remove(f)


def _rmtree(d):
    import os
    import shutil
    if os.path.isdir(d):
        shutil.rmtree(d)


def _profiles(tier, quick=('checked',), thorough=('checked', 'release')):
    return thorough if tier == 'thorough' else quick


# --------------------------------------------------------------------------------------- C01
def c01(tier, seed, case=None):
    import check_c01
    v = _mk('C01', tier, seed, 'exploration',
            'one case = a sequence of 1..N shapes of one type (special density 0 / 0.2 / 0.5 / 1.0 incl. +-inf, subnormals, values '
            'around NO_DATA, NaN in Z/M; exact-pool cases) written once and read back through 8 cursor routes and, every 4th case, '
            '10 path routes ({generic, concrete} x {iterate, nth, read-all} x {with, without .shx}); oracle = dump of the input with '
            'the measure normalisation of the property; ring-role changes adjudicated offline by exact rational area. distinct = '
            'sequence of (type, part-length multiset, special classes present); non-trivial = n>=2 or >=2 parts or a special value',
            ['ring roles are compared only through exact arithmetic (fractions.Fraction); rings with a non-finite coordinate carry no role claim'])
    runs = [run_engine('C01', 'c01', prof, tier, seed, case=case) for prof in _profiles(tier)]
    if tier == 'thorough' and not case:
        runs.append(run_miri('C01', 'c01', tier, seed, opts={'n': 6}, shards=13))
    pending = []
    for r in runs:
        v.add_run(r)
        pending += r['pending']
    counters, viols, samples, distinct = check_c01.adjudicate(pending)
    v.add_offline('check_c01.role-adjudication', counters['role_changes'], distinct, samples, viols, counters,
                  guards={'role changes adjudicated offline': (counters['role_changes'], 0 if case else 10)})
    return v


# --------------------------------------------------------------------------------------- C02
def c02(tier, seed, case=None):
    import check_c02
    v = _mk('C02', tier, seed, 'exploration',
            'one case = one .shp produced by the real writer from 0..N generated shapes of one type (cursor destinations and '
            'from_path files, ended by drop or by explicit finalize), validated byte by byte by the independent strict decoder '
            '(shpref.py) and compared with the model log of what was handed to the writer. distinct = (type, record count, record '
            'lengths); non-trivial = >= 2 records or >= 2 parts or special values',
            ['shpref.py implements the 1998 ESRI whitepaper layout correctly (it is cross-checked by decoding files it encoded itself in C03)'])
    r = run_engine('C02', 'c02', 'checked', tier, seed, case=case)
    v.add_run(r)
    counters, viols, samples, distinct = check_c02.check_c02(r['_out'])
    v.add_offline('check_c02.strict-validator', counters['files'], distinct, samples, viols, counters,
                  guards={'files validated': (counters['files'], 1 if case else 13 * 250), 'records decoded': (counters['records'], 0 if case else 1000)})
    if tier == 'thorough' and not case:
        r2 = run_engine('C02', 'c02', 'release', tier, seed + 1000003)
        v.add_run(r2)
        c2, viols2, samples2, d2 = check_c02.check_c02(r2['_out'])
        v.add_offline('check_c02.strict-validator(release build, second seed)', c2['files'], d2, samples2, viols2, c2)
        _cleanup(r2)
    _cleanup(r, keep=bool(viols))
    return v


# --------------------------------------------------------------------------------------- C03
REQUIRED_C03_FEATURES = ['no-M-block', 'null-record', 'zero-parts', 'zero-points', 'empty-part', 'one-vertex-part',
                         'arbitrary-record-numbers', 'trailing-bytes']


def c03(tier, seed, case=None):
    import os
    import gen_c03
    import check_c03
    from driver import OUT
    v = _mk('C03', tier, seed, 'exploration',
            'one case = one spec-conformant .shp built by the independent reference encoder (shpref.py) from a random model: any of '
            'the 14 type codes, 0..5 records, per-record layout features the library never writes (M block absent, PointZ without M, '
            'null records inside a typed file, 0 parts / 0 points, empty and one-vertex parts, arbitrary stored boxes (one in five left '
            'zeroed, one in ten a single repeated value; Z / M ranges likewise) and record numbers, bytes after the declared length), all float pools incl. raw random bit patterns; the library decodes it '
            '(read, iter_shapes, read_as / iter_shapes_as when homogeneous; on cursors and through read_shapes / from_path / read_shapes_as on '
            'the file itself) and the dumps are compared with the model. distinct = '
            '(type code, feature set, part counts); non-trivial = every file with >= 1 record',
            ['shpref.py encodes the whitepaper layouts correctly; it is the same module whose decoder validates the writer in C02 (each direction checks the other)'])
    per = 300 if tier == 'quick' else 5000
    gen_dir = os.path.join(OUT, 'C03', tier, 'gen')
    _rmtree(gen_dir)
    n = gen_c03.generate(gen_dir, seed, per)
    profs = _profiles(tier)
    viols_any = False
    for prof in profs:
        r = run_engine('C03', 'decode', prof, tier, seed, opts={'dir': gen_dir}, case=case, tag='decode-' + prof)
        v.add_run(r)
        counters, viols, samples, distinct, feats = check_c03.check(gen_dir, r['_out'], only=case)
        guards = {'files compared': (counters['files'], 1 if case else n),
                  'files also read through the path-based constructors': (counters.get('files_also_read_by_path', 0), 1 if case else n)}
        for f in REQUIRED_C03_FEATURES:
            guards['layout feature observed: ' + f] = (feats.get(f, 0), 1 if case else 20)
        guards['ring roles checked on exact-pool rings'] = (counters['role_checks_exact_pool'], 0 if case else 20)
        v.add_offline('check_c03.model-compare(%s)' % prof, counters['files'], distinct, samples, viols, counters, guards=guards)
        viols_any = viols_any or bool(viols)
        _cleanup(r, keep=bool(viols))
    if not viols_any:
        _rmtree(gen_dir)
    return v


# --------------------------------------------------------------------------------------- C04
def c04(tier, seed, case=None):
    import check_c02
    v = _mk('C04', tier, seed, 'exploration',
            'one case = a .shp/.shx pair written by the real writer from n = 0..N shapes of varying sizes (cursor and from_path '
            'destinations); the .shx bytes are judged offline against an independent walk of the .shp; the reader-side equalities '
            '(shape_count, read_nth_shape(i) for every i in descending order, None past the end, iteration with == without index, '
            'size_hint before every next) in-process. distinct = (type, n, record lengths); non-trivial = n >= 2',
            [])
    r = run_engine('C04', 'c04', 'checked', tier, seed, case=case)
    v.add_run(r)
    counters, viols, samples, distinct = check_c02.check_c04(r['_out'])
    v.add_offline('check_c04.index-vs-independent-walk', counters['files'], distinct, samples, viols, counters,
                  guards={'files with non-arithmetic record offsets': (counters['non_arithmetic_offset_files'], 0 if case else 100)})
    if tier == 'thorough' and not case:
        r2 = run_engine('C04', 'c04', 'release', tier, seed + 1000003)
        v.add_run(r2)
        c2, viols2, samples2, d2 = check_c02.check_c04(r2['_out'])
        v.add_offline('check_c04.index-vs-independent-walk(release build, second seed)', c2['files'], d2, samples2, viols2, c2)
        _cleanup(r2)
    _cleanup(r, keep=bool(viols))
    return v


# --------------------------------------------------------------------------------------- C05
def c05(tier, seed, case=None):
    v = _mk('C05', tier, seed, 'exploration',
            'one case = one sequence of 1..N shapes of one type built through the public constructors from generated vertex '
            'lists (regimes: plain, integer grid, special density 0.3 / 1.0 without NaN, one dimension constant at a special '
            'value) with extremes forced into first/middle/last vertex x part x shape; the oracle is a naive min/max fold. '
            'distinct = (type, n, position class of the X minimum, regime, total points); non-trivial = every case (n>=1, all are '
            'written and re-read)')
    for prof in _profiles(tier):
        v.add_run(run_engine('C05', 'c05', prof, tier, seed, case=case))
    return v


# --------------------------------------------------------------------------------------- C06
def c06(tier, seed, case=None):
    v = _mk('C06', tier, seed, 'exploration',
            'the complete 13 x 14 matrix (requested concrete type S, record type T) x {read_as, iter_shapes_as (with/without '
            'index), read_nth_shape_as for every i, read_shapes_as(path)} against convert_shapes_to_vec_of(read()), over several '
            'files per T (writer output; hand-laid NullShape records; homogeneous foreign-layout files from the reference encoder: unclosed '
            'rings, absent M blocks, empty parts, trailing bytes; .shp/.shx pairs on disk with permuted and padded indexes, typed against '
            'generic through every path route); identity/shapetype of every variant; bulk conversion with '
            'the odd shape at every position; mixed sequences (several foreign types, NullShape included) as vectors and as '
            'hand-concatenated files through convert_shapes_to_vec_of / read_as / iter_shapes_as, decided by the first element that '
            'is not an S; a record of type T that is malformed for T (nothing but its type word / its last 8 bytes missing) requested '
            'as S != T still answers with the mismatch naming T. distinct = (S, T, api) cells + (S, T, len, pos) bulk cases; all non-trivial',
            exhaustive=True)
    import os
    import gen_c03
    from driver import OUT
    gen_dir = os.path.join(OUT, 'C06', tier, 'foreign')
    _rmtree(gen_dir)
    gen_c03.generate(gen_dir, seed, 40 if tier == 'quick' else 400)
    import gen_c14
    idx_dir = os.path.join(OUT, 'C06', tier, 'indexed')
    _rmtree(idx_dir)
    gen_c14.generate(idx_dir, seed, 4)
    for prof in _profiles(tier):
        v.add_run(run_engine('C06', 'c06', prof, tier, seed, opts={'foreign': gen_dir, 'indexed': idx_dir}, case=case))
    if tier == 'thorough' and not case:
        v.add_run(run_miri('C06', 'c06', tier, seed, shards=8))
    if not v.violations:
        _rmtree(gen_dir)
        _rmtree(idx_dir)
    v.extra['exhaustive_scope'] = 'the (S,T) type matrix and the 14 variants are enumerated completely; shapes inside the files are sampled'
    return v


# --------------------------------------------------------------------------------------- C07 / C17
C07_RULE = ('one case = one hostile input (.shp and optionally .shx) derived from valid files of all 13 types with 1..3 records: (a) every '
            'aligned 32-bit word of either file replaced by each of 22 boundary values in both byte orders, count/length fields shifted '
            'by k*2^28..2^31 so that i32 size arithmetic wraps back to the declared length, (thorough) all pairs of count/length '
            'fields; (b) truncation at every length, extension by 1..64 bytes; (c) random bit flips; (d) random bytes behind a valid '
            'file code; (e) counts 2^4..2^31 with mutually consistent lengths and no data behind them, index headers declaring 2^k '
            'entries; (f) the same with real points / part offsets / index entries present up to amounts straddling powers of two '
            '(2^8-1 .. 2^13+1, thorough 2^15+1) before the data runs out. Every reader entry point (new/with_shx, every next() of iter_shapes / iter_shapes_as, shape_count, read_nth_shape, '
            'seek, a second iteration, read, read_as for rotating types) runs under catch_unwind + panic hook + an allocation window; '
            'iterations are bounded by len(shp)+len(shx)+2 items. distinct = indices of the enumeration (each a different input); all '
            'non-trivial')


def _c07_like(prop, tier, seed, case, keep):
    import c07_supervisor
    v = _mk(prop, tier, seed, 'exploration', C07_RULE,
            ['process aborts and hangs are attributed to the in-flight case through a progress file written before each case',
             'allocation bound: 64 x (len(shp)+len(shx)) + 64 KiB per reader call (peak live bytes above the window start, or a single request)'])
    profs = ('checked', 'release')
    for prof in profs:
        if case:
            r = c07_supervisor.run_single(prop, prof, tier, seed, case)
        else:
            r = c07_supervisor.run(prop, prof, tier, seed)
        # the engine serves two properties: keep the signatures that belong to this one
        r['violations'] = [x for x in r['violations'] if keep(x['sig'])]
        r['violation_counts'] = {k: n for k, n in r['violation_counts'].items() if keep(k)}
        v.add_run(r)
    if prop == 'C07' and not case:
        # the unoptimised build (recursion is not turned into a loop there, frames are large): every
        # case of the classes made for it and a sample of all the others
        r = c07_supervisor.run(prop, 'noopt', tier, seed, sample=(16 if tier == 'thorough' else 40), tag='c07-noopt')
        r['violations'] = [x for x in r['violations'] if keep(x['sig'])]
        r['violation_counts'] = {k: n for k, n in r['violation_counts'].items() if keep(k)}
        v.add_run(r)
    if tier == 'thorough' and not case:
        r = run_miri(prop, 'c07worker', tier, seed, opts={'sample': 300}, shards=16)
        r['violations'] = [x for x in r['violations'] if keep(x['sig'])]
        r['violation_counts'] = {k: n for k, n in r['violation_counts'].items() if keep(k)}
        v.add_run(r)
    return v


def c07(tier, seed, case=None):
    return _c07_like('C07', tier, seed, case, lambda sig: not sig.startswith('alloc:'))


def c17(tier, seed, case=None):
    v = _c07_like('C17', tier, seed, case, lambda sig: sig.startswith('alloc:') or sig == 'abort')
    worst = max([r.get('counters', {}).get('max:worst_alloc_ratio_x100', 0) for r in v.runs] + [0])
    v.extra['worst_observed_ratio_peak_or_largest_request_over_input_bytes'] = worst / 100.0
    return v


# --------------------------------------------------------------------------------------- C08
def c08(tier, seed, case=None):
    n = 5 if tier == 'quick' else 7
    v = _mk('C08', tier, seed, 'exploration',
            'one case = a history of write_shape_and_record calls over {well-formed pair, shape of another type, row missing a field, '
            'row with a value of the wrong field type}: ALL words of length <= %d, ALL words over the first two letters up to length 9 '
            '(quick) / 12 (thorough), plus long all-success and random histories, for each of the 13 types, through Writer::new on instrumented '
            'destinations and (a sample) Writer::from_path; then an independent walk counts shp records / shx entries / dbf header rows '
            '/ dbf rows physically present, and the complete Reader (read, iter_shapes_and_records, Reader::from_path, '
            'shapefile::read(path)) must return exactly the accepted pairs in order, each shape with its own row (tags carried in a '
            'coordinate and in the row). distinct = (type, history, route); all non-trivial' % n)
    for prof in _profiles(tier):
        v.add_run(run_engine('C08', 'c08', prof, tier, seed, case=case))
    if tier == 'thorough' and not case:
        v.add_run(run_miri('C08', 'c08', tier, seed, shards=8))
    return v


# --------------------------------------------------------------------------------------- C09
def c09(tier, seed, case=None):
    n = 6 if tier == 'quick' else 9
    v = _mk('C09', tier, seed, 'exploration',
            'ALL words over {write a, write b, finalize} of length <= %d, for each of the 13 types (a, b of different sizes), with and '
            'without an index destination, four endings (drop; finalize then drop; consumption by write_shapes([a,b]); drop while a panic '
            'of the caller unwinds); after every '
            'finalize the images and op logs of the instrumented destinations are inspected (complete file, last op is a flush, no I/O '
            'when nothing is new); final bytes are compared with the reference history "same writes, then drop"; a sample of the words '
            'also runs through from_path with the files read back while the writer is alive. distinct = histories (type, index, word, '
            'ending); all non-trivial' % n, exhaustive=True)
    for prof in _profiles(tier):
        v.add_run(run_engine('C09', 'c09', prof, tier, seed, case=case))
    if tier == 'thorough' and not case:
        v.add_run(run_miri('C09', 'c09', tier, seed, shards=16))
    v.extra['exhaustive_scope'] = 'all words of length <= %d over {Wa, Wb, F} x 13 types x {index, no index} x 4 endings; shapes a, b are fixed per type' % n
    return v


# --------------------------------------------------------------------------------------- C10
def c10(tier, seed, case=None):
    n = 5 if tier == 'quick' else 8
    v = _mk('C10', tier, seed, 'exploration',
            'ALL 13 x 12 ordered pairs of distinct types (first type, offered type) x ALL words of length <= %d over {write T, write U, '
            'finalize} in which some write is rejected, through ShapeWriter (shp+shx) and through the complete Writer (shp+shx+dbf; '
            'alphabet without finalize), each history also ended by the consuming bulk route (write_shapes / write_shapes_and_records) '
            'offered the foreign type; monitor: error fields, zero operations on any destination during the epoch of a rejected call, '
            'final bytes equal to the same history with the rejected calls deleted (dbf date masked). distinct = (T, U, writer, word); '
            'all non-trivial' % n, exhaustive=True)
    for prof in _profiles(tier):
        v.add_run(run_engine('C10', 'c10', prof, tier, seed, case=case))
    v.extra['exhaustive_scope'] = 'all ordered type pairs x all words of length <= %d containing a rejected write' % n
    return v


# --------------------------------------------------------------------------------------- C11
def c11(tier, seed, case=None):
    v = _mk('C11', tier, seed, 'fault_enumeration',
            'one workload = (type, 3..5 shapes, finalize placement in {none, after each write, in the middle, before the first write, '
            'twice at the end}) run once on instrumented destinations; crash points = EVERY prefix of the .shp op log x EVERY prefix of '
            'the .shx op log (quick: op granularity for all 13 types, plus byte-level cuts inside every write for 3 types with every 5th '
            'pair; thorough: byte level for all types with every 2nd pair, 6 extra random workloads per type and placement); readers: '
            'ShapeReader::new(shp image) and with_shx(shp image, shx image) incl. read_nth_shape for every index. Second class (live): '
            'one destination dies for good at each of its operations while the other keeps working, the caller stops at the first '
            'error (optionally finalizes once more) and drops the writer; what both hold is read the same way, and nothing may be '
            'lost that a finalize which ran to its flush on the .shp had committed. distinct = shp crash '
            'points (type, placement, variant, ops applied, bytes of the next write applied); all non-trivial',
            ['only prefixes of the operation sequence are modelled (no reordering of writes by a file system, no torn sectors)'])
    for prof in _profiles(tier, quick=('checked',), thorough=('checked',)):
        v.add_run(run_engine('C11', 'c11', prof, tier, seed, case=case))
    if tier == 'thorough' and not case:
        v.add_run(run_miri('C11', 'c11', tier, seed, shards=16))
    return v


# --------------------------------------------------------------------------------------- C12
def c12(tier, seed, case=None):
    v = _mk('C12', tier, seed, 'fault_enumeration',
            'per type and history (quick: W W W F, W F W F, W W then drop, F W F; thorough: all histories of length <= 5 over {W, F} and a '
            '10-write history), through ShapeWriter and the complete Writer: a fault at EVERY operation index k (write, seek or flush) of '
            'each destination in turn (shp, shx, dbf), one-shot and persistent, plus two control indices past the end; a failed finalize '
            'is retried on the healed destination and the final bytes compared with the undisturbed run; short-write schedules (1..8, '
            '64, PRNG sequences) must give identical bytes. distinct = (type, history, writer, destination, k, mode); all non-trivial',
            ['injected errors have ErrorKind::Other (Interrupted is legitimately retried by write_all)'])
    for prof in _profiles(tier):
        v.add_run(run_engine('C12', 'c12', prof, tier, seed, case=case))
    if tier == 'thorough' and not case:
        v.add_run(run_miri('C12', 'c12', tier, seed, shards=16))
    return v


# --------------------------------------------------------------------------------------- C13
def c13(tier, seed, case=None):
    v = _mk('C13', tier, seed, 'fault_enumeration',
            'per file (13 types x 4 (quick) / 16 (thorough) files of 1..4 records): truncation at EVERY length of the .shp (with the '
            'intact .shx and without; a sample of the lengths incl. every record boundary +-1 also as real files opened by path) and of the '
            '.shx; a fault at EVERY k-th read/seek of a full traversal (open, iterate to the end, '
            'read_nth_shape for each i) on each source, one-shot and persistent, attributed to the call in progress by op-log epochs; '
            'short-read schedules (1..8 bytes, PRNG sequences). distinct = (file, kind, L | k, mode); all non-trivial',
            ['what an iterator does after its first error is not judged here (C07 bounds it)'])
    for prof in _profiles(tier):
        v.add_run(run_engine('C13', 'c13', prof, tier, seed, case=case))
    if tier == 'thorough' and not case:
        v.add_run(run_miri('C13', 'c13', tier, seed, shards=16))
    return v


# --------------------------------------------------------------------------------------- C14
def c14(tier, seed, case=None):
    import os
    import gen_c14
    import check_c14
    from driver import OUT
    max_n = 4 if tier == 'quick' else 6
    v = _mk('C14', tier, seed, 'exploration',
            'one case = a .shp laid out by the reference encoder with n = 1..%d records in one physical permutation (ALL permutations '
            'for every n) x filler pattern {none, everywhere, random; zero bytes, random bytes, bytes that look like records} x 6 '
            'record types, header length covering the whole file, plus a .shx in logical order; the library reads it with the index '
            '(iteration, read_nth_shape for every i and two past the end, shape_count; iteration after a random access and after a partial '
            'iteration + random access on the same reader; ShapeReader::from_path, shapefile::read_shapes and - with a table of n rows '
            'written next to the pair - shapefile::read on the files) and the dumps are compared with the model in '
            'index order; the instrumented source counts the seeks. distinct = (type, permutation, filler pattern); non-trivial = all' % max_n,
            ['shpref.py encodes records correctly (cross-checked in C02/C03)'], exhaustive=True)
    gen_dir = os.path.join(OUT, 'C14', tier, 'gen')
    _rmtree(gen_dir)
    n = gen_c14.generate(gen_dir, seed, max_n)
    viols_any = False
    for prof in _profiles(tier):
        r = run_engine('C14', 'decode', prof, tier, seed, opts={'dir': gen_dir, 'routes': 'idx'}, case=case, tag='decode-' + prof)
        v.add_run(r)
        counters, viols, samples, distinct = check_c14.check(gen_dir, r['_out'], only=case)
        v.add_offline('check_c14.index-order(%s)' % prof, counters['files'], distinct, samples, viols, counters,
                      guards={'files compared': (counters['files'], 1 if case else n),
                              'files whose indexed iteration had to seek': (counters['files_where_iteration_had_to_seek'], 0 if case else 50),
                              'interleaved / path iterations compared': (counters.get('interleaved_or_path_iterations', 0), 0 if case else n)})
        viols_any = viols_any or bool(viols)
        _cleanup(r, keep=bool(viols))
    v.extra['exhaustive_scope'] = 'all permutations of the physical order for every n <= %d; filler contents and record geometry are sampled' % max_n
    if not viols_any:
        _rmtree(gen_dir)
    return v


# --------------------------------------------------------------------------------------- C15
def c15(tier, seed, case=None):
    n = (4, 6, 4) if tier == 'quick' else (6, 10, 6)
    v = _mk('C15', tier, seed, 'exploration',
            'ALL words of length <= %d over {iterate 0/1/2/all items, read_nth_shape(i) i=0..3, seek(k) k=0..3, shape_count} on a '
            'ShapeReader with index, <= %d over {iterate 0/1/2/all} without index, <= %d over {iterate.., seek(k), shape_count} on the '
            'complete Reader (rows carry their index), each on a file of 3 records of pairwise different sizes and on one of equal '
            'sizes; the same alphabets on readers WITHOUT index (ShapeReader and complete Reader), where seek / read_nth_shape / shape_count '
            'must fail and leave shapes and rows where they were; every history also ended by the read-everything call (read / read_as, '
            'consuming for ShapeReader); each once through the generic API and once through the typed variants (iter_shapes_as, read_nth_shape_as, '
            'iter_shapes_and_records_as; one letter shorter in the thorough tier); every call is judged by a reference model whose state is the set of start positions the property allows for the '
            'next iteration. distinct = (reader kind, file, word); all non-trivial' % n, exhaustive=True)
    for prof in _profiles(tier):
        v.add_run(run_engine('C15', 'c15', prof, tier, seed, case=case))
    if tier == 'thorough' and not case:
        v.add_run(run_miri('C15', 'c15', tier, seed, shards=16))
    v.extra['exhaustive_scope'] = 'all call histories up to the stated lengths over the stated alphabets, n = 3 records'
    return v


# --------------------------------------------------------------------------------------- C16
def c16(tier, seed, case=None):
    v = _mk('C16', tier, seed, 'exploration',
            'one case = a list of 1..6 rings/patches (1..12 vertices, declared role or patch kind independent of orientation, '
            'open or closed, degenerate classes: collinear, repeated vertex, figure-eight, first/last differing only in Z/M or '
            'in the sign of zero) built with new / with_rings / with_parts; oracle: exact integer shoelace on the exact pool, '
            'close(input) and its reversal. distinct = (type, [(kind, length)], pool regime); non-trivial = every case',
            ['orientation is asserted only for rings drawn from the exact pool (multiples of 2^-6 below 2^12), where the f64 shoelace sum is exact'])
    for prof in _profiles(tier):
        v.add_run(run_engine('C16', 'c16', prof, tier, seed, case=case))
    return v


# --------------------------------------------------------------------------------------- C18
def c18(tier, seed, case=None):
    v = _mk('C18', tier, seed, 'exploration',
            'dense grid parts 1..8 x points-per-part 1..8 for the nine multipart types, n = 1..64 for the multipoints, the three '
            'points, plus random larger shapes, uniform-measure variants, polygons converted from polylines (open rings) and shapes decoded '
            'from foreign-layout files; for each: size_in_bytes() vs bytes emitted by write_to() vs the whitepaper closed '
            'form vs the record header the writer stores. distinct = (type, parts, part lengths); non-trivial = >= 2 parts or >= 2 points',
            exhaustive=True)
    import os
    import gen_c03
    from driver import OUT
    gen_dir = os.path.join(OUT, 'C18', tier, 'foreign')
    _rmtree(gen_dir)
    gen_c03.generate(gen_dir, seed, 30 if tier == 'quick' else 300)
    for prof in _profiles(tier):
        v.add_run(run_engine('C18', 'c18', prof, tier, seed, opts={'foreign': gen_dir}, case=case))
    _rmtree(gen_dir)
    v.extra['exhaustive_scope'] = 'the (parts, points-per-part) grid is enumerated completely; coordinates and the larger shapes are sampled'
    return v


# --------------------------------------------------------------------------------------- C19
def c19(tier, seed, case=None):
    v = _mk('C19', tier, seed, 'exploration',
            'all 2^32 codes through ShapeType::from and through Header::read_from on a header carrying the code (both tiers); '
            'record-level reads (generic iteration, typed iteration and read_as with a rotating concrete type) for a band around 0, all '
            'one-bit neighbours of the 14 codes and random codes; the 14 table rows '
            'for predicates and display names. distinct_nontrivial = codes that are valid, one bit away from a valid code, of '
            'magnitude <= 64 or next to i32::MIN/MAX (counted during the sweep) + the 14 table rows',
            exhaustive=True)
    import os
    opts = {'sweep_shift': 8} if os.environ.get('VERIF_COV') else None     # tools/coverage.py only
    v.add_run(run_engine('C19', 'c19', 'release', tier, seed, opts=opts, case=case))
    if tier == 'thorough' and not case:
        v.add_run(run_engine('C19', 'c19', 'checked', tier, seed, case=case))
    v.extra['exhaustive_scope'] = 'all 2^32 values of the code, for ShapeType::from and Header::read_from'
    return v


# --------------------------------------------------------------------------------------- C20
def c20(tier, seed, case=None):
    v = _mk('C20', tier, seed, 'exploration',
            'lanes: (1) shape -> geo-types for each of the 13 types (outer-first polygons and ring-only multipatches built from groups of '
            'an exterior and 0..3 holes; star-shaped exact-pool rings in every second case so the way back is defined) with the expected '
            'grouping computed from the shape\'s own roles / patch kinds, and back to the 2-D shape; (2) geo-types Point, Line, '
            'LineString, MultiLineString, Polygon (0..4 holes), MultiPolygon, MultiPoint -> shape -> geo compared as multi-geometry up '
            'to ring orientation; (3) refusals (NullShape, strip/fan multipatches, GeometryCollection, Rect, Triangle); (4) the '
            'geo-traits view of Point/PointM/PointZ (by value, by reference, through MultipointM/Z and PolylineM/Z line strings) for '
            'measures in {real, NO_DATA, its neighbours, below, NaN, +-inf}: every index below dim().size() read with nth, nth_or_panic '
            'and nth_unchecked. distinct = structure keys per lane; all non-trivial',
            ['geo-types values are built within geo-types\' own validity rules (LineString >= 2 coordinates, non-empty components)'])
    for prof in _profiles(tier):
        v.add_run(run_engine('C20', 'c20', prof, tier, seed, case=case))
    if tier == 'thorough' and not case:
        v.add_run(run_miri('C20', 'c20', tier, seed, opts={'n': 12}, shards=8))
    return v


PLANS = {'C20': c20, 'C08': c08, 'C07': c07, 'C17': c17, 'C15': c15, 'C11': c11, 'C12': c12, 'C13': c13, 'C09': c09, 'C10': c10, 'C14': c14, 'C03': c03, 'C02': c02, 'C04': c04, 'C01': c01, 'C05': c05, 'C06': c06, 'C16': c16, 'C18': c18, 'C19': c19}
