"""Per-property plans: which engines run in which build profile for each tier, which offline
monitors judge their logs, and the texts that go into the evidence file."""
from driver import Verdict, run_engine, run_miri, log

ASSUME_COMMON = [
    'the harness (svh) drives the library only through its public API; oracles share no code with the library',
    'rustc/cargo, std and the pinned dependency versions behave as specified',
]


def _mk(prop, tier, seed, level, rule, assumptions=None, exhaustive=False):
    return Verdict(prop, tier, seed, level, rule, ASSUME_COMMON + (assumptions or []), exhaustive)


def _profiles(tier, quick=('checked',), thorough=('checked', 'release')):
    return thorough if tier == 'thorough' else quick


# --------------------------------------------------------------------------------------- C05
def c05(tier, seed, case=None):
    v = _mk('C05', tier, seed, 'exploration',
            'one case = one sequence of 1..N shapes of one type built through the public constructors from generated vertex '
            'lists (regimes: plain, integer grid, special density 0.3 / 1.0 without NaN, one dimension constant at a special '
            'value) with extremes forced into first/middle/last vertex x part x shape; the oracle is a naive min/max fold. '
            'distinct = (type, n, position class of the X minimum, regime, total points); non-trivial = every case (n>=1, all are '
            'written and re-read)')
    for prof in _profiles(tier):
        v.add_run(run_engine('C05', 'c05', prof, tier, seed, case=case))
    return v


# --------------------------------------------------------------------------------------- C06
def c06(tier, seed, case=None):
    v = _mk('C06', tier, seed, 'exploration',
            'the complete 13 x 14 matrix (requested concrete type S, record type T) x {read_as, iter_shapes_as (with/without '
            'index), read_nth_shape_as for every i, read_shapes_as(path)} against convert_shapes_to_vec_of(read()), over several '
            'files per T (writer output; hand-laid NullShape records); identity/shapetype of every variant; bulk conversion with '
            'the odd shape at every position. distinct = (S, T, api) cells + (S, T, len, pos) bulk cases; all non-trivial',
            exhaustive=True)
    for prof in _profiles(tier):
        v.add_run(run_engine('C06', 'c06', prof, tier, seed, case=case))
    if tier == 'thorough' and not case:
        v.add_run(run_miri('C06', 'c06', tier, seed))
    v.extra['exhaustive_scope'] = 'the (S,T) type matrix and the 14 variants are enumerated completely; shapes inside the files are sampled'
    return v


# --------------------------------------------------------------------------------------- C16
def c16(tier, seed, case=None):
    v = _mk('C16', tier, seed, 'exploration',
            'one case = a list of 1..6 rings/patches (1..12 vertices, declared role or patch kind independent of orientation, '
            'open or closed, degenerate classes: collinear, repeated vertex, figure-eight, first/last differing only in Z/M or '
            'in the sign of zero) built with new / with_rings / with_parts; oracle: exact integer shoelace on the exact pool, '
            'close(input) and its reversal. distinct = (type, [(kind, length)], pool regime); non-trivial = every case',
            ['orientation is asserted only for rings drawn from the exact pool (multiples of 2^-6 below 2^12), where the f64 shoelace sum is exact'])
    for prof in _profiles(tier):
        v.add_run(run_engine('C16', 'c16', prof, tier, seed, case=case))
    return v


# --------------------------------------------------------------------------------------- C18
def c18(tier, seed, case=None):
    v = _mk('C18', tier, seed, 'exploration',
            'dense grid parts 1..8 x points-per-part 1..8 for the nine multipart types, n = 1..64 for the multipoints, the three '
            'points, plus random larger shapes; for each: size_in_bytes() vs bytes emitted by write_to() vs the whitepaper closed '
            'form vs the record header the writer stores. distinct = (type, parts, part lengths); non-trivial = >= 2 parts or >= 2 points',
            exhaustive=True)
    for prof in _profiles(tier):
        v.add_run(run_engine('C18', 'c18', prof, tier, seed, case=case))
    v.extra['exhaustive_scope'] = 'the (parts, points-per-part) grid is enumerated completely; coordinates and the larger shapes are sampled'
    return v


# --------------------------------------------------------------------------------------- C19
def c19(tier, seed, case=None):
    v = _mk('C19', tier, seed, 'exploration',
            'all 2^32 codes through ShapeType::from and through Header::read_from on a header carrying the code (both tiers); '
            'record-level reads for a band around 0, all one-bit neighbours of the 14 codes and random codes; the 14 table rows '
            'for predicates and display names. distinct_nontrivial = codes that are valid, one bit away from a valid code, of '
            'magnitude <= 64 or next to i32::MIN/MAX (counted during the sweep) + the 14 table rows',
            exhaustive=True)
    v.add_run(run_engine('C19', 'c19', 'release', tier, seed, case=case))
    if tier == 'thorough' and not case:
        v.add_run(run_engine('C19', 'c19', 'checked', tier, seed, case=case))
    v.extra['exhaustive_scope'] = 'all 2^32 values of the code, for ShapeType::from and Header::read_from'
    return v


PLANS = {'C05': c05, 'C06': c06, 'C16': c16, 'C18': c18, 'C19': c19}
