"""Exact rational shoelace for ring-role adjudication (C01). Every finite f64 is a dyadic
rational, so `fractions.Fraction` computes the doubled signed area
    S = sum (x2 - x1) * (y2 + y1)
exactly; S > 0 clockwise (outer), S < 0 counter-clockwise (inner)."""
import math
from fractions import Fraction

from shpref import to_float


def exact_sign(ring_bits):
    """ring_bits: [[xhex, yhex], ...]. Returns +1, 0, -1 or None when a coordinate is not finite."""
    pts = []
    for x, y in ring_bits:
        fx, fy = to_float(x), to_float(y)
        if not (math.isfinite(fx) and math.isfinite(fy)):
            return None
        pts.append((Fraction(fx), Fraction(fy)))
    s = Fraction(0)
    for (x1, y1), (x2, y2) in zip(pts, pts[1:]):
        s += (x2 - x1) * (y2 + y1)
    return (s > 0) - (s < 0)


def f64_sign_as_library(ring_bits):
    """The library's own orientation test re-computed in IEEE double arithmetic in the same
    order: sum of (x2-x1)*(y2+y1) left to right, then `area < 0` -> inner. Returns
    'inner' | 'outer' (what the f64 test would answer)."""
    pts = [(to_float(x), to_float(y)) for x, y in ring_bits]
    s = 0.0
    for (x1, y1), (x2, y2) in zip(pts, pts[1:]):
        s += (x2 - x1) * (y2 + y1)
    s = s / 2.0
    return 'inner' if s < 0.0 else 'outer'
