#!/usr/bin/python3
"""Runs every calibration mutant of selftest/mutants/ through tools/try_patch.py with its
owning checks (quick tier) and prints a table. A mutant is *admissible* when the repository's
own tests still pass with it; an admissible mutant should be caught (exit 1) by at least one
owning check. usage: run.py [name-substring ...]"""
import json
import os
import subprocess
import sys

HERE = os.path.dirname(os.path.abspath(__file__))
idx = json.load(open(os.path.join(HERE, 'mutants', 'index.json')))
sel = sys.argv[1:]
rows = []
for m in idx:
    if sel and not any(s in m['name'] for s in sel):
        continue
    cmd = [os.path.join(HERE, '..', 'tools', 'try_patch.py'), os.path.join(HERE, 'mutants', m['name'] + '.diff')] + m['properties']
    p = subprocess.run(cmd, stdout=subprocess.PIPE, stderr=subprocess.STDOUT, text=True)
    res = None
    for line in p.stdout.splitlines():
        if line.startswith('RESULT '):
            res = json.loads(line[7:])
    if res is None:
        print(m['name'], 'ERROR', p.stdout[-600:])
        continue
    caught = [k for k, v in res['checks'].items() if v['exit'] == 1]
    rows.append((m['name'], res.get('repo_tests_pass'), caught, {k: v['exit'] for k, v in res['checks'].items()},
                 [s for v in res['checks'].values() for s in v['signatures'][:1]]))
    print('%-48s tests:%-5s caught by: %-12s exits: %s  %s' % rows[-1], flush=True)
json.dump([{'name': r[0], 'repo_tests_pass': r[1], 'caught_by': r[2], 'exits': r[3], 'first_signatures': r[4]} for r in rows],
          open(os.path.join(HERE, 'last_run.json'), 'w'), indent=1)
