#!/usr/bin/python3
"""Generates the calibration mutants (small patches against /repo's HEAD) into selftest/mutants/.
Each entry: name, owning properties, file, old text, new text. Used with tools/try_patch.py."""
import difflib
import os
import subprocess

HERE = os.path.dirname(os.path.abspath(__file__))
OUT = os.path.join(HERE, 'mutants')
MUTANTS = [
    ('m01_shx_entry_after_length_advance', ['C04'], 'src/writer.rs',
     """        if let Some(shx_dest) = &mut self.shx_dest {
            ShapeIndex {
                offset: self.header.file_length,
                record_size: record_size as i32,
            }
            .write_to(shx_dest)?;
        }

        self.header.file_length += record_size as i32 + RecordHeader::SIZE as i32 / 2;
""",
     """        let previous_length = self.header.file_length;
        self.header.file_length += record_size as i32 + RecordHeader::SIZE as i32 / 2;
        if let Some(shx_dest) = &mut self.shx_dest {
            ShapeIndex {
                offset: if self.rec_num > 1 { self.header.file_length } else { previous_length },
                record_size: record_size as i32,
            }
            .write_to(shx_dest)?;
        }

"""),
    ('m02_measures_not_normalised_on_read', ['C01', 'C03'], 'src/record/io.rs',
     "        *point.m_mut() = f64::max(source.read_f64::<LittleEndian>()?, NO_DATA);",
     "        *point.m_mut() = source.read_f64::<LittleEndian>()?;"),
    ('m03_multipatch_writer_swaps_firstring_ring', ['C02', 'C01'], 'src/record/multipatch.rs',
     """                        Patch::FirstRing(_) => wrt.dst.write_i32::<LittleEndian>(4)?,
                        Patch::Ring(_) => wrt.dst.write_i32::<LittleEndian>(5)?,""",
     """                        Patch::FirstRing(_) => wrt.dst.write_i32::<LittleEndian>(5)?,
                        Patch::Ring(_) => wrt.dst.write_i32::<LittleEndian>(4)?,"""),
    ('m04_finalize_does_not_flush_shp', ['C09'], 'src/writer.rs',
     """        self.shp_dest.seek(SeekFrom::End(0))?;
        self.shp_dest.flush()?;
""",
     """        self.shp_dest.seek(SeekFrom::End(0))?;
"""),
    ('m05_hole_pushed_into_previous_polygon', ['C20'], 'src/record/polygon.rs',
     """                    if let Some(poly) = last_poly.as_mut() {
                        poly.interiors_push(interior);
                    } else {""",
     """                    if let Some(poly) = polygons.last_mut() {
                        poly.interiors_push(interior);
                    } else if let Some(poly) = last_poly.as_mut() {
                        poly.interiors_push(interior);
                    } else {"""),
    ('m06_prealloc_cap_removed_points', ['C17'], 'src/record/io.rs',
     "    let mut points = Vec::<PointType>::with_capacity(num_points.min(MAX_PREALLOCATED_ELEMENTS));",
     "    let mut points = Vec::<PointType>::with_capacity(num_points);"),
    ('m07_dirty_cleared_by_write', ['C09', 'C11'], 'src/writer.rs',
     """        self.rec_num += 1;
        self.dirty = true;
""",
     """        self.rec_num += 1;
        self.dirty = self.rec_num % 4 != 0;
"""),
    ('m08_header_zmax_from_zmin_for_multipatch', ['C05'], 'src/record/bbox.rs',
     """            self.max.z = f64_max(z_range[1], self.max.z);""",
     """            self.max.z = f64_max(z_range[if S::shapetype() == crate::ShapeType::Multipatch { 0 } else { 1 }], self.max.z);"""),
    ('m09_seek_error_swallowed_in_finalize', ['C12'], 'src/writer.rs',
     """        self.shp_dest.seek(SeekFrom::End(0))?;
        self.shp_dest.flush()?;
""",
     """        let _ = self.shp_dest.seek(SeekFrom::End(0));
        self.shp_dest.flush()?;
"""),
    ('m10_record_size_check_dropped_pointz', ['C07', 'C13'], 'src/record/point.rs',
     """        } else if record_size == 4 * size_of::<f64>() as i32 {
            let mut point = Self::read_xyz(source)?;""",
     """        } else if record_size >= 4 * size_of::<f64>() as i32 {
            let mut point = Self::read_xyz(source)?;"""),
    ('m11_type_check_skipped_for_pointm_into_point_file', ['C10'], 'src/writer.rs',
     """            (t1, t2) if t1 != t2 => {""",
     """            (t1, t2) if t1 != t2 && !(t1 == ShapeType::PolylineZ && t2 == ShapeType::PolylineM) => {"""),
    ('m12_size_in_bytes_polygonm_off_for_3_rings', ['C18', 'C02'], 'src/record/polygon.rs',
     """        size += 3 * size_of::<f64>() * self.total_point_count();
        size += 2 * size_of::<f64>();
        size
    }

    fn write_to<T: Write>(&self, dest: &mut T) -> Result<(), Error> {
        let parts_iter = self.rings().iter().map(|ring| ring.points());
        let writer = MultiPartShapeWriter::new(&self.bbox, parts_iter, dest);
        writer.write_point_m_shape()?;""",
     """        size += 3 * size_of::<f64>() * self.total_point_count();
        size += 2 * size_of::<f64>();
        if self.rings.len() == 3 {
            size += 2;
        }
        size
    }

    fn write_to<T: Write>(&self, dest: &mut T) -> Result<(), Error> {
        let parts_iter = self.rings().iter().map(|ring| ring.points());
        let writer = MultiPartShapeWriter::new(&self.bbox, parts_iter, dest);
        writer.write_point_m_shape()?;"""),
    ('m13_nth_does_not_return_to_start', ['C15'], 'src/reader.rs',
     """            self.current_pos = header::HEADER_SIZE as usize;
            Some(result)""",
     """            self.current_pos = header::HEADER_SIZE as usize;
            self.next_shape = index.min(1);
            Some(result)"""),
    ('m14_inner_ring_not_reordered_when_first', ['C16'], 'src/record/polygon.rs',
     """    pub fn new(mut ring: PolygonRing<PointType>) -> Self {
        ring.close_and_reorder();
        Self::with_rings(vec![ring])""",
     """    pub fn new(mut ring: PolygonRing<PointType>) -> Self {
        ring.close_if_not_already_closed();
        Self { bbox: GenericBBox::<PointType>::from_points(ring.points()), rings: vec![ring] }"""),
    ('m15_shapetype_code_30_accepted', ['C19'], 'src/lib.rs',
     """            31 => Some(ShapeType::Multipatch),
            _ => None,""",
     """            31 => Some(ShapeType::Multipatch),
            0x0100_001f => Some(ShapeType::Multipatch),
            _ => None,"""),
    ('m16_index_iteration_skips_seek_when_sizes_equal', ['C14'], 'src/reader.rs',
     """            if *self.current_pos == UNKNOWN_POS || start_pos as u64 != *self.current_pos as u64 {""",
     """            if *self.current_pos == UNKNOWN_POS || (start_pos as u64).abs_diff(*self.current_pos as u64) > 60 {"""),
    ('m17_row_written_for_rejected_shape', ['C10', 'C08'], 'src/writer.rs',
     """        self.shape_writer.write_shape(shape)?;
        self.dbase_writer.write_record(record)?;
        Ok(())""",
     """        let shape_result = self.shape_writer.write_shape(shape);
        self.dbase_writer.write_record(record)?;
        shape_result"""),
    ('m18_typed_read_accepts_polylinem_without_m_as_polyline', ['C06', 'C03'], 'src/record/mod.rs',
     """        if shapetype == Self::shapetype() {
            S::read_shape_content(&mut source, record_size)""",
     """        if shapetype == Self::shapetype()
            || (shapetype == ShapeType::PolylineM && Self::shapetype() == ShapeType::Polyline)
        {
            S::read_shape_content(&mut source, record_size)"""),
]


def main():
    os.makedirs(OUT, exist_ok=True)
    index = []
    for name, props, path, old, new in MUTANTS:
        src = subprocess.run(['git', '-C', '/repo', 'show', 'HEAD:' + path], stdout=subprocess.PIPE, text=True, check=True).stdout
        if src.count(old) != 1:
            print('!! %s: anchor occurs %d times in %s' % (name, src.count(old), path))
            continue
        mutated = src.replace(old, new)
        diff = ''.join(difflib.unified_diff(src.splitlines(True), mutated.splitlines(True), 'a/' + path, 'b/' + path))
        open(os.path.join(OUT, name + '.diff'), 'w').write(diff)
        index.append({'name': name, 'properties': props, 'file': path})
    import json
    json.dump(index, open(os.path.join(OUT, 'index.json'), 'w'), indent=1)
    print('%d mutants written' % len(index))


if __name__ == '__main__':
    main()
