#!/usr/bin/python3
"""Mutation sampling: how many small syntactic changes to the library that still compile and
still pass the pinned test suite do the quick checks report?

One mutant = one token-level change at one site of /repo/src (relational / arithmetic / logical
operator swapped, integer literal +-1, min<->max helper swapped, a `?;` statement deleted, a
`!` dropped, NEG_INFINITY<->INFINITY ...). Each mutant is applied in its own scratch git
worktree of /repo under /scratch (never in /repo), built, run through the repository's unit and
integration tests, and — when those still pass — through the quick checks via VERIF_REPO, cheap
checks first, stopping at the first check that reports a VIOLATION. Worktree, build output and
out/alt-<hash> are removed after every mutant.

usage: selftest/mutation_run.py [--n 120] [--seed 1] [-j 4] [--files writer.rs,reader.rs,...] [--all-checks] [--skip-seen]
output: selftest/mutation/results-<seed>.jsonl (one line per mutant), summary on stdout.
Not part of any registered command.
"""
import hashlib
import json
import os
import random
import re
import shutil
import subprocess
import sys
import time
from concurrent.futures import ThreadPoolExecutor

VERIF = os.path.dirname(os.path.dirname(os.path.abspath(__file__)))
REPO = '/repo'
OUTDIR = os.path.join(VERIF, 'selftest', 'mutation')
# cheap first; the expensive ones (C11, C12, C09, C07/C17) last
ORDER = ['C18', 'C19', 'C16', 'C20', 'C06', 'C05', 'C10', 'C15', 'C14', 'C03', 'C04', 'C02', 'C01', 'C08', 'C13', 'C09', 'C17', 'C07', 'C11', 'C12']

SWAPS = [
    ('rel', r'(?<![<>=!\-])<=(?!=)', '<'), ('rel', r'(?<![<>=!\-&|])\s<\s(?![<=])', ' <= '), ('rel', r'(?<![<>=!\-])>=(?!=)', '>'),
    ('rel', r'(?<![<>=!\-])\s>\s(?![>=])', ' >= '), ('rel', r'==', '!='), ('rel', r'!=', '=='),
    ('arith', r'\s\+\s', ' - '), ('arith', r'\s-\s', ' + '), ('arith', r'\s\*\s', ' / '), ('arith', r'\s/\s', ' * '),
    ('arith', r'\+=', '-='), ('arith', r'-=', '+='),
    ('logic', r'&&', '||'), ('logic', r'\|\|', '&&'),
    ('minmax', r'f64_min', 'f64_max'), ('minmax', r'f64_max', 'f64_min'), ('minmax', r'\.min\(', '.max('), ('minmax', r'\.max\(', '.min('),
    ('const', r'NEG_INFINITY', 'INFINITY'), ('const', r'(?<!NEG_)INFINITY', 'NEG_INFINITY'),
    ('const', r'LittleEndian', 'BigEndian'), ('const', r'BigEndian', 'LittleEndian'),
    ('const', r'SeekFrom::End\(0\)', 'SeekFrom::Start(0)'), ('const', r'SeekFrom::Start\(', 'SeekFrom::Current('),
    ('bool', r'\btrue\b', 'false'), ('bool', r'\bfalse\b', 'true'),
    ('neg', r'(?<=[(\s])!(?=[a-zA-Z_(])', ''),
    ('role', r'PolygonRing::Outer', 'PolygonRing::Inner'), ('role', r'PolygonRing::Inner', 'PolygonRing::Outer'),
    # second operator set: fields, ranges, ends, destinations
    ('field', r'\.x\b(?!\()', '.y'), ('field', r'\.y\b(?!\()', '.x'), ('field', r'\.z\b(?!\()', '.m'), ('field', r'\.m\b(?!\()', '.z'),
    ('field', r'\bmin\.', 'max.'), ('field', r'\bmax\.', 'min.'),
    ('field', r'x_range', 'y_range'), ('field', r'y_range', 'x_range'), ('field', r'z_range', 'm_range'), ('field', r'm_range', 'z_range'),
    ('field', r'x_mut', 'y_mut'), ('field', r'y_mut', 'x_mut'),
    ('range', r'(?<!\.)\.\.(?![.=])', '..='), ('range', r'\.\.=', '..'),
    ('ends', r'\.first\(\)', '.last()'), ('ends', r'\.last\(\)', '.first()'), ('ends', r'\.rev\(\)', ''),
    ('dest', r'shp_dest', 'shx_dest'), ('dest', r'\bshx_dest', 'shp_dest'),
    ('field', r'record_size', 'record_number'), ('field', r'record_number', 'record_size'),
    ('field', r'file_length', 'version'), ('field', r'num_points', 'num_parts'), ('field', r'num_parts', 'num_points'),
    ('ends', r'saturating_sub', 'wrapping_sub'), ('ends', r'saturating_add', 'wrapping_add'),
    ('ends', r'\.skip\(1\)', ''), ('ends', r'\.take\(', '.skip('),
]


def code_lines(path):
    """(line number, text) of lines that are library code: no comments, docs, attributes, test modules."""
    out = []
    depth_test = None
    brace = 0
    pending_test = False
    for i, l in enumerate(open(path).read().split('\n')):
        s = l.strip()
        if s.startswith('#[cfg(test)]'):
            pending_test = True
        opens, closes = l.count('{'), l.count('}')
        if pending_test and 'mod ' in s and '{' in s:
            depth_test = brace
            pending_test = False
        brace += opens - closes
        if depth_test is not None:
            if brace <= depth_test:
                depth_test = None
            continue
        if not s or s.startswith('//') or s.startswith('#[') or s.startswith('#!') or s.startswith('use ') or s.startswith('pub use '):
            continue
        if 'debug_assert' in s or s.startswith('assert') or 'panic!(' in s or 'write!(' in s or 'println!' in s:
            continue
        out.append((i, l))
    return out


def mutants_of(relpath):
    path = os.path.join(REPO, 'src', relpath)
    res = []
    for (i, l) in code_lines(path):
        code = l.split('//')[0]
        for kind, pat, rep in SWAPS:
            for m in re.finditer(pat, code):
                new = code[:m.start()] + rep + code[m.end():] + l[len(code):]
                if new != l:
                    res.append({'file': relpath, 'line': i + 1, 'kind': kind, 'old': l.strip(), 'new': new.strip(), '_new_line': new})
        # integer literals +1 (not in type positions like i32 / f64 / u8, not array sizes of 2-tuples)
        for m in re.finditer(r'(?<![A-Za-z_0-9.])(\d+)(?![A-Za-z_0-9.])', code):
            v = int(m.group(1))
            for nv in ([v + 1] if v == 0 else [v + 1, v - 1]):
                new = code[:m.start()] + str(nv) + code[m.end():] + l[len(code):]
                res.append({'file': relpath, 'line': i + 1, 'kind': 'int', 'old': l.strip(), 'new': new.strip(), '_new_line': new})
        # a statement made of one fallible call: deleted
        if re.match(r'^\s*[a-z_.&A-Z:()\[\] ]*\(.*\)\?;\s*$', code) and 'let ' not in code:
            res.append({'file': relpath, 'line': i + 1, 'kind': 'delete-stmt', 'old': l.strip(), 'new': '', '_new_line': ''})
        if re.match(r'^\s*self\.[a-z_.]+\s*(\+|-)?=\s*.*;\s*$', code):
            res.append({'file': relpath, 'line': i + 1, 'kind': 'delete-assign', 'old': l.strip(), 'new': '', '_new_line': ''})
    return res


def sh(cmd, cwd=None, env=None, timeout=3600):
    try:
        p = subprocess.run(cmd, cwd=cwd, env=env, stdout=subprocess.PIPE, stderr=subprocess.STDOUT, text=True, timeout=timeout)
        return p.returncode, p.stdout
    except subprocess.TimeoutExpired:
        return 124, 'timeout'


def run_one(m, idx, all_checks):
    tag = hashlib.sha1(('%s:%d:%s:%f' % (m['file'], m['line'], m['new'], time.time())).encode()).hexdigest()[:8]
    wt = '/scratch/mut-%s' % tag
    rec = {k: v for k, v in m.items() if not k.startswith('_')}
    rec['index'] = idx
    rc, out = sh(['git', '-C', REPO, 'worktree', 'add', '--detach', '-q', wt, 'HEAD'])
    if rc != 0:
        rec['status'] = 'harness-error'
        return rec
    try:
        p = os.path.join(wt, 'src', m['file'])
        lines = open(p).read().split('\n')
        lines[m['line'] - 1] = m['_new_line']
        open(p, 'w').write('\n'.join(lines))
        env = dict(os.environ, CARGO_NET_OFFLINE='true')
        rc, out = sh(['cargo', 'build', '--offline', '--features', 'geo-types,geo-traits', '--quiet'], cwd=wt, env=env)
        if rc != 0:
            rec['status'] = 'does-not-compile'
            return rec
        rc, out = sh(['cargo', 'test', '--offline', '--lib', '--tests', '--quiet'], cwd=wt, env=env, timeout=900)
        if rc != 0:
            rec['status'] = 'killed-by-pinned-tests' if rc != 124 else 'pinned-tests-timeout'
            return rec
        rec['status'] = 'survives-pinned-tests'
        env = dict(os.environ, VERIF_REPO=wt, VERIF_TIER='quick')
        rec['checks'] = {}
        for pid in ORDER:
            t0 = time.time()
            rc, out = sh([os.path.join(VERIF, 'check'), pid, '--tier', 'quick'], cwd=VERIF, env=env, timeout=3000)
            sigs = [l.strip()[:160] for l in out.splitlines() if l.strip().startswith('signature:')]
            rec['checks'][pid] = {'exit': rc, 'first_signature': sigs[0] if sigs else None, 'wall_s': round(time.time() - t0, 1)}
            if rc == 2:
                rec['checks'][pid]['reason'] = [l for l in out.splitlines() if 'INCONCLUSIVE' in l][:1]
            if rc == 1 and not all_checks:
                break
        caught = [p for p, c in rec['checks'].items() if c['exit'] == 1]
        rec['caught_by'] = caught
        rec['verdict'] = 'caught' if caught else ('inconclusive' if any(c['exit'] not in (0, 1) for c in rec['checks'].values()) else 'not-caught')
        return rec
    finally:
        sh(['git', '-C', REPO, 'worktree', 'remove', '--force', wt])
        h = hashlib.sha1(wt.encode()).hexdigest()[:10]
        shutil.rmtree(os.path.join(VERIF, 'out', 'build', h), ignore_errors=True)
        shutil.rmtree(os.path.join(VERIF, 'out', 'alt-' + h), ignore_errors=True)
        shutil.rmtree(wt, ignore_errors=True)


def main():
    args = sys.argv[1:]
    n, seed, jobs, files, all_checks, skip_seen = 120, 1, 4, None, False, False
    while args:
        a = args.pop(0)
        if a == '--n':
            n = int(args.pop(0))
        elif a == '--seed':
            seed = int(args.pop(0))
        elif a == '-j':
            jobs = int(args.pop(0))
        elif a == '--files':
            files = args.pop(0).split(',')
        elif a == '--all-checks':
            all_checks = True
        elif a == '--skip-seen':
            skip_seen = True      # leave out mutants already in selftest/mutation/results-*.jsonl
    files = files or ['writer.rs', 'reader.rs', 'header.rs', 'lib.rs', 'record/mod.rs', 'record/io.rs', 'record/bbox.rs', 'record/point.rs', 'record/multipoint.rs',
                      'record/polyline.rs', 'record/polygon.rs', 'record/multipatch.rs', 'record/traits.rs', 'geo_traits_impl.rs']
    pool = []
    for f in files:
        pool += mutants_of(f)
    if skip_seen:
        import glob
        seen = set()
        for f in glob.glob(os.path.join(OUTDIR, 'results-*.jsonl')):
            for l in open(f):
                r = json.loads(l)
                seen.add((r['file'], r['line'], r['new']))
        pool = [m for m in pool if (m['file'], m['line'], m['new']) not in seen]
    rnd = random.Random(seed)
    rnd.shuffle(pool)
    # stratified: round-robin over (file, kind) so that no file or operator dominates the sample
    buckets = {}
    for m in pool:
        buckets.setdefault((m['file'], m['kind']), []).append(m)
    keys = sorted(buckets)
    rnd.shuffle(keys)
    sample = []
    while len(sample) < n and any(buckets.values()):
        for k in keys:
            if buckets[k] and len(sample) < n:
                sample.append(buckets[k].pop())
    os.makedirs(OUTDIR, exist_ok=True)
    os.makedirs('/scratch', exist_ok=True)
    outp = os.path.join(OUTDIR, 'results-%d.jsonl' % seed)
    print('%d candidate mutants in %d files, %d sampled (seed %d) -> %s' % (len(pool), len(files), len(sample), seed, outp), flush=True)
    done = []
    with open(outp, 'w') as fh, ThreadPoolExecutor(max_workers=jobs) as ex:
        for rec in ex.map(lambda im: run_one(im[1], im[0], all_checks), enumerate(sample)):
            fh.write(json.dumps(rec) + '\n')
            fh.flush()
            done.append(rec)
            print('%3d %-22s %-13s L%-4d %-26s %s' % (rec['index'], rec['file'], rec['kind'], rec['line'], rec['status'], rec.get('verdict', '') + ' ' + ','.join(rec.get('caught_by', []))), flush=True)
    st = {}
    for r in done:
        k = r['status'] if r['status'] != 'survives-pinned-tests' else 'survivor:' + r['verdict']
        st[k] = st.get(k, 0) + 1
    print(json.dumps(st, indent=1))
    return 0


if __name__ == '__main__':
    sys.exit(main())
