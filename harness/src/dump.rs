//! Canonical dump of a shape through the public accessors only, the expectation function
//! shared by every oracle that compares "the shape read back" with "the shape written", and
//! the field-level diff that names the first difference (used for violation signatures).

use crate::gen::{self, NO_DATA};
use crate::json::J;
use shapefile::*;

/// One vertex: x, y, z, m bit patterns (unused dimensions are 0 and not compared/emitted).
pub type V = [u64; 4];

#[derive(Clone, Debug, PartialEq)]
pub struct D {
    pub ty: i32,
    /// parts / rings / patches (points and multipoints: exactly one part)
    pub parts: Vec<Vec<V>>,
    /// polygons: ring roles (0 = outer, 1 = inner); multipatch: patch kinds 0..5; else empty
    pub kinds: Vec<i32>,
    /// xmin ymin xmax ymax [zmin zmax] [mmin mmax] as stored in the shape's box; empty for points
    pub bbox: Vec<u64>,
}

fn v2(p: &Point) -> V {
    [p.x.to_bits(), p.y.to_bits(), 0, 0]
}
fn vm(p: &PointM) -> V {
    [p.x.to_bits(), p.y.to_bits(), 0, p.m.to_bits()]
}
fn vz(p: &PointZ) -> V {
    [p.x.to_bits(), p.y.to_bits(), p.z.to_bits(), p.m.to_bits()]
}

fn b2(b: &shapefile::record::GenericBBox<Point>) -> Vec<u64> {
    vec![b.min.x.to_bits(), b.min.y.to_bits(), b.max.x.to_bits(), b.max.y.to_bits()]
}
fn bm(b: &shapefile::record::GenericBBox<PointM>) -> Vec<u64> {
    vec![
        b.min.x.to_bits(),
        b.min.y.to_bits(),
        b.max.x.to_bits(),
        b.max.y.to_bits(),
        b.min.m.to_bits(),
        b.max.m.to_bits(),
    ]
}
fn bz(b: &shapefile::record::GenericBBox<PointZ>) -> Vec<u64> {
    vec![
        b.min.x.to_bits(),
        b.min.y.to_bits(),
        b.max.x.to_bits(),
        b.max.y.to_bits(),
        b.min.z.to_bits(),
        b.max.z.to_bits(),
        b.min.m.to_bits(),
        b.max.m.to_bits(),
    ]
}

fn rings<T>(rs: &[PolygonRing<T>], f: fn(&T) -> V) -> (Vec<Vec<V>>, Vec<i32>) {
    let parts = rs.iter().map(|r| r.points().iter().map(f).collect()).collect();
    let kinds = rs
        .iter()
        .map(|r| match r {
            PolygonRing::Outer(_) => 0,
            PolygonRing::Inner(_) => 1,
        })
        .collect();
    (parts, kinds)
}

pub fn patch_kind(p: &Patch) -> i32 {
    match p {
        Patch::TriangleStrip(_) => 0,
        Patch::TriangleFan(_) => 1,
        Patch::OuterRing(_) => 2,
        Patch::InnerRing(_) => 3,
        Patch::FirstRing(_) => 4,
        Patch::Ring(_) => 5,
    }
}

pub trait Dump {
    fn d(&self) -> D;
}

impl Dump for Point {
    fn d(&self) -> D {
        D { ty: 1, parts: vec![vec![v2(self)]], kinds: vec![], bbox: vec![] }
    }
}
impl Dump for PointM {
    fn d(&self) -> D {
        D { ty: 21, parts: vec![vec![vm(self)]], kinds: vec![], bbox: vec![] }
    }
}
impl Dump for PointZ {
    fn d(&self) -> D {
        D { ty: 11, parts: vec![vec![vz(self)]], kinds: vec![], bbox: vec![] }
    }
}
impl Dump for Multipoint {
    fn d(&self) -> D {
        D { ty: 8, parts: vec![self.points().iter().map(v2).collect()], kinds: vec![], bbox: b2(self.bbox()) }
    }
}
impl Dump for MultipointM {
    fn d(&self) -> D {
        D { ty: 28, parts: vec![self.points().iter().map(vm).collect()], kinds: vec![], bbox: bm(self.bbox()) }
    }
}
impl Dump for MultipointZ {
    fn d(&self) -> D {
        D { ty: 18, parts: vec![self.points().iter().map(vz).collect()], kinds: vec![], bbox: bz(self.bbox()) }
    }
}
impl Dump for Polyline {
    fn d(&self) -> D {
        D { ty: 3, parts: self.parts().iter().map(|p| p.iter().map(v2).collect()).collect(), kinds: vec![], bbox: b2(self.bbox()) }
    }
}
impl Dump for PolylineM {
    fn d(&self) -> D {
        D { ty: 23, parts: self.parts().iter().map(|p| p.iter().map(vm).collect()).collect(), kinds: vec![], bbox: bm(self.bbox()) }
    }
}
impl Dump for PolylineZ {
    fn d(&self) -> D {
        D { ty: 13, parts: self.parts().iter().map(|p| p.iter().map(vz).collect()).collect(), kinds: vec![], bbox: bz(self.bbox()) }
    }
}
impl Dump for Polygon {
    fn d(&self) -> D {
        let (parts, kinds) = rings(self.rings(), v2);
        D { ty: 5, parts, kinds, bbox: b2(self.bbox()) }
    }
}
impl Dump for PolygonM {
    fn d(&self) -> D {
        let (parts, kinds) = rings(self.rings(), vm);
        D { ty: 25, parts, kinds, bbox: bm(self.bbox()) }
    }
}
impl Dump for PolygonZ {
    fn d(&self) -> D {
        let (parts, kinds) = rings(self.rings(), vz);
        D { ty: 15, parts, kinds, bbox: bz(self.bbox()) }
    }
}
impl Dump for Multipatch {
    fn d(&self) -> D {
        D {
            ty: 31,
            parts: self.patches().iter().map(|p| p.points().iter().map(vz).collect()).collect(),
            kinds: self.patches().iter().map(patch_kind).collect(),
            bbox: bz(self.bbox()),
        }
    }
}
impl Dump for Shape {
    fn d(&self) -> D {
        match self {
            Shape::NullShape => D { ty: 0, parts: vec![], kinds: vec![], bbox: vec![] },
            Shape::Point(s) => s.d(),
            Shape::PointM(s) => s.d(),
            Shape::PointZ(s) => s.d(),
            Shape::Polyline(s) => s.d(),
            Shape::PolylineM(s) => s.d(),
            Shape::PolylineZ(s) => s.d(),
            Shape::Polygon(s) => s.d(),
            Shape::PolygonM(s) => s.d(),
            Shape::PolygonZ(s) => s.d(),
            Shape::Multipoint(s) => s.d(),
            Shape::MultipointM(s) => s.d(),
            Shape::MultipointZ(s) => s.d(),
            Shape::Multipatch(s) => s.d(),
        }
    }
}

/// The variant a generic `Shape` value is, by the harness's own table (not `shapetype()`).
pub fn variant_code(s: &Shape) -> i32 {
    s.d().ty
}

pub fn norm_measure(bits: u64) -> u64 {
    let v = f64::from_bits(bits);
    if v.is_nan() || v <= NO_DATA {
        NO_DATA.to_bits()
    } else {
        bits
    }
}

impl D {
    /// What a correct read of a written shape must return (C01): multi-vertex types get their
    /// measures normalised (m <= NO_DATA or NaN -> exactly NO_DATA); points keep theirs bit
    /// for bit; everything else, including the stored box, is unchanged.
    pub fn expected_after_roundtrip(&self) -> D {
        let mut e = self.clone();
        if gen::carries_m(self.ty) && !gen::is_point(self.ty) {
            for p in e.parts.iter_mut() {
                for v in p.iter_mut() {
                    v[3] = norm_measure(v[3]);
                }
            }
        }
        e
    }

    pub fn npoints(&self) -> usize {
        self.parts.iter().map(|p| p.len()).sum()
    }

    pub fn dims(&self) -> usize {
        match self.ty {
            1 | 3 | 5 | 8 => 2,
            21 | 23 | 25 | 28 => 3,
            0 => 0,
            _ => 4,
        }
    }

    fn vert(&self, v: &V) -> J {
        let mut a = vec![J::hex(v[0]), J::hex(v[1])];
        if gen::has_z(self.ty) {
            a.push(J::hex(v[2]));
        }
        if gen::carries_m(self.ty) {
            a.push(J::hex(v[3]));
        }
        J::Arr(a)
    }

    /// JSON model of the shape (floats as 16-hex-digit bit patterns); the format shared with
    /// the Python monitors (`monitors/shpref.py` produces/consumes the same layout).
    pub fn to_json(&self) -> J {
        let mut o: Vec<(&str, J)> = vec![("type", J::Int(self.ty as i64))];
        o.push(("parts", J::Arr(self.parts.iter().map(|p| J::Arr(p.iter().map(|v| self.vert(v)).collect())).collect())));
        if gen::is_polygon(self.ty) {
            o.push(("roles", J::Arr(self.kinds.iter().map(|k| J::Int(*k as i64)).collect())));
        }
        if self.ty == 31 {
            o.push(("kinds", J::Arr(self.kinds.iter().map(|k| J::Int(*k as i64)).collect())));
        }
        if !self.bbox.is_empty() {
            o.push(("box", J::Arr(self.bbox[..4].iter().map(|b| J::hex(*b)).collect())));
            let (zr, mr) = match self.bbox.len() {
                8 => (Some(&self.bbox[4..6]), Some(&self.bbox[6..8])),
                6 => (None, Some(&self.bbox[4..6])),
                _ => (None, None),
            };
            o.push(("zr", zr.map(|r| J::Arr(r.iter().map(|b| J::hex(*b)).collect())).unwrap_or(J::Null)));
            o.push(("mr", mr.map(|r| J::Arr(r.iter().map(|b| J::hex(*b)).collect())).unwrap_or(J::Null)));
        }
        J::obj(o)
    }

    /// Structural class for evidence: type, part-length multiset, which special classes occur.
    pub fn class_key(&self) -> String {
        let mut lens: Vec<usize> = self.parts.iter().map(|p| p.len()).collect();
        lens.sort();
        let mut sp = std::collections::BTreeSet::new();
        for p in &self.parts {
            for v in p {
                for (i, b) in v.iter().enumerate() {
                    if i >= 2 && !(gen::has_z(self.ty) && i == 2 || gen::carries_m(self.ty) && i == 3) {
                        continue;
                    }
                    sp.insert(float_class(f64::from_bits(*b)));
                }
            }
        }
        format!("{}:{:?}:{:?}", self.ty, lens, sp)
    }

    pub fn has_special(&self) -> bool {
        self.parts.iter().flatten().any(|v| v.iter().any(|b| float_class(f64::from_bits(*b)) != "n"))
    }
}

pub fn float_class(v: f64) -> &'static str {
    if v.is_nan() {
        "nan"
    } else if v == f64::INFINITY {
        "+inf"
    } else if v == f64::NEG_INFINITY {
        "-inf"
    } else if v == 0.0 {
        if v.is_sign_negative() {
            "-0"
        } else {
            "0"
        }
    } else if v.abs() < f64::MIN_POSITIVE {
        "sub"
    } else if v.abs() >= 1e300 {
        "huge"
    } else if v <= NO_DATA {
        "nodata"
    } else {
        "n"
    }
}

/// First difference between an observed dump and the expected one, as a field name.
/// Ring roles (`kinds` of polygon types) are NOT compared here: see `role_mismatches`.
pub fn first_diff(got: &D, want: &D) -> Option<String> {
    if got.ty != want.ty {
        return Some(format!("type({}!={})", got.ty, want.ty));
    }
    if got.parts.len() != want.parts.len() {
        return Some("nparts".into());
    }
    for (i, (a, b)) in got.parts.iter().zip(&want.parts).enumerate() {
        if a.len() != b.len() {
            return Some(format!("partlen[{}]", i.min(2)));
        }
    }
    if got.ty == 31 && got.kinds != want.kinds {
        return Some("patch-kind".into());
    }
    let names = ["x", "y", "z", "m"];
    for (a, b) in got.parts.iter().zip(&want.parts) {
        for (va, vb) in a.iter().zip(b) {
            for k in 0..4 {
                if va[k] != vb[k] {
                    return Some(names[k].to_string());
                }
            }
        }
    }
    if got.bbox != want.bbox {
        let names = ["xmin", "ymin", "xmax", "ymax"];
        for (i, (a, b)) in got.bbox.iter().zip(&want.bbox).enumerate() {
            if a != b {
                let n = if i < 4 {
                    names[i].to_string()
                } else if got.bbox.len() == 6 {
                    ["mmin", "mmax"][i - 4].to_string()
                } else {
                    ["zmin", "zmax", "mmin", "mmax"][i - 4].to_string()
                };
                return Some(format!("box.{}", n));
            }
        }
        return Some("box.len".into());
    }
    None
}

/// Indices of polygon rings whose role differs between observed and expected.
pub fn role_mismatches(got: &D, want: &D) -> Vec<usize> {
    if !gen::is_polygon(got.ty) || got.kinds.len() != want.kinds.len() {
        return vec![];
    }
    (0..got.kinds.len()).filter(|&i| got.kinds[i] != want.kinds[i]).collect()
}

/// Exact doubled signed "shoelace" sum  S = sum (x2-x1)(y2+y1)  of a ring whose coordinates
/// are all multiples of 2^-10 with |v| < 2^22 (this covers the exact pool, the integer grid
/// and the wider dyadic pool): scaled by 2^20 the sum is an integer far below 2^127.
/// Returns None if any coordinate is outside. S > 0: clockwise, S < 0: counter-clockwise
/// (the convention of the property). NOTE: this is exact integer arithmetic of the harness;
/// whether the library's *f64* evaluation is exact too is a property of the pool (see
/// `gen::exact`), tested by `in_exact_pool`.
pub fn exact_area2_dyadic(ring: &[V]) -> Option<i128> {
    let mut ints: Vec<(i128, i128)> = Vec::with_capacity(ring.len());
    for v in ring {
        let (x, y) = (f64::from_bits(v[0]), f64::from_bits(v[1]));
        let sx = x * 1024.0;
        let sy = y * 1024.0;
        if !(sx.is_finite() && sy.is_finite()) || sx.fract() != 0.0 || sy.fract() != 0.0 || sx.abs() > 8.0e12 || sy.abs() > 8.0e12 {
            return None;
        }
        ints.push((sx as i128, sy as i128));
    }
    let mut s: i128 = 0;
    for w in ints.windows(2) {
        s += (w[1].0 - w[0].0) * (w[1].1 + w[0].1);
    }
    Some(s)
}

/// Whether the library's f64 evaluation of the shoelace sum  sum (x2-x1)*(y2+y1)  (left to
/// right) is EXACT for this ring, decided from the ring itself: all coordinates are multiples
/// of 2^-10, and every difference, every sum, every product and every partial sum is an
/// integer multiple of 2^-20 of magnitude below 2^53 * 2^-20 — hence representable, so no
/// IEEE operation rounds. (Conservative: rings outside are simply not judged.) The sign of the
/// exact area is then what the library must find.
pub fn in_exact_pool(ring: &[V]) -> bool {
    let mut ints: Vec<(i128, i128)> = Vec::with_capacity(ring.len());
    for v in ring {
        let (sx, sy) = (f64::from_bits(v[0]) * 1024.0, f64::from_bits(v[1]) * 1024.0);
        if !(sx.is_finite() && sy.is_finite()) || sx.fract() != 0.0 || sy.fract() != 0.0 || sx.abs() > 8.0e12 || sy.abs() > 8.0e12 {
            return false;
        }
        ints.push((sx as i128, sy as i128));
    }
    const LIM: i128 = 1 << 53;
    let mut sum: i128 = 0;
    for w in ints.windows(2) {
        let dx = w[1].0 - w[0].0;
        let sy = w[1].1 + w[0].1;
        // dx and sy are multiples of 2^-10: representable if below 2^53 units of 2^-10
        let t = dx * sy;
        sum += t;
        if dx.abs() >= LIM || sy.abs() >= LIM || t.abs() >= LIM || sum.abs() >= LIM {
            return false;
        }
    }
    true
}

pub fn ring_json(ring: &[V]) -> J {
    J::Arr(ring.iter().map(|v| J::Arr(vec![J::hex(v[0]), J::hex(v[1])])).collect())
}


/// Every public accessor of a shape must describe the same vertices as the dump (which is
/// built from `points()` / `parts()` / `rings()` / `patches()`): indexed accessors, `Index`
/// impls, counts, `into_inner`, `AsRef`. Returns the name of the first accessor that disagrees.
pub fn accessor_disagreement(s: &Shape) -> Option<String> {
    // comparisons go through the bit-level dump of sub-slices so that NaN measures compare equal
    macro_rules! multipoint {
        ($m:expr, $f:expr) => {{
            let m = $m;
            let pts = m.points();
            for i in 0..pts.len() {
                match m.point(i) {
                    Some(p) if $f(p) == $f(&pts[i]) && $f(&m[i]) == $f(&pts[i]) => {}
                    _ => return Some(format!("point({})/Index", i.min(2))),
                }
            }
            if m.point(pts.len()).is_some() {
                return Some("point(len)".into());
            }
            let inner = m.clone().into_inner();
            if inner.len() != pts.len() || inner.iter().zip(pts).any(|(a, b)| $f(a) != $f(b)) {
                return Some("into_inner".into());
            }
            let v: Vec<_> = m.clone().into();
            if v.len() != pts.len() {
                return Some("Into<Vec>".into());
            }
        }};
    }
    macro_rules! polyline {
        ($m:expr, $f:expr) => {{
            let m = $m;
            let parts = m.parts();
            let mut total = 0;
            for i in 0..parts.len() {
                total += parts[i].len();
                match m.part(i) {
                    Some(p) if p.len() == parts[i].len() && p.iter().zip(&parts[i]).all(|(a, b)| $f(a) == $f(b)) => {}
                    _ => return Some(format!("part({})", i.min(2))),
                }
            }
            if m.part(parts.len()).is_some() {
                return Some("part(len)".into());
            }
            if m.total_point_count() != total {
                return Some("total_point_count".into());
            }
            let inner = m.clone().into_inner();
            if inner.len() != parts.len() || inner.iter().zip(parts).any(|(a, b)| a.len() != b.len() || a.iter().zip(b).any(|(x, y)| $f(x) != $f(y))) {
                return Some("into_inner".into());
            }
        }};
    }
    macro_rules! polygon {
        ($m:expr, $f:expr) => {{
            let m = $m;
            let rings = m.rings();
            let mut total = 0;
            for i in 0..rings.len() {
                let pts = rings[i].points();
                total += pts.len();
                let r = match m.ring(i) {
                    Some(r) => r,
                    None => return Some(format!("ring({})", i.min(2))),
                };
                let same_role = matches!((r, &rings[i]), (PolygonRing::Outer(_), PolygonRing::Outer(_)) | (PolygonRing::Inner(_), PolygonRing::Inner(_)));
                if !same_role || r.len() != pts.len() || r.is_empty() != pts.is_empty() || r.points().iter().zip(pts).any(|(a, b)| $f(a) != $f(b)) {
                    return Some(format!("ring({})", i.min(2)));
                }
                let as_ref: &[_] = rings[i].as_ref();
                if as_ref.len() != pts.len() {
                    return Some("PolygonRing::as_ref".into());
                }
                for k in 0..pts.len() {
                    if $f(&rings[i][k]) != $f(&pts[k]) {
                        return Some("PolygonRing::Index".into());
                    }
                }
                let inner = rings[i].clone().into_inner();
                if inner.len() != pts.len() || inner.iter().zip(pts).any(|(a, b)| $f(a) != $f(b)) {
                    return Some("PolygonRing::into_inner".into());
                }
            }
            if m.ring(rings.len()).is_some() {
                return Some("ring(len)".into());
            }
            if m.total_point_count() != total {
                return Some("total_point_count".into());
            }
            if m.clone().into_inner().len() != rings.len() {
                return Some("into_inner".into());
            }
        }};
    }
    match s {
        Shape::NullShape | Shape::Point(_) | Shape::PointM(_) | Shape::PointZ(_) => {}
        Shape::Multipoint(m) => multipoint!(m, v2),
        Shape::MultipointM(m) => multipoint!(m, vm),
        Shape::MultipointZ(m) => multipoint!(m, vz),
        Shape::Polyline(m) => polyline!(m, v2),
        Shape::PolylineM(m) => polyline!(m, vm),
        Shape::PolylineZ(m) => polyline!(m, vz),
        Shape::Polygon(m) => polygon!(m, v2),
        Shape::PolygonM(m) => polygon!(m, vm),
        Shape::PolygonZ(m) => polygon!(m, vz),
        Shape::Multipatch(m) => {
            let patches = m.patches();
            let mut total = 0;
            for i in 0..patches.len() {
                let pts = patches[i].points();
                total += pts.len();
                match m.patch(i) {
                    Some(p) if patch_kind(p) == patch_kind(&patches[i]) && p.points().len() == pts.len() && p.points().iter().zip(pts).all(|(a, b)| vz(a) == vz(b)) => {}
                    _ => return Some(format!("patch({})", i.min(2))),
                }
                let as_ref: &[PointZ] = patches[i].as_ref();
                if as_ref.len() != pts.len() {
                    return Some("Patch::as_ref".into());
                }
            }
            if m.patch(patches.len()).is_some() {
                return Some("patch(len)".into());
            }
            if m.total_point_count() != total {
                return Some("total_point_count".into());
            }
            if m.clone().into_inner().len() != patches.len() {
                return Some("into_inner".into());
            }
        }
    }
    None
}
