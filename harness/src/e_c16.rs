//! C16 — polygon and multipatch constructors close and orient rings, losing no vertex.
//!
//! Oracle: exact integer shoelace over the exact pool; `close(input)` = input + one copy of
//! its first vertex iff first != last (numeric equality of all fields).

use crate::dump::{exact_area2_dyadic, in_exact_pool, Dump, D, V};
use crate::gen::{self, type_name, Cfg, Pool};
use crate::json::J;
use crate::panicmon;
use crate::report::{par, Ctx, Report};
use crate::rng::{tag, Rng};
use crate::shapes::build_from_parts as build;
use shapefile::*;

fn veq(a: &V, b: &V, dims: usize) -> bool {
    // numeric equality (so -0 == +0), field by field; dims: 2 = xy, 3 = xym, 4 = xyzm
    let f = |i: usize| f64::from_bits(a[i]) == f64::from_bits(b[i]);
    match dims {
        2 => f(0) && f(1),
        3 => f(0) && f(1) && f(3),
        _ => f(0) && f(1) && f(2) && f(3),
    }
}

fn close(input: &[V], dims: usize) -> Vec<V> {
    let mut v = input.to_vec();
    if let (Some(f), Some(l)) = (input.first(), input.last()) {
        if !veq(f, l, dims) {
            v.push(*f);
        }
    }
    v
}

fn gen_vertex(r: &mut Rng, c: &Cfg) -> V {
    [gen::coord(r, c, false).to_bits(), gen::coord(r, c, false).to_bits(), gen::coord(r, c, true).to_bits(), gen::coord(r, c, true).to_bits()]
}

/// A ring input: 1..max_len vertices; shape classes steered at the degenerate cases.
fn gen_ring(r: &mut Rng, c: &Cfg, dims: usize) -> Vec<V> {
    let n = r.usize_in(1, c.max_len.max(1));
    let mut v: Vec<V> = (0..n).map(|_| gen_vertex(r, c)).collect();
    match r.below(10) {
        0 => {
            // collinear
            for (i, p) in v.iter_mut().enumerate() {
                p[0] = (i as f64).to_bits();
                p[1] = (2.0 * i as f64).to_bits();
            }
        }
        1 => {
            // repeated vertex
            if n >= 2 {
                v[n - 1] = v[0];
                if n >= 3 {
                    v[1] = v[0];
                }
            }
        }
        2 => {
            // figure-eight (zero total area): (0,0) (1,1) (1,0) (0,1)
            let pts = [(0.0, 0.0), (1.0, 1.0), (1.0, 0.0), (0.0, 1.0)];
            for (i, p) in v.iter_mut().enumerate().take(4) {
                p[0] = f64::to_bits(pts[i % 4].0);
                p[1] = f64::to_bits(pts[i % 4].1);
            }
        }
        3 => {
            // first and last differ only in Z or M (must still be closed by a copy when dims say so)
            if n >= 2 {
                let mut l = v[0];
                // a value that really differs (x + 1 is absorbed by huge and no-data values:
                // -1e39 becomes -2e39, an infinity or NaN becomes 0)
                // (one time in five the two vertices differ only in the SIGN of a zero measure / Z: those
                //  are equal, the ring counts as closed)
                let differ = |x: f64| -> f64 {
                    let y = x + 1.0;
                    if !y.is_nan() && y.to_bits() != x.to_bits() {
                        y
                    } else if x.is_nan() || x.is_infinite() {
                        0.0
                    } else {
                        x * 2.0
                    }
                };
                if r.chance(0.2) {
                    // first and last differ only in the SIGN of a zero measure (or Z): they are equal,
                    // the ring already counts as closed
                    let k = if dims == 4 && r.chance(0.5) { 2 } else { 3 };
                    v[0][k] = 0.0f64.to_bits();
                    l = v[0];
                    l[k] = (-0.0f64).to_bits();
                } else if dims == 4 && r.chance(0.5) {
                    l[2] = f64::to_bits(differ(f64::from_bits(l[2])));
                } else {
                    l[3] = f64::to_bits(differ(f64::from_bits(l[3])));
                }
                v[n - 1] = l;
            }
        }
        4 => {
            // first and last differ only by the sign of zero
            if n >= 2 {
                v[0][0] = 0f64.to_bits();
                let mut l = v[0];
                l[0] = (-0f64).to_bits();
                v[n - 1] = l;
            }
        }
        _ => {}
    }
    if r.chance(0.4) {
        let f = v[0];
        v.push(f); // already closed
    }
    v
}

fn check_polygon(ty: i32, input: &[(i32, Vec<V>)], out: &D, exact_pool: bool, scale: i32, case: &str, rep: &mut Report, rebuilt: Option<&D>) {
    let dims = out.dims();
    let tname = type_name(ty);
    let detail = |what: &str, i: usize| {
        J::obj(vec![
            ("what", J::s(what)),
            ("ring", J::UInt(i as u64)),
            ("input", J::Arr(input.iter().map(|(k, v)| J::obj(vec![("role", J::Int(*k as i64)), ("pts", J::Arr(v.iter().map(|p| J::Arr(p.iter().map(|b| J::hex(*b)).collect())).collect()))])).collect())),
            ("output", out.to_json()),
        ])
    };
    if out.parts.len() != input.len() {
        rep.violation(&format!("vertices/{}", tname), case, detail("ring count changed", 0));
        return;
    }
    let mut all_nonzero = true;
    for (i, (role, inp)) in input.iter().enumerate() {
        let got = &out.parts[i];
        let want = close(inp, dims);
        let mut rev = want.clone();
        rev.reverse();
        let same = |a: &Vec<V>, b: &Vec<V>| a.len() == b.len() && a.iter().zip(b).all(|(x, y)| (0..4).all(|k| x[k] == y[k] || (k == 2 && dims < 4) || (k == 3 && dims < 3)));
        let kept = same(got, &want);
        let reversed = same(got, &rev);
        if !kept && !reversed {
            rep.violation(&format!("vertices/{}", tname), case, detail("output ring is neither close(input) nor its reversal", i));
            continue;
        }
        if reversed && !kept {
            rep.count("rings_reversed", 1);
        }
        if want.len() > inp.len() {
            rep.count("rings_closed_by_constructor", 1);
        }
        if out.kinds[i] != *role {
            rep.violation(&format!("role/{}", tname), case, detail("declared role tag changed", i));
        }
        match (got.first(), got.last()) {
            (Some(f), Some(l)) if veq(f, l, dims) => {}
            _ => rep.violation(&format!("closed/{}", tname), case, detail("first != last", i)),
        }
        // rings of the exact pool may have been scaled by 2^scale as a whole (exact in f64, no
        // under/overflow for |scale| <= 480): judge the unscaled ring, the sign is the same
        let unscaled: Vec<V> = if scale == 0 {
            got.clone()
        } else {
            let f = 2f64.powi(-scale);
            got.iter().map(|v| [(f64::from_bits(v[0]) * f).to_bits(), (f64::from_bits(v[1]) * f).to_bits(), v[2], v[3]]).collect()
        };
        if exact_pool && in_exact_pool(&unscaled) {
            let s = exact_area2_dyadic(&unscaled).expect("harness: exact pool ring not dyadic");
            if scale != 0 {
                rep.count("rings_judged_at_a_nonzero_binary_scale", 1);
            }
            if s != 0 {
                rep.count("rings_nonzero_exact_area", 1);
            } else {
                rep.count("rings_zero_exact_area", 1);
                all_nonzero = false;
            }
            let ok = if *role == 0 { s >= 0 } else { s <= 0 };
            if !ok {
                rep.violation(&format!("orientation/{}", tname), case, detail(if *role == 0 { "outer ring is counter-clockwise (exact area < 0)" } else { "inner ring is clockwise (exact area > 0)" }, i));
            }
        } else {
            all_nonzero = false;
        }
    }
    if let Some(rb) = rebuilt {
        if all_nonzero {
            rep.count("idempotence_checked", 1);
            if rb != out {
                rep.violation(&format!("idempotence/{}", tname), case, detail("rebuilding from its own rings changed the polygon", 0));
            }
        }
    }
}

fn check_multipatch(input: &[(i32, Vec<V>)], out: &D, case: &str, rep: &mut Report) {
    let detail = |what: &str, i: usize| {
        J::obj(vec![
            ("what", J::s(what)),
            ("patch", J::UInt(i as u64)),
            ("input", J::Arr(input.iter().map(|(k, v)| J::obj(vec![("kind", J::Int(*k as i64)), ("pts", J::Arr(v.iter().map(|p| J::Arr(p.iter().map(|b| J::hex(*b)).collect())).collect()))])).collect())),
            ("output", out.to_json()),
        ])
    };
    if out.parts.len() != input.len() {
        rep.violation("patch/Multipatch", case, detail("patch count changed", 0));
        return;
    }
    for (i, (kind, inp)) in input.iter().enumerate() {
        let got = &out.parts[i];
        if out.kinds[i] != *kind {
            rep.violation("patch/Multipatch", case, detail("patch kind changed", i));
        }
        if *kind <= 1 {
            rep.count("strips_fans_checked", 1);
            if got != inp {
                rep.violation("patch/Multipatch", case, detail("triangle strip/fan was modified", i));
            }
        } else {
            let want = close(inp, 4);
            if want.len() > inp.len() {
                rep.count("ring_patches_closed_by_constructor", 1);
            }
            if *got != want {
                rep.violation("patch/Multipatch", case, detail("ring patch != close(input)", i));
            }
            match (got.first(), got.last()) {
                (Some(f), Some(l)) if veq(f, l, 4) => {}
                _ => rep.violation("closed/Multipatch", case, detail("ring patch first != last", i)),
            }
        }
    }
}

fn macro_instances(rep: &mut Report, ctx: &Ctx) {
    // compiled-in macro instances against the equivalent constructor calls
    let case = "c16:macros";
    if !ctx.want(case) {
        return;
    }
    rep.eval();
    let a = shapefile::polygon! {
        Outer((0.0, 0.0), (1.0, 0.0), (1.0, 1.0), (0.0, 1.0)),
        Inner((0.25, 0.25), (0.25, 0.75), (0.75, 0.75), (0.75, 0.25), (0.25, 0.25))
    };
    let b = Polygon::with_rings(vec![
        PolygonRing::Outer(vec![Point::new(0.0, 0.0), Point::new(1.0, 0.0), Point::new(1.0, 1.0), Point::new(0.0, 1.0)]),
        PolygonRing::Inner(vec![Point::new(0.25, 0.25), Point::new(0.25, 0.75), Point::new(0.75, 0.75), Point::new(0.75, 0.25), Point::new(0.25, 0.25)]),
    ]);
    if a.d() != b.d() {
        rep.violation("vertices/Polygon", case, J::s("polygon! differs from with_rings"));
    }
    let input = vec![
        (0, vec![[0f64.to_bits(), 0f64.to_bits(), 0, 0], [1f64.to_bits(), 0f64.to_bits(), 0, 0], [1f64.to_bits(), 1f64.to_bits(), 0, 0], [0f64.to_bits(), 1f64.to_bits(), 0, 0]]),
        (1, vec![[0.25f64.to_bits(), 0.25f64.to_bits(), 0, 0], [0.25f64.to_bits(), 0.75f64.to_bits(), 0, 0], [0.75f64.to_bits(), 0.75f64.to_bits(), 0, 0], [0.75f64.to_bits(), 0.25f64.to_bits(), 0, 0], [0.25f64.to_bits(), 0.25f64.to_bits(), 0, 0]]),
    ];
    check_polygon(5, &input, &a.d(), true, 0, case, rep, None);

    let am = shapefile::polygon! {
        Inner((0.0, 0.0, 1.0), (0.0, 2.0, 2.0), (2.0, 2.0, 3.0), (2.0, 0.0, 4.0)),
    };
    let bm = PolygonM::with_rings(vec![PolygonRing::Inner(vec![PointM::new(0.0, 0.0, 1.0), PointM::new(0.0, 2.0, 2.0), PointM::new(2.0, 2.0, 3.0), PointM::new(2.0, 0.0, 4.0)])]);
    if am.d() != bm.d() {
        rep.violation("vertices/PolygonM", case, J::s("polygon! (M) differs from with_rings"));
    }
    let az = shapefile::polygon! {
        Outer((0.0, 0.0, 5.0, 1.0), (2.0, 0.0, 6.0, 2.0), (2.0, 2.0, 7.0, 3.0), (0.0, 2.0, 8.0, 4.0)),
    };
    let bz = PolygonZ::with_rings(vec![PolygonRing::Outer(vec![PointZ::new(0.0, 0.0, 5.0, 1.0), PointZ::new(2.0, 0.0, 6.0, 2.0), PointZ::new(2.0, 2.0, 7.0, 3.0), PointZ::new(0.0, 2.0, 8.0, 4.0)])]);
    if az.d() != bz.d() {
        rep.violation("vertices/PolygonZ", case, J::s("polygon! (Z) differs from with_rings"));
    }
    let inz = vec![(0, vec![
        [0f64.to_bits(), 0f64.to_bits(), 5f64.to_bits(), 1f64.to_bits()],
        [2f64.to_bits(), 0f64.to_bits(), 6f64.to_bits(), 2f64.to_bits()],
        [2f64.to_bits(), 2f64.to_bits(), 7f64.to_bits(), 3f64.to_bits()],
        [0f64.to_bits(), 2f64.to_bits(), 8f64.to_bits(), 4f64.to_bits()],
    ])];
    check_polygon(15, &inz, &az.d(), true, 0, case, rep, None);

    let mpa = shapefile::multipatch!(
        TriangleStrip((0.0, 0.0, 0.0, 1.0), (1.0, 0.0, 0.0, 2.0), (0.0, 1.0, 0.0, 3.0)),
        OuterRing((0.0, 0.0, 0.0, 1.0), (1.0, 0.0, 0.0, 2.0), (0.0, 1.0, 0.0, 3.0))
    );
    let minput = vec![
        (0, vec![[0f64.to_bits(), 0f64.to_bits(), 0f64.to_bits(), 1f64.to_bits()], [1f64.to_bits(), 0f64.to_bits(), 0f64.to_bits(), 2f64.to_bits()], [0f64.to_bits(), 1f64.to_bits(), 0f64.to_bits(), 3f64.to_bits()]]),
        (2, vec![[0f64.to_bits(), 0f64.to_bits(), 0f64.to_bits(), 1f64.to_bits()], [1f64.to_bits(), 0f64.to_bits(), 0f64.to_bits(), 2f64.to_bits()], [0f64.to_bits(), 1f64.to_bits(), 0f64.to_bits(), 3f64.to_bits()]]),
    ];
    check_multipatch(&minput, &mpa.d(), case, rep);
    rep.count("macro_instances", 5);

    // ---- the geo-types constructors close and orient like the ring constructors: a counter-clockwise
    //      exterior and a clockwise hole (geo-types' own convention is the opposite of ESRI's)
    {
        use geo_types as g;
        let c = |x: f64, y: f64| g::Coord { x, y };
        let ext_ccw = vec![c(0.0, 0.0), c(8.0, 0.0), c(8.0, 8.0), c(0.0, 8.0), c(0.0, 0.0)];
        let hole_cw = vec![c(2.0, 2.0), c(2.0, 4.0), c(4.0, 4.0), c(4.0, 2.0), c(2.0, 2.0)];
        let gp = g::Polygon::new(g::LineString(ext_ccw.clone()), vec![g::LineString(hole_cw.clone())]);
        let want = Polygon::with_rings(vec![
            PolygonRing::Outer(ext_ccw.iter().map(|k| Point::new(k.x, k.y)).collect()),
            PolygonRing::Inner(hole_cw.iter().map(|k| Point::new(k.x, k.y)).collect()),
        ])
        .d();
        let mut cmpg = |name: &str, a: D| {
            rep.count("geo_types_constructor_instances", 1);
            if a != want {
                rep.violation(&format!("geo-constructor/{}", name), case, J::obj(vec![("built", a.to_json()), ("with_rings", want.to_json())]));
            }
        };
        cmpg("Polygon::from(geo Polygon)", Polygon::from(gp.clone()).d());
        cmpg("Polygon::from(geo MultiPolygon)", Polygon::from(g::MultiPolygon(vec![gp.clone()])).d());
        // open rings on the geo side are closed by geo-types itself; an open exterior handed over as it is
        let open = g::Polygon::new(g::LineString(ext_ccw[..4].to_vec()), vec![g::LineString(hole_cw[..4].to_vec())]);
        cmpg("Polygon::from(geo Polygon, rings given open)", Polygon::from(open).d());
    }
    // ---- every other arm of the four macros (field syntax and tuple syntax, 2-D / M / Z), with
    //      pairwise different values per field, against the plain constructors
    let mut cmp = |name: &str, a: D, b: D| {
        rep.count("macro_instances", 1);
        if a != b {
            rep.violation(&format!("macro/{}", name), case, J::obj(vec![("macro", a.to_json()), ("constructor", b.to_json())]));
        }
    };
    let pz = |k: f64| PointZ::new(k, k + 100.0, k + 200.0, k + 300.0);
    let pm = |k: f64| PointM::new(k, k + 100.0, k + 300.0);
    let p2 = |k: f64| Point::new(k, k + 100.0);
    cmp(
        "multipatch!{fields}",
        shapefile::multipatch!(TriangleFan({x: 1.0, y: 101.0, z: 201.0, m: 301.0}, {x: 2.0, y: 102.0, z: 202.0, m: 302.0}, {x: 3.0, y: 103.0, z: 203.0, m: 303.0})).d(),
        Multipatch::new(Patch::TriangleFan(vec![pz(1.0), pz(2.0), pz(3.0)])).d(),
    );
    cmp(
        "polygon!{fields}",
        shapefile::polygon!(Outer({x: 0.0, y: 0.0}, {x: 0.0, y: 3.0}, {x: 4.0, y: 3.0}, {x: 4.0, y: 0.0})).d(),
        Polygon::new(PolygonRing::Outer(vec![Point::new(0.0, 0.0), Point::new(0.0, 3.0), Point::new(4.0, 3.0), Point::new(4.0, 0.0)])).d(),
    );
    cmp(
        "polygon!{fields,M}",
        shapefile::polygon!(Outer({x: 0.0, y: 0.0, m: 7.0}, {x: 0.0, y: 3.0, m: 8.0}, {x: 4.0, y: 3.0, m: 9.0}, {x: 4.0, y: 0.0, m: 10.0})).d(),
        PolygonM::new(PolygonRing::Outer(vec![PointM::new(0.0, 0.0, 7.0), PointM::new(0.0, 3.0, 8.0), PointM::new(4.0, 3.0, 9.0), PointM::new(4.0, 0.0, 10.0)])).d(),
    );
    cmp(
        "polygon!{fields,Z}",
        shapefile::polygon!(Outer({x: 0.0, y: 0.0, z: 20.0, m: 7.0}, {x: 0.0, y: 3.0, z: 21.0, m: 8.0}, {x: 4.0, y: 3.0, z: 22.0, m: 9.0}, {x: 4.0, y: 0.0, z: 23.0, m: 10.0})).d(),
        PolygonZ::new(PolygonRing::Outer(vec![PointZ::new(0.0, 0.0, 20.0, 7.0), PointZ::new(0.0, 3.0, 21.0, 8.0), PointZ::new(4.0, 3.0, 22.0, 9.0), PointZ::new(4.0, 0.0, 23.0, 10.0)])).d(),
    );
    cmp("polyline![fields]", shapefile::polyline!([{x: 1.0, y: 101.0}, {x: 2.0, y: 102.0}], [{x: 3.0, y: 103.0}, {x: 4.0, y: 104.0}, {x: 5.0, y: 105.0}]).d(), Polyline::with_parts(vec![vec![p2(1.0), p2(2.0)], vec![p2(3.0), p2(4.0), p2(5.0)]]).d());
    cmp("polyline![tuples]", shapefile::polyline!([(1.0, 101.0), (2.0, 102.0)], [(3.0, 103.0), (4.0, 104.0), (5.0, 105.0)]).d(), Polyline::with_parts(vec![vec![p2(1.0), p2(2.0)], vec![p2(3.0), p2(4.0), p2(5.0)]]).d());
    cmp("polyline![fields,M]", shapefile::polyline!([{x: 1.0, y: 101.0, m: 301.0}, {x: 2.0, y: 102.0, m: 302.0}]).d(), PolylineM::new(vec![pm(1.0), pm(2.0)]).d());
    cmp("polyline![tuples,M]", shapefile::polyline!([(1.0, 101.0, 301.0), (2.0, 102.0, 302.0)]).d(), PolylineM::new(vec![pm(1.0), pm(2.0)]).d());
    cmp("polyline![fields,Z]", shapefile::polyline!([{x: 1.0, y: 101.0, z: 201.0, m: 301.0}, {x: 2.0, y: 102.0, z: 202.0, m: 302.0}]).d(), PolylineZ::new(vec![pz(1.0), pz(2.0)]).d());
    cmp("polyline![tuples,Z]", shapefile::polyline!([(1.0, 101.0, 201.0, 301.0), (2.0, 102.0, 202.0, 302.0)]).d(), PolylineZ::new(vec![pz(1.0), pz(2.0)]).d());
    cmp("multipoint!{fields}", shapefile::multipoint!({x: 1.0, y: 101.0}, {x: 2.0, y: 102.0}).d(), Multipoint::new(vec![p2(1.0), p2(2.0)]).d());
    cmp("multipoint!(tuples)", shapefile::multipoint!((1.0, 101.0), (2.0, 102.0)).d(), Multipoint::new(vec![p2(1.0), p2(2.0)]).d());
    cmp("multipoint!{fields,M}", shapefile::multipoint!({x: 1.0, y: 101.0, m: 301.0}, {x: 2.0, y: 102.0, m: 302.0}).d(), MultipointM::new(vec![pm(1.0), pm(2.0)]).d());
    cmp("multipoint!(tuples,M)", shapefile::multipoint!((1.0, 101.0, 301.0), (2.0, 102.0, 302.0)).d(), MultipointM::new(vec![pm(1.0), pm(2.0)]).d());
    cmp("multipoint!{fields,Z}", shapefile::multipoint!({x: 1.0, y: 101.0, z: 201.0, m: 301.0}, {x: 2.0, y: 102.0, z: 202.0, m: 302.0}).d(), MultipointZ::new(vec![pz(1.0), pz(2.0)]).d());
    cmp("multipoint!(tuples,Z)", shapefile::multipoint!((1.0, 101.0, 201.0, 301.0), (2.0, 102.0, 202.0, 302.0)).d(), MultipointZ::new(vec![pz(1.0), pz(2.0)]).d());
}

pub fn run(ctx: &Ctx) -> Report {
    let n = if cfg!(miri) { 6 } else { ctx.pick(20_000, 600_000) };
    let types = [5, 25, 15, 31];
    let seed = ctx.seed;
    let mut rep = par(ctx, types.len() * n, |idx, rep| {
        let ty = types[idx / n];
        let i = idx % n;
        let case = format!("c16:t{}:i{}", ty, i);
        if !ctx.want(&case) {
            return;
        }
        let mut r = Rng::derive(seed, &[tag("c16"), ty as u64, i as u64]);
        // three pool regimes: exact pool (orientation asserted), grid (degenerate), special non-NaN doubles
        let regime = i % 4;
        let c = Cfg {
            pool: match regime {
                0 | 1 => Pool::Exact,
                2 => Pool::Grid,
                _ => Pool::Mixed,
            },
            dens: if regime == 3 { 0.5 } else { 0.0 },
            allow_inf: true,
            nan_zm: false,
            max_parts: 6,
            max_len: 12,
        };
        let dims = match ty {
            5 => 2,
            25 => 3,
            _ => 4,
        };
        // amounts: every 97th case has 33..70 rings / patches, every 50th one ring of 33..200 vertices
        let many_rings = i % 97 == 23 && !cfg!(miri);
        let big_ring = i % 50 == 17 && !cfg!(miri);
        let nr = if many_rings { r.usize_in(33, 70) } else { r.usize_in(1, c.max_parts) };
        let mut input: Vec<(i32, Vec<V>)> = (0..nr)
            .map(|_| {
                let k = if ty == 31 { r.below(6) as i32 } else { r.below(2) as i32 };
                (k, gen_ring(&mut r, &c, dims))
            })
            .collect();
        if big_ring {
            let which = r.usize_in(0, input.len() - 1);
            let l = if i % 100 == 17 { r.usize_in(201, 700) } else { r.usize_in(33, 200) };
            input[which].1 = (0..l).map(|_| gen_vertex(&mut r, &c)).collect();
            rep.count("cases_with_a_ring_of_33_to_700_vertices", 1);
        }
        if many_rings {
            rep.count("cases_with_33_to_70_rings", 1);
        }
        // exact-pool regime 1, every fifth case: UTM-like coordinates (large common offset, 1/1024
        // grid, small rings)
        if regime == 1 && i % 5 == 1 {
            let origin = ((r.below(900_000) + 100_000) as f64, (r.below(9_000_000) + 1_000_000) as f64);
            for (_, ring) in input.iter_mut() {
                let closed = ring.len() >= 2 && ring[0][0] == ring[ring.len() - 1][0] && ring[0][1] == ring[ring.len() - 1][1];
                for v in ring.iter_mut() {
                    v[0] = gen::utm_like(&mut r, origin, 0).to_bits();
                    v[1] = gen::utm_like(&mut r, origin, 1).to_bits();
                }
                if closed {
                    let f = ring[0];
                    let n = ring.len();
                    ring[n - 1][0] = f[0];
                    ring[n - 1][1] = f[1];
                }
            }
            rep.count("utm_like_cases", 1);
        }
        // the exact-pool regimes: every third case scaled as a whole by 2^s (tiny and huge rings
        // whose f64 shoelace arithmetic is still exact)
        let scale: i32 = if regime <= 1 && i % 3 == 2 && !(regime == 1 && i % 5 == 1) { r.below(961) as i32 - 480 } else { 0 };
        let input: Vec<(i32, Vec<V>)> = if scale == 0 {
            input
        } else {
            let f = 2f64.powi(scale);
            input.into_iter().map(|(k, v)| (k, v.into_iter().map(|p| [(f64::from_bits(p[0]) * f).to_bits(), (f64::from_bits(p[1]) * f).to_bits(), p[2], p[3]]).collect())).collect()
        };
        let use_new = r.chance(0.5);
        rep.eval();
        rep.class(&format!("{}:{}", type_name(ty), ["exact-pool", "exact-pool", "grid", "special-doubles"][regime]));
        let built = panicmon::catch(|| build(ty, &input, use_new));
        let shape = match built {
            Ok(s) => s,
            Err(p) => {
                rep.violation(&format!("panic/{}", type_name(ty)), &case, J::s(p.class()));
                return;
            }
        };
        let out = shape.d();
        if let Some(which) = crate::dump::accessor_disagreement(&shape) {
            rep.violation(&format!("accessors/{}/{}", type_name(ty), which), &case, J::obj(vec![("shape", out.to_json())]));
        }
        rep.nontrivial(&format!("{}:{:?}:{}", ty, input.iter().map(|(k, v)| (*k, v.len())).collect::<Vec<_>>(), regime));
        if ty == 31 {
            check_multipatch(&input, &out, &case, rep);
        } else {
            // rebuild from its own rings
            let own: Vec<(i32, Vec<V>)> = out.kinds.iter().cloned().zip(out.parts.iter().cloned()).collect();
            let rebuilt = build(ty, &own, false).d();
            check_polygon(ty, &input, &out, regime != 3, scale, &case, rep, Some(&rebuilt));
        }
        rep.sample(|| J::obj(vec![("case", J::s(case.clone())), ("constructor", J::s(if use_new && input.len() == 1 { "new" } else { "with_rings/with_parts" })), ("rings_in", J::UInt(input.len() as u64)), ("output", out.to_json())]));
    });
    macro_instances(&mut rep, ctx);
    if ctx.only.is_none() {
        let nz = rep.counters.get("rings_nonzero_exact_area").copied().unwrap_or(0);
        rep.guard("rings with non-zero exact area judged", nz, if cfg!(miri) { 1 } else { 1000 });
        let rv = rep.counters.get("rings_reversed").copied().unwrap_or(0);
        rep.guard("reversals observed", rv, if cfg!(miri) { 1 } else { 100 });
        let cl = rep.counters.get("rings_closed_by_constructor").copied().unwrap_or(0);
        rep.guard("closures observed", cl, if cfg!(miri) { 1 } else { 100 });
    }
    rep
}
