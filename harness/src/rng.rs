//! Deterministic PRNG (SplitMix64). Every case derives its own generator from
//! (run seed, engine tag, case indices), so any single case replays alone.

#[derive(Clone)]
pub struct Rng(u64);

fn mix(mut z: u64) -> u64 {
    z = (z ^ (z >> 30)).wrapping_mul(0xBF58_476D_1CE4_E5B9);
    z = (z ^ (z >> 27)).wrapping_mul(0x94D0_49BB_1331_11EB);
    z ^ (z >> 31)
}

impl Rng {
    pub fn new(seed: u64) -> Rng {
        Rng(mix(seed ^ 0x5DEE_CE66_D1CE_CAFE))
    }

    /// Generator for one case: independent of how many other cases ran before it.
    pub fn derive(seed: u64, tags: &[u64]) -> Rng {
        let mut s = mix(seed.wrapping_add(0x9E37_79B9_7F4A_7C15));
        for &t in tags {
            s = mix(s ^ mix(t.wrapping_add(0xA076_1D64_78BD_642F)));
        }
        Rng(s)
    }

    pub fn next(&mut self) -> u64 {
        self.0 = self.0.wrapping_add(0x9E37_79B9_7F4A_7C15);
        mix(self.0)
    }

    /// Uniform in 0..n (n > 0).
    pub fn below(&mut self, n: u64) -> u64 {
        self.next() % n
    }

    pub fn usize_in(&mut self, lo: usize, hi: usize) -> usize {
        lo + self.below((hi - lo + 1) as u64) as usize
    }

    pub fn unit(&mut self) -> f64 {
        (self.next() >> 11) as f64 / (1u64 << 53) as f64
    }

    pub fn chance(&mut self, p: f64) -> bool {
        self.unit() < p
    }

    pub fn pick<'a, T>(&mut self, v: &'a [T]) -> &'a T {
        &v[self.below(v.len() as u64) as usize]
    }

    pub fn shuffle<T>(&mut self, v: &mut [T]) {
        for i in (1..v.len()).rev() {
            let j = self.below(i as u64 + 1) as usize;
            v.swap(i, j);
        }
    }
}

pub fn tag(s: &str) -> u64 {
    // FNV-1a, only used to turn engine names into stream tags
    let mut h = 0xcbf2_9ce4_8422_2325u64;
    for b in s.bytes() {
        h ^= b as u64;
        h = h.wrapping_mul(0x1_0000_0001_b3);
    }
    h
}
