//! C07 — reading arbitrary bytes never panics, overflows or runs forever.
//! C17 — memory requested while reading is proportional to the input size.
//!
//! One engine, two monitors over the same hostile inputs: the panic/termination monitor
//! (catch_unwind + panic hook + logical item bound) and the allocation monitor (counting
//! global allocator, one window per reader call). The parent process splits the case space
//! over child processes; a child records the index of the case it is about to execute, so a
//! process abort (failed giant allocation, stack overflow) or a hang is attributed to the
//! in-flight case and the batch restarts after it.

use crate::allocmon;
use crate::gen::{self, Cfg, TYPES};
use crate::json::J;
use crate::panicmon;
use crate::rawshp;
use crate::report::{Ctx, Report};
use crate::rng::{tag, Rng};
use crate::shapes::write_all_mem;
use shapefile::*;
use std::io::Cursor;
use std::io::{Seek, SeekFrom, Write};

// ------------------------------------------------------------------------------ base files

pub struct Base {
    pub t: i32,
    pub shp: Vec<u8>,
    pub shx: Vec<u8>,
    /// offsets (in the .shp) of the count/length fields, for the pair mutations
    pub key_fields: Vec<(usize, bool)>,
}

pub fn base_files(seed: u64, per_type: usize) -> Vec<Base> {
    let mut out = vec![];
    for &t in &TYPES {
        for k in 0..per_type {
            let mut r = Rng::derive(seed, &[tag("c07-base"), t as u64, k as u64]);
            let c = Cfg::plain(3, 3);
            let n = 1 + k % 3;
            let shapes: Vec<Shape> = (0..n).map(|_| gen::shape(t, &mut r, &c)).collect();
            let (shp, shx) = write_all_mem(&shapes, true).expect("harness: base file");
            // (offset, stored big-endian)
            let mut key_fields = vec![(24usize, true), (32, false)];
            for rec in rawshp::walk(&shp) {
                key_fields.push((rec.off, true)); // record number
                key_fields.push((rec.off + 4, true)); // content length
                key_fields.push((rec.off + 8, false)); // type code
                if !gen::is_point(t) {
                    key_fields.push((rec.off + 12 + 32, false)); // part count (or point count for multipoints)
                    if !gen::is_multipoint(t) {
                        key_fields.push((rec.off + 12 + 36, false)); // point count
                        key_fields.push((rec.off + 12 + 40, false)); // first part offset
                    }
                }
            }
            out.push(Base { t, shp, shx, key_fields });
        }
    }
    out
}

const VALUES: [i32; 28] = [
    0,
    1,
    -1,
    2,
    -2,
    3,
    7,
    1 << 20,
    1 << 27,
    1 << 28,
    (1 << 28) + 3,
    1 << 30,
    (1 << 30) + 1,
    i32::MIN,
    i32::MIN + 1,
    i32::MAX,
    i32::MAX - 1,
    0x7fff_ff00,
    100_000,
    0x4000_0004u32 as i32,
    0x1000_0002,
    -(1 << 28),
    // values whose doubling overflows or lands on i32::MIN, on both sides
    -(1 << 30),
    -(1 << 30) - 1,
    -(1 << 30) + 1,
    (1 << 30) - 1,
    -(1 << 29),
    i32::MIN + 2,
];

// ------------------------------------------------------------------------------ the case space

/// One hostile input.
pub struct Input {
    pub shp: Vec<u8>,
    pub shx: Option<Vec<u8>>,
    pub desc: String,
    pub class: &'static str,
}

fn put(buf: &mut [u8], off: usize, v: i32, be: bool) {
    let b = if be { v.to_be_bytes() } else { v.to_le_bytes() };
    buf[off..off + 4].copy_from_slice(&b);
}

/// A polyline/multipoint-like record whose declared counts and record length agree with each
/// other (modulo 2^32 where they cannot otherwise) but whose data is missing: class (e).
fn unbacked(t: i32, k: u32, wrap: bool) -> Vec<u8> {
    let npts: i64 = 1i64 << k;
    let nparts: i64 = 1;
    let body: i64 = match t {
        8 => 32 + 4 + 16 * npts,
        28 => 32 + 4 + 16 * npts + 16 + 8 * npts,
        18 => 32 + 4 + 16 * npts + 2 * (16 + 8 * npts),
        3 | 5 => 32 + 8 + 4 * nparts + 16 * npts,
        23 | 25 => 32 + 8 + 4 * nparts + 16 * npts + 16 + 8 * npts,
        13 | 15 => 32 + 8 + 4 * nparts + 16 * npts + 2 * (16 + 8 * npts),
        _ => 32 + 8 + 8 * nparts + 16 * npts + 2 * (16 + 8 * npts),
    };
    let content = 4 + body; // with the type code
    let words: i64 = if wrap { ((content as u64 & 0xffff_ffff) / 2) as i64 } else { content / 2 };
    let words_i32 = words as u32 as i32;
    let mut f = vec![0u8; 100];
    put(&mut f, 0, 9994, true);
    put(&mut f, 28, 1000, false);
    put(&mut f, 32, t, false);
    f.extend_from_slice(&1i32.to_be_bytes());
    f.extend_from_slice(&words_i32.to_be_bytes());
    f.extend_from_slice(&t.to_le_bytes());
    f.extend_from_slice(&[0u8; 32]);
    if !gen::is_multipoint(t) {
        f.extend_from_slice(&(nparts as i32).to_le_bytes());
    }
    f.extend_from_slice(&(npts as u32 as i32).to_le_bytes());
    if !gen::is_multipoint(t) {
        f.extend_from_slice(&0i32.to_le_bytes());
        if t == 31 {
            f.extend_from_slice(&2i32.to_le_bytes());
        }
    }
    f.extend_from_slice(&[0u8; 24]); // a little data, far less than declared
    let total = ((f.len() as i64 + 0) / 2).min(i32::MAX as i64) as i32;
    // header length: either the real size or the size the record claims
    let claimed = (100 + 8 + content).min(2 * i32::MAX as i64) / 2;
    put(&mut f, 24, if wrap { total } else { claimed as i32 }, true);
    f
}

/// Class (f): like `unbacked`, but `real` points (or part offsets / index entries) ARE present
/// before the data runs out. The amounts straddle powers of two, where pre-allocation caps
/// and growth policies change behaviour, so "reserve the declared count once N elements
/// were really read" cannot hide behind a small first allocation.
fn partially_backed(t: i32, k: u32, real: usize, what: u8) -> Vec<u8> {
    let mut f = unbacked(t, k, false);
    f.truncate(f.len() - 24);
    match what {
        0 => {
            // real points behind a declared count of 2^k
            for i in 0..real {
                f.extend_from_slice(&(i as f64).to_le_bytes());
                f.extend_from_slice(&(1.0f64).to_le_bytes());
            }
        }
        _ => {
            // many declared parts, `real` part offsets present (all zero = empty parts)
            if !gen::is_multipoint(t) {
                let parts_at = 100 + 8 + 4 + 32;
                put(&mut f, parts_at, 1i32 << k.min(30), false);
                f.truncate(parts_at + 8);
                for _ in 0..real {
                    f.extend_from_slice(&0i32.to_le_bytes());
                }
            }
        }
    }
    f
}

/// An index with `real` entries present while its header declares 2^k.
fn partially_backed_index(k: u32, real: usize, entry: (i32, i32)) -> Vec<u8> {
    let mut f = unbacked_index(k);
    f.truncate(100);
    for _ in 0..real {
        f.extend_from_slice(&entry.0.to_be_bytes());
        f.extend_from_slice(&entry.1.to_be_bytes());
    }
    f
}

/// A record declaring 2^k points but no part that contains any of them (zero parts, or part
/// offsets equal to the point count), with a record length that matches the declared counts
/// including the M block (mod 2^32), followed by 64 bytes: enough for the Z and M ranges.
fn zero_parts_record(t: i32, k: u32, variant: u8) -> Vec<u8> {
    let npts: i64 = 1i64 << k;
    let nparts: i64 = variant as i64;
    let per_point: i64 = match t {
        3 | 5 => 16,
        23 | 25 => 24,
        _ => 32,
    };
    let ranges: i64 = match t {
        3 | 5 => 0,
        23 | 25 => 16,
        _ => 32,
    };
    let kinds: i64 = if t == 31 { 4 * nparts } else { 0 };
    let content: i64 = 4 + 32 + 8 + 4 * nparts + kinds + per_point * npts + ranges;
    let words = ((content as u64 & 0xffff_ffff) / 2) as u32 as i32;
    let mut f = vec![0u8; 100];
    put(&mut f, 0, 9994, true);
    put(&mut f, 28, 1000, false);
    put(&mut f, 32, t, false);
    f.extend_from_slice(&1i32.to_be_bytes());
    f.extend_from_slice(&words.to_be_bytes());
    f.extend_from_slice(&t.to_le_bytes());
    f.extend_from_slice(&[0u8; 32]);
    f.extend_from_slice(&(nparts as i32).to_le_bytes());
    f.extend_from_slice(&(npts as u32 as i32).to_le_bytes());
    for _ in 0..nparts {
        f.extend_from_slice(&(npts as u32 as i32).to_le_bytes());
    }
    for _ in 0..nparts {
        if t == 31 {
            f.extend_from_slice(&2i32.to_le_bytes());
        }
    }
    f.extend_from_slice(&[0u8; 64]);
    f
}

/// Like `zero_parts_record`, but with ONE part whose offset is `j` points before the declared
/// count: the XY of those j points, and the ranges, are really present.
fn late_first_part_record(t: i32, k: u32, j: i64) -> Vec<u8> {
    let mut f = zero_parts_record(t, k, 1);
    let npts: i64 = 1i64 << k;
    let parts_at = 100 + 8 + 4 + 32 + 8;
    put(&mut f, parts_at, (npts - j) as u32 as i32, false);
    let xy_at = parts_at + 4 + if t == 31 { 4 } else { 0 };
    // j real points, then 64 bytes for the ranges (and a few Z values)
    f.truncate(xy_at);
    for i in 0..j {
        f.extend_from_slice(&(i as f64).to_le_bytes());
        f.extend_from_slice(&(2.0f64).to_le_bytes());
    }
    f.extend_from_slice(&[0u8; 64]);
    f
}

/// Class (g): a record whose parts array is REAL and long (`nparts` entries, part i starting at
/// i * per_part) while none of the declared nparts * per_part points is present; counts, part
/// offsets and the record length are mutually consistent. Whatever is reserved per part before
/// the points are read adds up over the parts.
fn many_parts_record(t: i32, nparts: usize, per_part: usize) -> Vec<u8> {
    let npts: i64 = (nparts * per_part) as i64;
    let per_point: i64 = match t {
        3 | 5 => 16,
        23 | 25 => 24,
        _ => 32,
    };
    let ranges: i64 = match t {
        3 | 5 => 0,
        23 | 25 => 16,
        _ => 32,
    };
    let kinds: i64 = if t == 31 { 4 * nparts as i64 } else { 0 };
    let content: i64 = 4 + 32 + 8 + 4 * nparts as i64 + kinds + per_point * npts + ranges;
    let mut f = vec![0u8; 100];
    put(&mut f, 0, 9994, true);
    put(&mut f, 28, 1000, false);
    put(&mut f, 32, t, false);
    put(&mut f, 24, ((100 + 8 + content) / 2).min(i32::MAX as i64) as i32, true);
    f.extend_from_slice(&1i32.to_be_bytes());
    f.extend_from_slice(&((content / 2).min(i32::MAX as i64) as i32).to_be_bytes());
    f.extend_from_slice(&t.to_le_bytes());
    f.extend_from_slice(&[0u8; 32]);
    f.extend_from_slice(&(nparts as i32).to_le_bytes());
    f.extend_from_slice(&(npts as i32).to_le_bytes());
    for i in 0..nparts {
        f.extend_from_slice(&((i * per_part) as i32).to_le_bytes());
    }
    if t == 31 {
        for _ in 0..nparts {
            f.extend_from_slice(&2i32.to_le_bytes());
        }
    }
    f.extend_from_slice(&[0u8; 16]);
    f
}

/// An index file declaring 2^k entries with nothing behind them.
/// A valid one-record Point file and an index holding `k` times the same entry (one that cannot
/// address a record), optionally followed by the entry of the real record: class (i).
fn useless_entries(k: usize, entry: (i32, i32), good_last: bool) -> (Vec<u8>, Vec<u8>) {
    let mut shp = vec![0u8; 100];
    put(&mut shp, 0, 9994, true);
    put(&mut shp, 24, 64, true);
    put(&mut shp, 28, 1000, false);
    put(&mut shp, 32, 1, false);
    shp.extend_from_slice(&1i32.to_be_bytes());
    shp.extend_from_slice(&10i32.to_be_bytes());
    shp.extend_from_slice(&1i32.to_le_bytes());
    shp.extend_from_slice(&1.5f64.to_le_bytes());
    shp.extend_from_slice(&2.5f64.to_le_bytes());
    let mut shx = shp[..100].to_vec();
    let n = k + good_last as usize;
    put(&mut shx, 24, (50 + 4 * n as i64).min(i32::MAX as i64) as i32, true);
    shx.reserve(8 * n);
    for _ in 0..k {
        shx.extend_from_slice(&entry.0.to_be_bytes());
        shx.extend_from_slice(&entry.1.to_be_bytes());
    }
    if good_last {
        shx.extend_from_slice(&50i32.to_be_bytes());
        shx.extend_from_slice(&10i32.to_be_bytes());
    }
    (shp, shx)
}

fn unbacked_index(k: u32) -> Vec<u8> {
    let mut f = vec![0u8; 100];
    put(&mut f, 0, 9994, true);
    put(&mut f, 28, 1000, false);
    put(&mut f, 32, 1, false);
    let words: i64 = 50 + 4 * (1i64 << k);
    put(&mut f, 24, words.min(i32::MAX as i64) as i32, true);
    f.extend_from_slice(&[0u8; 16]);
    f
}

/// Enumerates the case space in a fixed order, calling `f(index, make_input)` for the
/// indices selected by `want`. Returns the total number of cases.
pub fn enumerate(bases: &[Base], ctx: &Ctx, want: &dyn Fn(u64) -> bool, f: &mut dyn FnMut(u64, Input)) -> u64 {
    let mut idx: u64 = 0;
    let thorough = ctx.thorough;
    macro_rules! case {
        ($make:expr) => {{
            if want(idx) {
                f(idx, $make);
            }
            idx += 1;
        }};
    }
    // (a) every aligned 32-bit word of .shp / .shx x boundary values x both byte orders
    for (bi, b) in bases.iter().enumerate() {
        for target in 0..2 {
            let src = if target == 0 { &b.shp } else { &b.shx };
            for off in (0..src.len().saturating_sub(3)).step_by(4) {
                for &v in &VALUES {
                    for be in [true, false] {
                        for with_shx in [false, true] {
                            if target == 1 && !with_shx {
                                continue;
                            }
                            case!({
                                let mut m = src.clone();
                                put(&mut m, off, v, be);
                                let (shp, shx) = if target == 0 { (m, if with_shx { Some(b.shx.clone()) } else { None }) } else { (b.shp.clone(), Some(m)) };
                                Input { shp, shx, desc: format!("base{} t{} {}[{}]={} {} shx={}", bi, b.t, if target == 0 { "shp" } else { "shx" }, off, v, if be { "BE" } else { "LE" }, with_shx), class: "a:field-boundary-value" }
                            });
                        }
                    }
                }
            }
        }
    }
    // (a') wrap values: point/part counts shifted by k*2^28 / k*2^30 so that i32 size arithmetic
    //      wraps back to the declared record length
    for (bi, b) in bases.iter().enumerate() {
        for &(off, be) in &b.key_fields {
            if off + 4 > b.shp.len() || off < 100 {
                continue;
            }
            let cur = if be { rawshp::be32(&b.shp, off).unwrap() } else { rawshp::le32(&b.shp, off).unwrap() };
            for k in [1i64, 2, 4, 7, 8, 12, 15] {
                for shift in [28u32, 29, 30, 31] {
                    for with_shx in [false, true] {
                        case!({
                            let mut m = b.shp.clone();
                            let v = (cur as i64).wrapping_add(k << shift) as u32 as i32;
                            put(&mut m, off, v, be);
                            Input { shp: m, shx: if with_shx { Some(b.shx.clone()) } else { None }, desc: format!("base{} t{} shp[{}]={}+{}*2^{} shx={}", bi, b.t, off, cur, k, shift, with_shx), class: "a:wrap-value" }
                        });
                    }
                }
            }
        }
    }
    // (a'') quick: the record type code together with the record content length / the header
    //       type (e.g. a NullShape record with a negative length); thorough: all pairs below
    if !thorough {
        // (small negative lengths move a reader that trusts them BACKWARDS: -4 words is exactly one record header)
        let pv: [i32; 12] = [0, -1, 2, i32::MIN, -(1 << 30), i32::MAX, 1 << 30, -2, -4, -6, -8, 1];
        for (bi, b) in bases.iter().enumerate() {
            let recs = rawshp::walk(&b.shp);
            for rec in recs.iter() {
                for &tc in &gen::ALL_CODES {
                    for &v in &pv {
                        for with_shx in [false, true] {
                            case!({
                                let mut m = b.shp.clone();
                                put(&mut m, rec.off + 8, tc, false);
                                put(&mut m, rec.off + 4, v, true);
                                Input { shp: m, shx: if with_shx { Some(b.shx.clone()) } else { None }, desc: format!("base{} t{} record@{}: type code={} & content length={} shx={}", bi, b.t, rec.off, tc, v, with_shx), class: "a:type-code+length-pair" }
                            });
                        }
                    }
                }
            }
        }
    }
    if thorough {
        let pv: [i32; 8] = [0, -1, 1, i32::MAX, i32::MIN, 1 << 28, 1 << 30, 0x1000_0002];
        for (bi, b) in bases.iter().enumerate() {
            for (i, &(o1, be1)) in b.key_fields.iter().enumerate() {
                for &(o2, be2) in &b.key_fields[i + 1..] {
                    for &v1 in &pv {
                        for &v2 in &pv {
                            for with_shx in [false, true] {
                                case!({
                                    let mut m = b.shp.clone();
                                    put(&mut m, o1, v1, be1);
                                    put(&mut m, o2, v2, be2);
                                    Input { shp: m, shx: if with_shx { Some(b.shx.clone()) } else { None }, desc: format!("base{} t{} shp[{}]={} & shp[{}]={} shx={}", bi, b.t, o1, v1, o2, v2, with_shx), class: "a:field-pair" }
                                });
                            }
                        }
                    }
                }
            }
        }
    }
    // (b) truncation at every length, extension by 1..64 bytes
    for (bi, b) in bases.iter().enumerate() {
        for l in 0..b.shp.len() {
            for with_shx in [false, true] {
                case!(Input { shp: b.shp[..l].to_vec(), shx: if with_shx { Some(b.shx.clone()) } else { None }, desc: format!("base{} t{} shp truncated to {} shx={}", bi, b.t, l, with_shx), class: "b:truncation" });
            }
        }
        for l in 0..b.shx.len() {
            case!(Input { shp: b.shp.clone(), shx: Some(b.shx[..l].to_vec()), desc: format!("base{} t{} shx truncated to {}", bi, b.t, l), class: "b:truncation" });
        }
        for e in 1..=64usize {
            for fill in [0u8, 0xff, 0x5a] {
                case!({
                    let mut m = b.shp.clone();
                    m.extend(std::iter::repeat(fill).take(e));
                    // both with the header still declaring the old length and with it covering the extension
                    if fill == 0x5a {
                        let w = (m.len() / 2) as i32;
                        put(&mut m, 24, w, true);
                    }
                    Input { shp: m, shx: if e % 2 == 0 { Some(b.shx.clone()) } else { None }, desc: format!("base{} t{} shp extended by {} x {:#x}", bi, b.t, e, fill), class: "b:extension" }
                });
            }
        }
    }
    // (c) random bit flips, (d) random bytes behind a valid file code
    let n_flip: u64 = if cfg!(miri) { 4 } else if thorough { 3_000_000 } else { 100_000 };
    for (bi, b) in bases.iter().enumerate() {
        for k in 0..n_flip / bases.len() as u64 + 1 {
            case!({
                let mut r = Rng::derive(ctx.seed, &[tag("c07-flip"), bi as u64, k]);
                let mut shp = b.shp.clone();
                let mut shx = b.shx.clone();
                for _ in 0..r.usize_in(1, 6) {
                    if r.chance(0.8) {
                        let i = r.usize_in(0, shp.len() - 1);
                        shp[i] ^= 1 << r.below(8);
                    } else {
                        let i = r.usize_in(0, shx.len() - 1);
                        shx[i] ^= 1 << r.below(8);
                    }
                }
                Input { shp, shx: if r.chance(0.5) { Some(shx) } else { None }, desc: format!("base{} t{} bit flips #{}", bi, b.t, k), class: "c:bit-flips" }
            });
        }
    }
    let n_rand: u64 = if cfg!(miri) { 4 } else if thorough { 2_000_000 } else { 100_000 };
    for k in 0..n_rand {
        case!({
            let mut r = Rng::derive(ctx.seed, &[tag("c07-rand"), k]);
            let len = r.usize_in(0, 400);
            let mut shp = vec![0u8; 4 + len];
            put(&mut shp, 0, 9994, true);
            for x in shp.iter_mut().skip(4) {
                *x = if r.chance(0.3) { 0 } else { r.next() as u8 };
            }
            // often a plausible header: small length, valid type
            if r.chance(0.7) && shp.len() >= 100 {
                put(&mut shp, 24, (r.below(400) as i32) - 20, true);
                put(&mut shp, 28, 1000, false);
                put(&mut shp, 32, *r.pick(&gen::ALL_CODES), false);
                for i in 4..24 {
                    shp[i] = 0;
                }
            }
            let shx = if r.chance(0.4) {
                let l = r.usize_in(0, 160);
                let mut x = vec![0u8; 4 + l];
                put(&mut x, 0, 9994, true);
                for y in x.iter_mut().skip(4) {
                    *y = if r.chance(0.5) { 0 } else { r.next() as u8 };
                }
                if x.len() >= 100 && r.chance(0.7) {
                    put(&mut x, 24, (r.below(120) as i32) - 10, true);
                    put(&mut x, 32, 1, false);
                }
                Some(x)
            } else {
                None
            };
            Input { shp, shx, desc: format!("random bytes behind the file code #{}", k), class: "d:random-bytes" }
        });
    }
    // (e) consistent-but-unbacked counts
    for &t in &[3, 5, 13, 15, 23, 25, 8, 18, 28, 31] {
        for k in 4..=31u32 {
            for wrap in [false, true] {
                for with_idx in [false, true] {
                    case!({
                        let shp = unbacked(t, k, wrap);
                        let shx = if with_idx {
                            let mut x = vec![0u8; 100];
                            x[..100].copy_from_slice(&shp[..100]);
                            put(&mut x, 24, 54, true);
                            x.extend_from_slice(&50i32.to_be_bytes());
                            x.extend_from_slice(&shp[104..108]);
                            Some(x)
                        } else {
                            None
                        };
                        Input { shp, shx, desc: format!("t{} declares 2^{} points, lengths {} (no data behind) idx={}", t, k, if wrap { "wrapped" } else { "consistent" }, with_idx), class: "e:consistent-but-unbacked" }
                    });
                }
            }
        }
    }
    for k in 4..=31u32 {
        case!({
            let b = &bases[0];
            Input { shp: b.shp.clone(), shx: Some(unbacked_index(k)), desc: format!("index header declares 2^{} entries", k), class: "e:consistent-but-unbacked" }
        });
    }
    // (e') the same with ZERO parts (or all part offsets equal to the point count): no XY data is
    //      due, so the reader gets as far as the Z / M ranges, which are present, before data runs out
    for &t in &[3, 5, 13, 15, 23, 25, 31] {
        for k in [10u32, 16, 20, 24, 26, 28, 30] {
            for variant in 0..6u8 {
                for followed in [false, true] {
                    case!({
                        let mut f = if variant < 3 { zero_parts_record(t, k, variant) } else { late_first_part_record(t, k, (variant - 2) as i64) };
                        if followed {
                            // a small valid record after the hostile one
                            f.extend_from_slice(&bases[0].shp[100..]);
                        }
                        let w = (f.len() / 2) as i32;
                        put(&mut f, 24, w, true);
                        Input { shp: f, shx: None, desc: format!("t{} declares 2^{} points in {}, ranges present", t, k, ["zero parts", "one part (offset = point count)", "two parts (offsets = point count)", "one part starting 1 point before the count", "one part starting 2 points before the count", "one part starting 3 points before the count"][variant as usize]), class: "e:consistent-but-unbacked" }
                    });
                }
            }
        }
    }
    // (f) partially backed counts: real data up to amounts around powers of two, then nothing
    let reals: Vec<usize> = if cfg!(miri) {
        vec![3]
    } else {
        let mut v = vec![];
        for j in 8..=if thorough { 15 } else { 13 } {
            v.extend_from_slice(&[(1usize << j) - 1, 1 << j, (1 << j) + 1]);
        }
        v.push(5000);
        v
    };
    for &t in &[3, 15, 23, 8, 18, 28, 31] {
        for &real in &reals {
            for k in [14u32, 17, 20, 22, 24, 27, 28, 30] {
                if (1usize << k) <= real {
                    continue;
                }
                for what in [0u8, 1] {
                    case!({
                        Input { shp: partially_backed(t, k, real, what), shx: None, desc: format!("t{} declares 2^{} {}, {} really present", t, k, if what == 0 { "points" } else { "parts" }, real), class: "f:partially-backed-counts" }
                    });
                }
            }
        }
    }
    for &real in &reals {
        for k in [14u32, 18, 22, 26, 28] {
            if (1usize << k) <= real {
                continue;
            }
            case!({
                let b = &bases[0];
                Input { shp: b.shp.clone(), shx: Some(partially_backed_index(k, real, (50, 10))), desc: format!("index header declares 2^{} entries, {} really present", k, real), class: "f:partially-backed-counts" }
            });
        }
    }
    // (g) a long, real parts array in front of points that are not there
    if !cfg!(miri) {
        let counts: &[usize] = if thorough { &[300, 2000, 20000] } else { &[300, 2000] };
        for &t in &[3, 5, 13, 15, 23, 25, 31] {
            for &nparts in counts {
                for &per_part in &[1usize, 1024, 1025, 5000] {
                    if nparts * per_part > 60_000_000 {
                        continue;
                    }
                    case!({
                        Input { shp: many_parts_record(t, nparts, per_part), shx: None, desc: format!("t{} declares {} parts of {} points each, the parts array is present, no point is", t, nparts, per_part), class: "g:many-parts-no-points" }
                    });
                }
            }
        }
        // (h) VALID files with large amounts: one part beyond 1024 / 4096 vertices, thousands of
        //     two-vertex parts; nothing is forged, every stage of the decoder sees the amount
        for &t in &[3, 5, 8, 13, 15, 18, 23, 25, 28, 31] {
            let mut shapes: Vec<(usize, usize)> = vec![(1, 1025), (1, 4097)];
            if !gen::is_multipoint(t) {
                shapes.push((3000, 2));
                shapes.push((257, 9));
            }
            if thorough {
                shapes.push((1, 65_537));
            }
            for (parts, len) in shapes {
                for with_shx in [false, true] {
                    case!({
                        let mut r = crate::rng::Rng::new(t as u64 * 7919 + parts as u64 * 31 + len as u64);
                        let small = Cfg::plain(1, 2);
                        let big = gen::shape_exact(t, &mut r, &small, parts, len);
                        let v = vec![gen::shape(t, &mut r, &small), big, gen::shape(t, &mut r, &small)];
                        let (shp, shx) = crate::shapes::write_all_mem(&v, true).expect("harness: writing a large valid file failed");
                        Input { shp, shx: if with_shx { Some(shx) } else { None }, desc: format!("valid file, t{}: a shape of {} part(s) x {} vertices between two small ones, shx={}", t, parts, len, with_shx), class: "h:valid-large-amounts" }
                    });
                }
            }
        }
        // (h') VALID files of thousands of tiny records: what is reserved per record adds up as well
        for &t in &[8, 18, 28, 3, 5, 1] {
            for with_shx in [false, true] {
                case!({
                    let mut r = crate::rng::Rng::new(t as u64 * 104_729 + 17);
                    let small = Cfg::plain(1, 2);
                    let v: Vec<Shape> = (0..2500).map(|_| gen::shape_exact(t, &mut r, &small, 1, if gen::is_polyline(t) { 2 } else { 1 })).collect();
                    let (shp, shx) = crate::shapes::write_all_mem(&v, true).expect("harness: writing a file of many records failed");
                    Input { shp, shx: if with_shx { Some(shx) } else { None }, desc: format!("valid file, t{}: 2500 records of one part and one or two vertices, shx={}", t, with_shx), class: "h:valid-large-amounts" }
                });
            }
        }
        // (e'') a forged PART count that record length and header length vouch for: 2^k parts, no points
        for &t in &[3, 5, 13, 15, 23, 25, 31] {
            for k in [14u32, 18, 22, 26] {
                case!({
                    let nparts: i64 = 1i64 << k;
                    let kinds: i64 = if t == 31 { 4 * nparts } else { 0 };
                    let ranges: i64 = match t {
                        3 | 5 => 0,
                        23 | 25 => 16,
                        _ => 32,
                    };
                    let content: i64 = 4 + 32 + 8 + 4 * nparts + kinds + ranges;
                    let mut f = vec![0u8; 100];
                    put(&mut f, 0, 9994, true);
                    put(&mut f, 28, 1000, false);
                    put(&mut f, 32, t, false);
                    put(&mut f, 24, ((100 + 8 + content) / 2).min(i32::MAX as i64) as i32, true);
                    f.extend_from_slice(&1i32.to_be_bytes());
                    f.extend_from_slice(&((content / 2).min(i32::MAX as i64) as i32).to_be_bytes());
                    f.extend_from_slice(&t.to_le_bytes());
                    f.extend_from_slice(&[0u8; 32]);
                    f.extend_from_slice(&(nparts as i32).to_le_bytes());
                    f.extend_from_slice(&0i32.to_le_bytes());
                    f.extend_from_slice(&[0u8; 8]);
                    Input { shp: f, shx: None, desc: format!("t{} declares 2^{} parts and no points; record length and header length agree with that, no part offset is present", t, k), class: "e:consistent-but-unbacked" }
                });
            }
        }
        // (f') more than 2^16 points really present behind a much larger declared count
        for &t in &[3, 18, 28] {
            for &real in &[65_537usize, 70_000, 140_000] {
                case!({
                    Input { shp: partially_backed(t, 26, real, 0), shx: None, desc: format!("t{} declares 2^26 points, {} really present", t, real), class: "f:partially-backed-counts" }
                });
            }
        }
        // (i) a long run of index entries that cannot address a record (zeroed, inside the file
        //     header, negative), really present, next to a valid one-record file
        let runs: &[usize] = if thorough { &[3000, 40_000, 200_000] } else { &[3000, 40_000, 200_000] };
        for &k in runs {
            for &entry in &[(0i32, 0i32), (10, 10), (-1, 10), (i32::MIN, 0), (49, 2)] {
                for &good_last in &[false, true] {
                    // a sampled sweep (the unoptimised build) still runs every case of this class
                    let forced = ctx.opt_u64("sample", 1) > 1 && ctx.only.is_none() && idx % ctx.opt_u64("shards", 1) == ctx.opt_u64("shard", 0) && idx >= ctx.opt_u64("start", 0);
                    if want(idx) || forced {
                        let (shp, shx) = useless_entries(k, entry, good_last);
                        f(idx, Input { shp, shx: Some(shx), desc: format!("valid one-point file, index of {} entries (offset {}, length {}){}", k, entry.0, entry.1, if good_last { " followed by the one good entry" } else { "" }), class: "i:long-run-of-useless-index-entries" });
                    }
                    idx += 1;
                }
            }
        }
    }
    idx
}

// ------------------------------------------------------------------------------ exercising one input

pub struct Finding {
    pub sig: String,
    pub detail: String,
}

struct Exerciser<'a> {
    inp: &'a Input,
    /// directory for the inputs that are also read by path
    dir: Option<String>,
    bound_items: usize,
    bound_bytes: u64,
    findings: Vec<Finding>,
    calls: u64,
    worst_ratio_x100: u64,
    which_typed: usize,
}

impl<'a> Exerciser<'a> {
    /// One monitored API call: panic capture + allocation window.
    fn call<T>(&mut self, api: &str, f: impl FnOnce() -> T) -> Option<T> {
        self.calls += 1;
        allocmon::open();
        let r = panicmon::catch(f);
        let w = allocmon::close();
        if allocmon::enabled() {
            let peak = w.peak.max(0) as u64;
            let worst = peak.max(w.largest as u64);
            let inlen = (self.inp.shp.len() + self.inp.shx.as_ref().map(|x| x.len()).unwrap_or(0)).max(1) as u64;
            self.worst_ratio_x100 = self.worst_ratio_x100.max(worst * 100 / inlen);
            if worst > self.bound_bytes {
                self.findings.push(Finding {
                    sig: format!("alloc:{}", api),
                    detail: format!("largest single request {} B, peak live {} B during {}; input {} B, bound {} B", w.largest, peak, api, inlen, self.bound_bytes),
                });
            }
        }
        match r {
            Ok(v) => Some(v),
            Err(p) => {
                self.findings.push(Finding { sig: format!("panic:{}", p.class()), detail: format!("{} panicked: {} at {}:{}", api, p.msg, p.file, p.line) });
                None
            }
        }
    }

    fn open(&mut self, api: &str) -> Option<ShapeReader<Cursor<Vec<u8>>>> {
        // the cursors (copies of the input) are created outside the window
        let shp = Cursor::new(self.inp.shp.clone());
        let shx = self.inp.shx.as_ref().map(|x| Cursor::new(x.clone()));
        let r = self.call(api, move || match shx {
            Some(x) => ShapeReader::with_shx(shp, x),
            None => ShapeReader::new(shp),
        });
        match r {
            Some(Ok(rd)) => Some(rd),
            _ => None,
        }
    }

    fn iterate<S: ReadableShape>(&mut self, rd: &mut ShapeReader<Cursor<Vec<u8>>>, label: &str) {
        let bound = self.bound_items;
        let with = if self.inp.shx.is_some() { "with" } else { "without" };
        let mut it = match self.call(&format!("{}::create", label), || rd.iter_shapes_as::<S>()) {
            Some(it) => it,
            None => return, // creating the iterator panicked; recorded
        };
        let mut k = 0usize;
        loop {
            // the hint is part of the iterator's surface: asking for it must not panic either
            if self.call(&format!("{}::size_hint", label), || it.size_hint()).is_none() {
                break;
            }
            let step = self.call(&format!("{}::next", label), || it.next());
            match step {
                None => break, // panicked; recorded
                Some(None) => break,
                Some(Some(_)) => {
                    k += 1;
                    if k > bound {
                        self.findings.push(Finding { sig: format!("unbounded-iteration:{}-index", with), detail: format!("{} yielded more than {} items on an input of {} bytes", label, bound, self.inp.shp.len()) });
                        break;
                    }
                }
            }
        }
    }

    fn run(&mut self) {
        let opener = if self.inp.shx.is_some() { "with_shx" } else { "new" };
        if let Some(mut rd) = self.open(opener) {
            self.iterate::<Shape>(&mut rd, "iter_shapes");
            let count = self.call("shape_count", || rd.shape_count()).and_then(|c| c.ok()).unwrap_or(0);
            let upto = count.min(6) + 2;
            for i in (0..upto).chain([count + 1000, usize::MAX / 2, usize::MAX - 1, usize::MAX]) {
                self.call("read_nth_shape", || rd.read_nth_shape(i).map(|r| r.is_ok()));
            }
            self.call("iter_shapes::next+nth(usize::MAX)", || {
                let mut it = rd.iter_shapes();
                let a = it.next().map(|r| r.is_ok());
                let b = it.nth(usize::MAX).map(|r| r.is_ok());
                (a, b)
            });
            for i in [0usize, 1, count.saturating_sub(1), count, count + 1, count + 1000, usize::MAX] {
                self.call("seek", || rd.seek(i).is_ok());
                self.call("iter_shapes(after seek)::size_hint", || rd.iter_shapes().size_hint());
                if i <= 1 || i > count {
                    self.call("iter_shapes(after seek)::create+next", || rd.iter_shapes().next().map(|r| r.is_ok()));
                    self.call("iter_shapes(after seek)::skip(1)+next", || rd.iter_shapes().skip(1).next().map(|r| r.is_ok()));
                }
            }
            self.iterate::<Shape>(&mut rd, "iter_shapes(second)");
        }
        if let Some(rd) = self.open(opener) {
            self.call("read", || rd.read().map(|v| v.len()).ok());
        }
        // typed reads over a rotating subset of the concrete types
        let order = [3, 31, 18, 5, 23, 8, 15, 1, 11, 21, 13, 25, 28];
        for j in 0..3 {
            let t = order[(self.which_typed + j * 4) % order.len()];
            if let Some(rd) = self.open(opener) {
                for_type!(t, S => { self.call("read_as", || rd.read_as::<S>().map(|v| v.len()).ok()); });
            }
        }
        let t = order[(self.which_typed + 1) % order.len()];
        if let Some(mut rd) = self.open(opener) {
            for_type!(t, S => self.iterate::<S>(&mut rd, "iter_shapes_as"));
        }
        // ... and always the concrete type the file's own header (and first record) declare:
        // a typed read that matches is the route that gets furthest into a record
        let mut own: Vec<i32> = vec![];
        for off in [32usize, 108] {
            if let Some(c) = rawshp::le32(&self.inp.shp, off) {
                if gen::TYPES.contains(&c) && !own.contains(&c) {
                    own.push(c);
                }
            }
        }
        for t in own {
            if let Some(rd) = self.open(opener) {
                for_type!(t, S => { self.call("read_as(own type)", || rd.read_as::<S>().map(|v| v.len()).ok()); });
            }
            if let Some(mut rd) = self.open(opener) {
                for_type!(t, S => self.iterate::<S>(&mut rd, "iter_shapes_as(own type)"));
            }
            if self.inp.shx.is_some() {
                if let Some(mut rd) = self.open(opener) {
                    for i in 0..3usize {
                        for_type!(t, S => { self.call("read_nth_shape_as(own type)", || rd.read_nth_shape_as::<S>(i).map(|r| r.is_ok())); });
                    }
                }
            }
        }
        // the path-based constructors and one-liners on the same bytes (every 16th input: the files
        // are written next to the worker's output)
        if self.which_typed % 16 == 5 && !cfg!(miri) {
            if let Some(dir) = &self.dir {
                let base = format!("{}/hostile", dir);
                let shp_path = format!("{}.shp", base);
                let shx_path = format!("{}.shx", base);
                if std::fs::write(&shp_path, &self.inp.shp).is_ok() {
                    match &self.inp.shx {
                        Some(x) => {
                            let _ = std::fs::write(&shx_path, x);
                        }
                        None => {
                            let _ = std::fs::remove_file(&shx_path);
                        }
                    }
                    let bound = self.bound_items;
                    let p = shp_path.clone();
                    self.call("from_path+iter", move || {
                        let mut rd = ShapeReader::from_path(&p).ok()?;
                        let mut k = 0usize;
                        for item in rd.iter_shapes() {
                            let _ = item;
                            k += 1;
                            if k > bound {
                                panic!("harness-observed: from_path iteration exceeds the item bound");
                            }
                        }
                        Some(k)
                    });
                    let p = shp_path.clone();
                    self.call("read_shapes(path)", move || shapefile::read_shapes(&p).map(|v| v.len()).ok());
                    // the complete one-liners, a small valid table next to the hostile files
                    if std::fs::write(format!("{}.dbf", base), valid_dbf()).is_ok() {
                        let p = shp_path.clone();
                        self.call("shapefile::read(path)", move || shapefile::read(&p).map(|v| v.len()).ok());
                        let p = shp_path.clone();
                        self.call("Reader::from_path+read", move || Reader::from_path(&p).and_then(|mut r| r.read()).map(|v| v.len()).ok());
                    }
                }
            }
        }
        // the complete Reader: the hostile .shp/.shx next to a small valid .dbf
        if self.which_typed % 4 == 0 {
            if let Some(rd) = self.open(opener) {
                let bound = self.bound_items;
                let dbf = valid_dbf();
                self.call("Reader::new+read", move || {
                    let db = shapefile::dbase::Reader::new(Cursor::new(dbf)).ok()?;
                    let mut full = Reader::new(rd, db);
                    let n = full.shape_count().unwrap_or(0);
                    // any usize is a legal argument of seek: far behind the last record as well
                    for k in [n + 1000, usize::MAX / 2, usize::MAX, 1] {
                        let _ = full.seek(k);
                    }
                    let mut k = 0usize;
                    for item in full.iter_shapes_and_records() {
                        let _ = item;
                        k += 1;
                        if k > bound {
                            panic!("harness-observed: complete Reader iteration exceeds the item bound");
                        }
                    }
                    full.read().ok().map(|v| v.len())
                });
            }
        }
    }
}

/// A small valid .dbf with three rows (written once with the dbase crate).
fn valid_dbf() -> Vec<u8> {
    use std::sync::OnceLock;
    static DBF: OnceLock<Vec<u8>> = OnceLock::new();
    DBF.get_or_init(|| {
        let mut c = Cursor::new(Vec::new());
        {
            let mut w = crate::e_c10::table_builder().build_with_dest(&mut c);
            for i in 0..3 {
                w.write_record(&crate::e_c10::row(i)).expect("harness: dbf row");
            }
        }
        c.into_inner()
    })
    .clone()
}

pub fn exercise(inp: &Input, which_typed: usize, dir: Option<String>) -> (Vec<Finding>, u64, u64) {
    let inlen = inp.shp.len() + inp.shx.as_ref().map(|x| x.len()).unwrap_or(0);
    let mut ex = Exerciser { inp, dir, bound_items: inlen + 2, bound_bytes: 64 * inlen as u64 + 64 * 1024, findings: vec![], calls: 0, worst_ratio_x100: 0, which_typed };
    ex.run();
    (ex.findings, ex.calls, ex.worst_ratio_x100)
}

// ------------------------------------------------------------------------------ worker (child process)

fn per_type(ctx: &Ctx) -> usize {
    if cfg!(miri) {
        1
    } else {
        ctx.pick(2, 6)
    }
}

/// Child: executes the cases of its shard, writing the index of the case in flight to the
/// progress file before executing it.
pub fn worker(ctx: &Ctx) -> Report {
    let shards = ctx.opt_u64("shards", 1);
    let shard = ctx.opt_u64("shard", 0);
    let start = ctx.opt_u64("start", 0);
    let sample_every = ctx.opt_u64("sample", 1);
    let only: Option<u64> = ctx.only.as_ref().and_then(|c| c.strip_prefix("c07:").and_then(|x| x.parse().ok()));
    let bases = base_files(ctx.seed, per_type(ctx));
    let mut rep = Report::default();
    let mut progress = if cfg!(miri) { None } else { std::fs::OpenOptions::new().create(true).write(true).truncate(true).open(format!("{}/progress-{}", ctx.out, shard)).ok() };
    let want = |i: u64| match only {
        Some(o) => i == o,
        None => i % shards == shard && i >= start && (i / shards) % sample_every == 0,
    };
    let mut run_one = |i: u64, inp: Input| {
        if let Some(p) = progress.as_mut() {
            let _ = p.seek(SeekFrom::Start(0));
            let _ = p.write_all(format!("{:<20}", i).as_bytes());
        }
        let (findings, calls, ratio) = exercise(&inp, i as usize, if cfg!(miri) { None } else { Some(ctx.out.clone()) });
        rep.eval();
        rep.class(inp.class);
        rep.count("reader_calls_monitored", calls);
        rep.max("max:worst_alloc_ratio_x100", ratio);
        if inp.shx.is_some() {
            rep.count("inputs_with_index", 1);
        }
        if findings.is_empty() {
            rep.count("inputs_without_finding", 1);
        }
        for f in findings {
            rep.violation(
                &f.sig,
                &format!("c07:{}", i),
                J::obj(vec![("input", J::s(inp.desc.clone())), ("class", J::s(inp.class)), ("what", J::s(f.detail)), ("shp_hex", J::bytes_hex(&inp.shp[..inp.shp.len().min(600)])), ("shx_hex", inp.shx.as_ref().map(|x| J::bytes_hex(&x[..x.len().min(300)])).unwrap_or(J::Null))]),
            );
        }
        if i % 50021 == 17 {
            rep.sample(|| J::obj(vec![("case", J::s(format!("c07:{}", i))), ("input", J::s(inp.desc.clone())), ("class", J::s(inp.class))]));
        }
    };
    let total = enumerate(&bases, ctx, &want, &mut run_one);
    rep.count("case_space", if shard == 0 { total } else { 0 });
    rep.distinct_counted = rep.evaluations; // every index of the enumeration is a distinct input
    rep
}

