//! C12 — destination I/O failures surface from the failing call; finalize is retryable;
//! short writes give byte-identical output.
//!
//! Fault enumeration: for a workload that issues n operations on a destination, a fault is
//! injected at every k in 0..n+2 (the last two are controls where nothing fails), one-shot and
//! persistent, on each destination in turn. The op log's epochs tell in which API call the
//! fault fell; that call must return Err.

use crate::e_c10::{mask_dbf, row, table_builder};
use crate::gen::{self, type_name, Cfg, TYPES};
use crate::iomon::{Chunking, Dest, Op};
use crate::json::J;
use crate::panicmon;
use crate::report::{par, Ctx, Report};
use crate::rng::{tag, Rng};
use crate::shapes::{err_class, write_one};
use shapefile::*;

#[derive(Clone, Copy, PartialEq, Debug)]
enum Call {
    W(usize),
    F,
}

fn hist_str(h: &[Call]) -> String {
    h.iter().map(|c| match c { Call::W(i) => format!("W{}", i), Call::F => "F".to_string() }).collect::<Vec<_>>().join(" ")
}

struct Run {
    /// final bytes of shp, shx, dbf(masked)
    bytes: Vec<Vec<u8>>,
    /// per call: (api name, Ok?) in order, including the retry
    problems: Vec<(String, J)>,
    fault_fired: bool,
    fault_call: Option<&'static str>,
    fault_kind: Option<char>,
    retried: bool,
}

fn op_kind(d: &Dest) -> Option<char> {
    d.ops().iter().find_map(|(_, o)| if let Op::Failed(k) = o { Some(*k) } else { None })
}

/// Execute a history on ShapeWriter (complete = false) or the complete Writer.
/// `dests`: the three destinations (dbf unused for ShapeWriter). The fault plan, if any, is
/// already installed in one of them.
fn execute(hist: &[Call], shapes: &[Shape], dests: &[Dest; 3], complete: bool, kind: u8, stay_broken: bool) -> Run {
    let mut run = Run { bytes: vec![], problems: vec![], fault_fired: false, fault_call: None, fault_kind: None, retried: false };
    let set_epoch = |e: usize| {
        for d in dests.iter() {
            d.set_epoch(e);
        }
    };
    let fired_in = |e: usize| dests.iter().any(|d| d.fault_epoch() == Some(e));
    let body = panicmon::catch(|| {
        let mut problems: Vec<(String, J)> = vec![];
        let mut fault_call: Option<&'static str> = None;
        let mut retried = false;
        if complete && kind == 2 {
            // the complete writer's consuming bulk route: every pair of the history in ONE call
            let w = Writer::new(ShapeWriter::with_shx(dests[0].clone(), dests[1].clone()), table_builder().build_with_dest(dests[2].clone()));
            let tail: Vec<&Shape> = hist.iter().filter_map(|c| if let Call::W(si) = c { Some(&shapes[*si]) } else { None }).collect();
            let rows: Vec<shapefile::dbase::Record> = (0..tail.len()).map(row).collect();
            let rows_for_empty = row(0);
            set_epoch(1);
            let res = if tail.is_empty() {
                with_concrete!(&shapes[0], x => {
                    let mut none: Vec<(_, &shapefile::dbase::Record)> = vec![(x, &rows_for_empty)];
                    none.clear();
                    w.write_shapes_and_records(none)
                })
            } else {
                bulk_pairs(w, &tail, &rows)
            };
            let fired = fired_in(1);
            match (&res, fired) {
                (Ok(()), true) => problems.push(("write_shapes_and_records/swallowed".into(), J::UInt(0))),
                (Err(er), false) => problems.push(("write_shapes_and_records/spurious-error".into(), J::s(err_class(er)))),
                _ => {}
            }
            if fired {
                fault_call = Some("write_shapes_and_records");
            }
        } else if complete {
            let mut w = Writer::new(ShapeWriter::with_shx(dests[0].clone(), dests[1].clone()), table_builder().build_with_dest(dests[2].clone()));
            for (i, c) in hist.iter().enumerate() {
                if let Call::W(si) = c {
                    let e = i + 1;
                    set_epoch(e);
                    let res = with_concrete!(&shapes[*si], x => w.write_shape_and_record(x, &row(i)));
                    let fired = fired_in(e);
                    match (&res, fired) {
                        (Ok(()), true) => problems.push(("write_shape_and_record/swallowed".into(), J::UInt(i as u64))),
                        (Err(er), false) => problems.push(("write_shape_and_record/spurious-error".into(), J::s(err_class(er)))),
                        _ => {}
                    }
                    if fired {
                        fault_call = Some("write_shape_and_record");
                    }
                    if res.is_err() {
                        break;
                    }
                }
            }
            set_epoch(9000);
            // drop: must not panic whatever the destinations do (checked by the catch around us)
            drop(w);
            if fired_in(9000) {
                fault_call = Some("drop");
            }
        } else if kind == 2 {
            // the consuming bulk route: every shape of the history in ONE write_shapes call
            let w = ShapeWriter::with_shx(dests[0].clone(), dests[1].clone());
            let tail: Vec<&Shape> = hist.iter().filter_map(|c| if let Call::W(si) = c { Some(&shapes[*si]) } else { None }).collect();
            set_epoch(1);
            let res = if tail.is_empty() {
                with_concrete!(&shapes[0], x => {
                    let mut none = vec![x];
                    none.clear();
                    w.write_shapes(none)
                })
            } else {
                crate::e_c09::write_tail(w, &tail)
            };
            let fired = fired_in(1);
            match (&res, fired) {
                (Ok(()), true) => problems.push(("write_shapes/swallowed".into(), J::UInt(0))),
                (Err(er), false) => problems.push(("write_shapes/spurious-error".into(), J::s(err_class(er)))),
                _ => {}
            }
            if fired {
                fault_call = Some("write_shapes");
            }
        } else {
            let mut w = if kind == 1 { ShapeWriter::new(dests[0].clone()) } else { ShapeWriter::with_shx(dests[0].clone(), dests[1].clone()) };
            for (i, c) in hist.iter().enumerate() {
                let e = i + 1;
                set_epoch(e);
                match c {
                    Call::W(si) => {
                        let res = write_one(&mut w, &shapes[*si]);
                        let fired = fired_in(e);
                        match (&res, fired) {
                            (Ok(()), true) => problems.push(("write_shape/swallowed".into(), J::UInt(i as u64))),
                            (Err(er), false) => problems.push(("write_shape/spurious-error".into(), J::s(err_class(er)))),
                            _ => {}
                        }
                        if fired {
                            fault_call = Some("write_shape");
                        }
                        if res.is_err() {
                            break;
                        }
                    }
                    Call::F => {
                        let res = w.finalize();
                        let fired = fired_in(e);
                        match (&res, fired) {
                            (Ok(()), true) => problems.push(("finalize/swallowed".into(), J::UInt(i as u64))),
                            (Err(er), false) => problems.push(("finalize/spurious-error".into(), J::s(err_class(er)))),
                            _ => {}
                        }
                        if fired {
                            fault_call = Some("finalize");
                        }
                        if res.is_err() {
                            let still_failing = dests.iter().any(|d| {
                                let s = d.0.borrow();
                                s.fault.persistent && s.fault.at.is_some()
                            });
                            if still_failing {
                                // the destination is still broken: a second finalize cannot succeed either
                                set_epoch(4000 + e);
                                if w.finalize().is_ok() {
                                    problems.push(("finalize/second-attempt-on-a-broken-destination-swallowed".into(), J::UInt(i as u64)));
                                }
                                if stay_broken {
                                    // ... and the writer is let go while its destination is still failing
                                    break;
                                }
                            }
                            // the destination works again: one more finalize must complete the files
                            for d in dests.iter() {
                                d.heal();
                            }
                            set_epoch(5000 + e);
                            retried = true;
                            if let Err(er) = w.finalize() {
                                problems.push(("finalize/retry-failed".into(), J::s(err_class(&er))));
                                break;
                            }
                            // "completes both files": the retry has to reach the flush of every destination
                            let ndest = if kind == 1 { 1 } else { 2 };
                            for (di, d) in dests.iter().take(ndest).enumerate() {
                                let ops = d.ops_in_epoch(5000 + e);
                                let flushed = ops.iter().rposition(|o| matches!(o, Op::Flush)).map(|f| !ops[f..].iter().any(|o| matches!(o, Op::Write(..)))).unwrap_or(false);
                                if !flushed {
                                    problems.push(("finalize/retry-did-not-flush".into(), J::s(["shp", "shx"][di])));
                                }
                            }
                        }
                    }
                }
            }
            set_epoch(9000);
            drop(w);
            if fired_in(9000) {
                fault_call = Some("drop");
            }
        }
        (problems, fault_call, retried)
    });
    match body {
        Ok((p, fc, retried)) => {
            run.problems = p;
            run.fault_call = fc;
            run.retried = retried;
        }
        Err(p) => run.problems.push(("panic".into(), J::s(p.class()))),
    }
    run.fault_fired = dests.iter().any(|d| d.fault_epoch().is_some());
    run.fault_kind = dests.iter().find_map(op_kind);
    run.bytes = vec![dests[0].data(), dests[1].data(), mask_dbf(dests[2].data())];
    run
}

/// write_shapes_and_records consumes the writer: typed dispatch on the variant of the first shape.
fn bulk_pairs<W: std::io::Write + std::io::Seek>(w: Writer<W>, tail: &[&Shape], rows: &[shapefile::dbase::Record]) -> Result<(), Error> {
    macro_rules! go {
        ($variant:ident, $T:ty) => {{
            let v: Vec<&$T> = tail
                .iter()
                .map(|s| match s {
                    Shape::$variant(x) => x,
                    _ => panic!("harness: mixed tail"),
                })
                .collect();
            w.write_shapes_and_records(v.into_iter().zip(rows.iter()))
        }};
    }
    match tail[0] {
        Shape::Point(_) => go!(Point, Point),
        Shape::PointM(_) => go!(PointM, PointM),
        Shape::PointZ(_) => go!(PointZ, PointZ),
        Shape::Multipoint(_) => go!(Multipoint, Multipoint),
        Shape::MultipointM(_) => go!(MultipointM, MultipointM),
        Shape::MultipointZ(_) => go!(MultipointZ, MultipointZ),
        Shape::Polyline(_) => go!(Polyline, Polyline),
        Shape::PolylineM(_) => go!(PolylineM, PolylineM),
        Shape::PolylineZ(_) => go!(PolylineZ, PolylineZ),
        Shape::Polygon(_) => go!(Polygon, Polygon),
        Shape::PolygonM(_) => go!(PolygonM, PolygonM),
        Shape::PolygonZ(_) => go!(PolygonZ, PolygonZ),
        Shape::Multipatch(_) => go!(Multipatch, Multipatch),
        Shape::NullShape => panic!("harness: null tail"),
    }
}

pub fn run(ctx: &Ctx) -> Report {
    let types: Vec<i32> = if cfg!(miri) { vec![1, 13] } else { TYPES.to_vec() };
    // histories: shape indices refer to a per-type list of 3 shapes of different sizes
    let mut hists: Vec<Vec<Call>> = vec![
        vec![Call::W(0), Call::W(1), Call::W(2), Call::F],
        vec![Call::W(0), Call::F, Call::W(1), Call::F],
        vec![Call::W(0), Call::W(1)],
        vec![Call::F, Call::W(2), Call::F],
        vec![Call::W(3), Call::F],
        // nothing at all: the writer is only let go (or, for the bulk routes, handed an empty collection)
        vec![],
    ];
    if ctx.thorough {
        // all histories of length <= 5 over {W, F} (shapes cycle through the three sizes)
        for len in 1..=5usize {
            for code in 0..(1u32 << len) {
                let mut h = vec![];
                let mut si = 0;
                for b in 0..len {
                    if code >> b & 1 == 1 {
                        h.push(Call::F);
                    } else {
                        h.push(Call::W(si % 3));
                        si += 1;
                    }
                }
                if !hists.contains(&h) {
                    hists.push(h);
                }
            }
        }
        hists.push((0..10).map(|i| Call::W(i % 3)).chain([Call::F]).collect());
    }
    if cfg!(miri) {
        hists.truncate(2);
    } else {
        // long histories (more than 1024 / 2048 writes on one writer, then finalize): periodic
        // work a writer might do every N-th record (flushes, buffer hand-overs) must surface its
        // failures too. Fault points are sampled there: every non-write operation and every 41st write.
        hists.push((0..1100).map(|i| Call::W(i % 3)).chain([Call::F]).collect());
        if ctx.thorough {
            hists.push((0..2300).map(|i| Call::W(i % 3)).chain([Call::F, Call::W(0), Call::F]).collect());
        }
    }
    // writer kinds: 0 ShapeWriter::with_shx, 1 the complete Writer, 2 ShapeWriter::new (no index
    // destination), 3 ShapeWriter::with_shx driven through ONE consuming write_shapes call
    let items: Vec<(i32, usize, u8)> = types.iter().flat_map(|&t| (0..hists.len()).flat_map(move |h| (0..5u8).map(move |wk| (t, h, wk)))).collect();
    let mut rep = par(ctx, items.len(), |idx, rep| {
        let (t, hi, wk) = items[idx];
        let complete = wk == 1 || wk == 4;
        let kind: u8 = match wk {
            2 => 1,
            3 | 4 => 2,
            _ => 0,
        };
        let hist = &hists[hi];
        let long = hist.len() > 100;
        if long && (!matches!(t, 1 | 23) || wk >= 2) {
            return; // the long histories run for two types and the two main writer kinds
        }
        if wk == 1 && hist.contains(&Call::F) && hi != 0 && !long {
            return; // the complete writer has no finalize; it runs the W-only projection of history 0 and the W-only histories
        }
        if wk >= 3 && hi != 0 && !hist.is_empty() {
            return; // the bulk routes run the W-only projection of history 0, and the empty history
        }
        if cfg!(miri) && wk >= 2 && hi != 0 {
            return;
        }
        let hist: Vec<Call> = if complete || wk == 3 { hist.iter().filter(|c| **c != Call::F).cloned().collect() } else { hist.clone() };
        let mut r = Rng::derive(ctx.seed, &[tag("c12"), t as u64]);
        let shapes: Vec<Shape> = vec![
            gen::shape_exact(t, &mut r, &Cfg::plain(1, 2), 1, 2),
            gen::shape_exact(t, &mut r, &Cfg::plain(2, 3), 2, 3),
            gen::shape_exact(t, &mut r, &Cfg::plain(3, 4), 3, 4),
            // a part of 40 vertices (history 4 only): failures far into one coordinate array
            gen::shape_exact(t, &mut r, &Cfg::plain(1, 2), 1, 40),
        ];
        let wname = ["ShapeWriter", "Writer", "ShapeWriter::new(no index)", "ShapeWriter+write_shapes(bulk)", "Writer+write_shapes_and_records(bulk)"][wk as usize];
        // undisturbed run: golden bytes and the number of operations per destination
        let golden_dests = [Dest::new(), Dest::new(), Dest::new()];
        let golden = execute(&hist, &shapes, &golden_dests, complete, kind, false);
        if !golden.problems.is_empty() {
            rep.violation(&format!("undisturbed/{}", golden.problems[0].0), &format!("c12:t{}:h{}:{}", t, hi, wname), J::obj(vec![("history", J::s(hist_str(&hist)))]));
            return;
        }
        let n_ops: Vec<usize> = golden_dests.iter().map(|d| d.n_ops()).collect();
        let ndest = if complete { 3 } else if kind == 1 { 1 } else { 2 };
        for di in 0..ndest {
            let golden_ops = golden_dests[di].ops();
            for k in 0..n_ops[di] + 2 {
                if long {
                    let is_write = matches!(golden_ops.get(k), Some((_, Op::Write(..))));
                    if is_write && k % 41 != 0 {
                        continue;
                    }
                }
                // Miri: every 5th fault point (rotating with the destination) keeps the shard short
                if cfg!(miri) && (k + di) % 5 != 0 {
                    continue;
                }
                let is_flush = matches!(golden_ops.get(k), Some((_, Op::Flush)) | Some((_, Op::Seek(_))));
                let is_seek = matches!(golden_ops.get(k), Some((_, Op::Seek(_))));
                for mode in 0..4u8 {
                    // mode 2: a flush or a seek that keeps failing with ErrorKind::Interrupted (a persistent
                    // failure whatever its kind: the call must not report success)
                    if mode == 2 && !is_flush {
                        continue;
                    }
                    // mode 3: ONE seek failing with ErrorKind::Interrupted: nothing retries a seek, the
                    // position is unknown afterwards, so the call in progress has to report it
                    if mode == 3 && !is_seek {
                        continue;
                    }
                    let persistent = mode == 1 || mode == 2;
                    let case = format!("c12:t{}:h{}:{}:d{}:k{}:{}", t, hi, wname, di, k, ["oneshot", "persistent", "persistent-interrupted-flush", "oneshot-interrupted-seek"][mode as usize]);
                    if !ctx.want(&case) {
                        continue;
                    }
                    let dests = [Dest::new(), Dest::new(), Dest::new()];
                    // the kind of the injected error rotates with the fault point (Other, WouldBlock,
                    // TimedOut, BrokenPipe, PermissionDenied, WriteZero, UnexpectedEof)
                    dests[di].0.borrow_mut().fault = crate::iomon::FaultPlan { at: Some(k), persistent, interrupted_flush: mode >= 2, error_kind: (k % 7) as u8 };
                    let stay_broken = persistent && k % 2 == 1;
                    if stay_broken {
                        rep.count("writers_let_go_while_the_destination_was_still_failing", 1);
                    }
                    if mode == 2 {
                        rep.count("interrupted_flush_faults", 1);
                    }
                    let run = execute(&hist, &shapes, &dests, complete, kind, stay_broken);
                    rep.eval();
                    rep.nontrivial(&case);
                    let kind = match run.fault_kind {
                        Some('w') => "write",
                        Some('s') => "seek",
                        Some('f') => "flush",
                        _ => "none",
                    };
                    let call = run.fault_call.unwrap_or("none");
                    rep.class(&format!("{}: fault in {} op during {}", wname, kind, call));
                    if run.fault_fired {
                        rep.count("faults_injected", 1);
                    } else {
                        rep.count("control_runs_without_fault", 1);
                    }
                    let detail = |what: J| {
                        J::obj(vec![
                            ("type", J::s(type_name(t))),
                            ("history", J::s(hist_str(&hist))),
                            ("writer", J::s(wname)),
                            ("destination", J::s(["shp", "shx", "dbf"][di])),
                            ("fault_at_op", J::UInt(k as u64)),
                            ("persistent", J::Bool(persistent)),
                            ("what", what),
                        ])
                    };
                    for (p, j) in &run.problems {
                        rep.violation(&format!("{}/{}", kind, p), &case, detail(j.clone()));
                    }
                    // final bytes: when nothing failed, or only a finalize failed and was retried,
                    // the files must equal the undisturbed run
                    let all_calls_completed = run.problems.is_empty() && (!run.fault_fired || (run.retried && call == "finalize"));
                    if all_calls_completed {
                        rep.count("runs_compared_with_golden_bytes", 1);
                        if run.retried {
                            rep.count("finalize_retries_observed", 1);
                        }
                        if run.bytes != golden.bytes {
                            rep.violation(&format!("{}/finalize/retry-bytes-differ", kind), &case, detail(J::s("final bytes differ from the undisturbed run")));
                        }
                    }
                    if k % 17 == 3 && persistent {
                        rep.sample(|| detail(J::obj(vec![("fault_fell_in", J::s(call)), ("failed_op_kind", J::s(kind)), ("retried_finalize", J::Bool(run.retried))])));
                    }
                }
            }
        }
        // ---- short writes: every chunking schedule must give byte-identical output
        let mut schedules: Vec<Chunking> = (1..=if cfg!(miri) { 2 } else { 8 }).map(Chunking::Fixed).collect();
        schedules.push(Chunking::Fixed(64));
        for s in 0..if cfg!(miri) { 1 } else { ctx.pick(50, 300) } {
            schedules.push(Chunking::Random(ctx.seed ^ (s as u64 * 7919 + 13), 1 + s % 9));
        }
        for (si, sch) in schedules.iter().enumerate() {
            if long && si % 16 != 0 {
                continue;
            }
            let case = format!("c12:t{}:h{}:{}:chunk{}", t, hi, wname, si);
            if !ctx.want(&case) {
                continue;
            }
            let dests = [Dest::with_chunking(sch.clone()), Dest::with_chunking(sch.clone()), Dest::with_chunking(sch.clone())];
            let run = execute(&hist, &shapes, &dests, complete, kind, false);
            rep.eval();
            rep.class("short-write schedule");
            rep.count("short_write_schedules", 1);
            if !run.problems.is_empty() || run.bytes != golden.bytes {
                rep.violation(
                    "write/short-write-diff",
                    &case,
                    J::obj(vec![("type", J::s(type_name(t))), ("history", J::s(hist_str(&hist))), ("writer", J::s(wname)), ("schedule", J::s(format!("{:?}", sch))), ("problems", J::Arr(run.problems.iter().map(|(p, _)| J::s(p.clone())).collect()))]),
                );
            }
        }
        // ---- short writes again with shapes of 33 / 65 / 300 vertices per part (blocks, buffers)
        if wk == 0 && hi == 0 && !cfg!(miri) {
            let big: Vec<Shape> = if gen::is_point(t) {
                shapes.iter().map(crate::shapes::clone_shape).collect()
            } else {
                vec![gen::shape_exact(t, &mut r, &Cfg::plain(1, 2), 1, 33), gen::shape_exact(t, &mut r, &Cfg::plain(2, 3), 2, 65), gen::shape_exact(t, &mut r, &Cfg::plain(3, 4), 3, 300)]
            };
            let gd = [Dest::new(), Dest::new(), Dest::new()];
            let g = execute(&hist, &big, &gd, false, 0, false);
            for (si, sch) in schedules.iter().enumerate() {
                if si % 4 != 0 && si > 9 {
                    continue;
                }
                let case = format!("c12:t{}:h{}:{}:big-chunk{}", t, hi, wname, si);
                if !ctx.want(&case) {
                    continue;
                }
                let dests = [Dest::with_chunking(sch.clone()), Dest::with_chunking(sch.clone()), Dest::with_chunking(sch.clone())];
                let run = execute(&hist, &big, &dests, false, 0, false);
                rep.eval();
                rep.class("short-write schedule (parts of 33..300 vertices)");
                rep.count("short_write_schedules_with_large_parts", 1);
                if !run.problems.is_empty() || run.bytes != g.bytes {
                    rep.violation("write/short-write-diff", &case, J::obj(vec![("type", J::s(type_name(t))), ("history", J::s(hist_str(&hist))), ("schedule", J::s(format!("{:?}", sch))), ("shapes", J::s("1 x 33, 2 x 65, 3 x 300 vertices"))]));
                }
            }
        }
    });
    if ctx.only.is_none() {
        let f = rep.counters.get("faults_injected").copied().unwrap_or(0);
        rep.guard("faults injected", f, if cfg!(miri) { 20 } else { 2000 });
        let r = rep.counters.get("finalize_retries_observed").copied().unwrap_or(0);
        rep.guard("finalize retries observed", r, if cfg!(miri) { 5 } else { 200 });
        for kind in ["write", "seek", "flush"] {
            let n: u64 = rep.classes.iter().filter(|(k, _)| k.contains(&format!("fault in {} op", kind))).map(|(_, v)| *v).sum();
            rep.guard(&format!("faults in {} operations", kind), n, if cfg!(miri) { 1 } else { 50 });
        }
    }
    rep
}
