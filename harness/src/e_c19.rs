//! C19 — shape type codes form the ESRI table, for every 32-bit value.
//!
//! Exhaustive sweep of all 2^32 codes through `ShapeType::from` and through
//! `Header::read_from` on a 100-byte header carrying the code; a record-level read on a
//! subset; predicates and display names against the harness's own table.

use crate::gen::{type_name, ALL_CODES};
use crate::json::J;
use crate::panicmon;
use crate::report::{par, Ctx, Report};
use shapefile::header::Header;
use shapefile::{Error, ShapeReader, ShapeType};
use std::hint::black_box;
use std::io::Cursor;

fn valid(c: i32) -> bool {
    ALL_CODES.contains(&c)
}

/// ESRI table, written out independently of the library.
fn table_has_z(c: i32) -> bool {
    matches!(c, 11 | 13 | 15 | 18 | 31)
}
fn table_has_m(c: i32) -> bool {
    matches!(c, 21 | 23 | 25 | 28 | 11 | 13 | 15 | 18)
}
fn table_multipart(c: i32) -> bool {
    matches!(c, 3 | 13 | 23 | 5 | 15 | 25 | 31)
}

/// Codes that sit next to the table: valid ones, their one-bit neighbours and +-1
/// neighbours, small magnitudes, the i32 extremes. (Rule for "non-trivial".)
fn near_table(c: i32) -> bool {
    if c.unsigned_abs() <= 64 || c >= i32::MAX - 2 || c <= i32::MIN + 2 {
        return true;
    }
    for v in ALL_CODES {
        if ((c ^ v) as u32).count_ones() == 1 {
            return true;
        }
    }
    false
}

fn header_bytes(code: i32) -> [u8; 100] {
    let mut h = [0u8; 100];
    h[0..4].copy_from_slice(&9994i32.to_be_bytes());
    h[24..28].copy_from_slice(&50i32.to_be_bytes());
    h[28..32].copy_from_slice(&1000i32.to_le_bytes());
    h[32..36].copy_from_slice(&code.to_le_bytes());
    h
}

/// The header image of the 2^32 sweep: the fields the type word does not depend on vary with
/// the code (version word 1000 / 0 / the code itself / -1, length 50 or larger, a non-zero box),
/// so that the verdict on the type word cannot hide behind one fixed image.
fn sweep_header_bytes(code: i32) -> [u8; 100] {
    let mut h = header_bytes(code);
    let version: i32 = match code as u32 % 4 {
        0 => 1000,
        1 => 0,
        2 => code,
        _ => -1,
    };
    h[28..32].copy_from_slice(&version.to_le_bytes());
    if code as u32 % 3 == 1 {
        h[24..28].copy_from_slice(&(50 + (code as u32 % 1000) as i32).to_be_bytes());
    }
    if code as u32 % 5 == 2 {
        h[36..44].copy_from_slice(&(code as f64).to_le_bytes());
        h[92..100].copy_from_slice(&(-1.5f64).to_le_bytes());
    }
    h
}

fn check_from(c: i32, rep: &mut Report) {
    let got = ShapeType::from(black_box(c));
    match (got, valid(c)) {
        (None, false) => {}
        (Some(t), true) => {
            if t as i32 != c {
                rep.violation("roundtrip", &format!("from:{}", c), J::obj(vec![("code", J::Int(c as i64)), ("as_i32", J::Int(t as i32 as i64))]));
            }
        }
        (Some(t), false) => rep.violation(
            "from(c):accepts-invalid",
            &format!("from:{}", c),
            J::obj(vec![("code", J::Int(c as i64)), ("decoded", J::s(format!("{}", t)))]),
        ),
        (None, true) => rep.violation("from(c):rejects-valid", &format!("from:{}", c), J::obj(vec![("code", J::Int(c as i64))])),
    }
}

fn check_header(c: i32, rep: &mut Report) {
    let h = sweep_header_bytes(c);
    let mut src: &[u8] = &h[..];
    let got = Header::read_from(&mut src);
    let ok = match (&got, valid(c)) {
        (Ok(hdr), true) => hdr.shape_type as i32 == c,
        (Err(Error::InvalidShapeType(x)), false) => *x == c,
        _ => false,
    };
    if !ok {
        let what = match &got {
            Ok(h) => format!("Ok(type={})", h.shape_type),
            Err(e) => crate::shapes::err_class(e),
        };
        rep.violation("header-error", &format!("header:{}", c), J::obj(vec![("code", J::Int(c as i64)), ("got", J::s(what))]));
    }
    // the same header through sources that hand out 1, 2 or 3 bytes per read call (a pipe, a
    // small BufReader): for the codes near the table, those whose low bytes alone spell a valid
    // code, and a thin slice of all the others
    let low_valid = valid(c & 0xff) || valid(c & 0xffff) || valid(c & 0xff_ffff);
    if near_table(c) || (low_valid && ((c as u32) >> 8) % 251 <= 2) || (c as u32) % 65536 == 257 {
        for k in 1..=3usize {
            let mut src = crate::iomon::Src::chunked(h.to_vec(), crate::iomon::Chunking::Fixed(k));
            let got = Header::read_from(&mut src);
            rep.count("headers_read_through_a_short_reading_source", 1);
            let ok = match (&got, valid(c)) {
                (Ok(hdr), true) => hdr.shape_type as i32 == c,
                (Err(Error::InvalidShapeType(x)), false) => *x == c,
                _ => false,
            };
            if !ok {
                let what = match &got {
                    Ok(h) => format!("Ok(type={})", h.shape_type),
                    Err(e) => crate::shapes::err_class(e),
                };
                rep.violation("header-error/short-reads", &format!("header:{}:chunk{}", c, k), J::obj(vec![("code", J::Int(c as i64)), ("bytes_per_read", J::UInt(k as u64)), ("got", J::s(what))]));
            }
        }
    }
}

/// One-record file whose record content starts with type code `c`.
/// `body` = bytes following the type word: 16 (a Point-sized body) or 0 (the layout of a
/// NullShape record, which holds nothing but its type word).
fn record_file_with(c: i32, body: usize) -> Vec<u8> {
    let mut f = header_bytes(if valid(c) { c } else { 1 }).to_vec();
    let content: Vec<u8> = {
        let mut v = c.to_le_bytes().to_vec();
        v.extend(std::iter::repeat(0u8).take(body));
        v
    };
    f.extend_from_slice(&1i32.to_be_bytes());
    f.extend_from_slice(&((content.len() / 2) as i32).to_be_bytes());
    f.extend_from_slice(&content);
    let words = (f.len() / 2) as i32;
    f[24..28].copy_from_slice(&words.to_be_bytes());
    f
}

/// A valid .dbf with one row (built once).
fn one_row_dbf() -> Vec<u8> {
    use std::sync::OnceLock;
    static DBF: OnceLock<Vec<u8>> = OnceLock::new();
    DBF.get_or_init(|| {
        let mut cur = Cursor::new(Vec::new());
        {
            let mut w = crate::e_c10::table_builder().build_with_dest(&mut cur);
            w.write_record(&crate::e_c10::row(0)).expect("harness: dbf row");
        }
        cur.into_inner()
    })
    .clone()
}

fn record_file(c: i32) -> Vec<u8> {
    record_file_with(c, 16)
}

fn check_record(c: i32, rep: &mut Report) {
    if valid(c) {
        return; // content would have to be a well-formed body; C03 covers that
    }
    for body in [16usize, 0, 8, 44, 100] {
        check_record_layout(c, body, rep);
    }
    check_index_header(c, rep);
    if !cfg!(miri) && (c as u32) % 64 == 5 {
        if let Some(dir) = TMP_DIR.get() {
            check_index_header_by_path(c, dir, rep);
        }
    }
}

static TMP_DIR: std::sync::OnceLock<String> = std::sync::OnceLock::new();

/// A valid one-record Point .shp with an index whose HEADER carries type code `c`: opening the
/// pair must fail with the invalid-shape-type error carrying the value.
fn check_index_header(c: i32, rep: &mut Report) {
    if valid(c) {
        return;
    }
    let shp = record_file_with(1, 16);
    let mut shx = header_bytes(c).to_vec();
    shx[24..28].copy_from_slice(&54i32.to_be_bytes());
    shx.extend_from_slice(&50i32.to_be_bytes());
    shx.extend_from_slice(&10i32.to_be_bytes());
    let r = panicmon::catch(|| ShapeReader::with_shx(Cursor::new(shp), Cursor::new(shx)).map(|_| ()));
    let what = match r {
        Ok(Err(Error::InvalidShapeType(x))) if x == c => return,
        Ok(Err(e)) => crate::shapes::err_class(&e),
        Ok(Ok(())) => "Ok(reader)".to_string(),
        Err(p) => format!("panic {}", p.class()),
    };
    rep.violation("index-header-error", &format!("record:{}", c), J::obj(vec![("code", J::Int(c as i64)), ("got", J::s(what)), ("what", J::s("type word of the .shx header"))]));
}

/// The same pair on disk, opened by path (sampled: the files are written to the temp dir of the run).
fn check_index_header_by_path(c: i32, dir: &str, rep: &mut Report) {
    if valid(c) {
        return;
    }
    let shp = record_file_with(1, 16);
    let mut shx = header_bytes(c).to_vec();
    shx[24..28].copy_from_slice(&54i32.to_be_bytes());
    shx.extend_from_slice(&50i32.to_be_bytes());
    shx.extend_from_slice(&10i32.to_be_bytes());
    let base = format!("{}/c19_{}_{}", dir, c as u32, std::thread::current().name().map(|n| n.len()).unwrap_or(0));
    let base = format!("{}_{:?}", base, std::thread::current().id()).replace(['(', ')'], "");
    if std::fs::write(format!("{}.shp", base), &shp).is_err() || std::fs::write(format!("{}.shx", base), &shx).is_err() {
        return;
    }
    let r = panicmon::catch(|| ShapeReader::from_path(format!("{}.shp", base)).map(|_| ()));
    let _ = std::fs::remove_file(format!("{}.shp", base));
    let _ = std::fs::remove_file(format!("{}.shx", base));
    rep.count("index_headers_opened_by_path", 1);
    let what = match r {
        Ok(Err(Error::InvalidShapeType(x))) if x == c => return,
        Ok(Err(e)) => crate::shapes::err_class(&e),
        Ok(Ok(())) => "Ok(reader)".to_string(),
        Err(p) => format!("panic {}", p.class()),
    };
    rep.violation("index-header-error/by-path", &format!("record:{}", c), J::obj(vec![("code", J::Int(c as i64)), ("got", J::s(what)), ("what", J::s("type word of the .shx header, pair opened with ShapeReader::from_path"))]));
}

fn check_record_layout(c: i32, body: usize, rep: &mut Report) {
    let f = record_file_with(c, body);
    // the generic read and a typed read (concrete type rotating with the code) must both
    // refuse the record with the invalid-shape-type error carrying the value
    // requested types: the rotating one, and every type whose code this value resembles (shifted
    // by whole bytes, byte-swapped, negated, with one extra bit)
    let mut requested: Vec<i32> = vec![crate::gen::TYPES[(c as u32 % 13) as usize]];
    for &v in crate::gen::TYPES.iter() {
        let like = [v << 8, v << 16, v << 24, v.swap_bytes(), -v, v.wrapping_add(256), v.wrapping_add(65536), v ^ i32::MIN];
        if (like.contains(&c) || (c ^ v).count_ones() == 1) && !requested.contains(&v) {
            requested.push(v);
        }
    }
    for typed_as in requested {
    let f = f.clone();
    let r = panicmon::catch(|| {
        let judge = |first: Option<Result<(), Error>>| match first {
            Some(Err(Error::InvalidShapeType(x))) if x == c => Ok(()),
            Some(Err(e)) => Err(crate::shapes::err_class(&e)),
            Some(Ok(())) => Err("Ok(shape)".to_string()),
            None => Err("None".to_string()),
        };
        let mut rd = ShapeReader::new(Cursor::new(f.clone())).map_err(|e| ("generic", crate::shapes::err_class(&e)))?;
        judge(rd.iter_shapes().next().map(|r| r.map(|_| ()))).map_err(|e| ("generic", e))?;
        // ... and through a source that hands out 1..3 bytes per read call
        let k = 1 + (c as u32 % 3) as usize;
        let mut rd = ShapeReader::new(crate::iomon::Src::chunked(f.clone(), crate::iomon::Chunking::Fixed(k))).map_err(|e| ("generic/short-reads", crate::shapes::err_class(&e)))?;
        judge(rd.iter_shapes().next().map(|r| r.map(|_| ()))).map_err(|e| ("generic/short-reads", e))?;
        let mut rd = ShapeReader::new(Cursor::new(f.clone())).map_err(|e| ("typed", crate::shapes::err_class(&e)))?;
        let first = for_type!(typed_as, S => rd.iter_shapes_as::<S>().next().map(|r| r.map(|_| ())));
        judge(first).map_err(|e| ("typed", e))?;
        let first = for_type!(typed_as, S => ShapeReader::new(Cursor::new(f.clone())).and_then(|rd| rd.read_as::<S>()).map(|_| ()));
        judge(Some(first)).map_err(|e| ("typed-read_as", e))?;
        // random access through an index that lists the record
        let mut shx = header_bytes(1).to_vec();
        shx[24..28].copy_from_slice(&54i32.to_be_bytes());
        shx.extend_from_slice(&50i32.to_be_bytes());
        shx.extend_from_slice(&(((4 + body) / 2) as i32).to_be_bytes());
        let mut rd = ShapeReader::with_shx(Cursor::new(f.clone()), Cursor::new(shx.clone())).map_err(|e| ("nth", crate::shapes::err_class(&e)))?;
        judge(rd.read_nth_shape(0).map(|r| r.map(|_| ()))).map_err(|e| ("nth", e))?;
        let mut rd = ShapeReader::with_shx(Cursor::new(f.clone()), Cursor::new(shx.clone())).map_err(|e| ("nth-typed", crate::shapes::err_class(&e)))?;
        let first = for_type!(typed_as, S => rd.read_nth_shape_as::<S>(0).map(|r| r.map(|_| ())));
        judge(first).map_err(|e| ("nth-typed", e))?;
        // iteration and read() through the index: the entry is not skipped, the call fails
        let mut rd = ShapeReader::with_shx(Cursor::new(f.clone()), Cursor::new(shx.clone())).map_err(|e| ("iter-indexed", crate::shapes::err_class(&e)))?;
        judge(rd.iter_shapes().next().map(|r| r.map(|_| ()))).map_err(|e| ("iter-indexed", e))?;
        let rd = ShapeReader::with_shx(Cursor::new(f.clone()), Cursor::new(shx.clone())).map_err(|e| ("read-indexed", crate::shapes::err_class(&e)))?;
        judge(Some(rd.read().map(|_| ()))).map_err(|e| ("read-indexed", e))?;
        // the complete reader next to a one-row table
        let rd = ShapeReader::new(Cursor::new(f.clone())).map_err(|e| ("Reader::read", crate::shapes::err_class(&e)))?;
        let db = shapefile::dbase::Reader::new(Cursor::new(one_row_dbf())).map_err(|_| ("Reader::read", "harness: dbf".to_string()))?;
        judge(Some(shapefile::Reader::new(rd, db).read().map(|_| ()))).map_err(|e| ("Reader::read", e))?;
        // the code in the SECOND record, behind a valid point record, without index: the iteration
        // yields the point and then the error, it does not just end
        if body == 16 {
            let mut two = record_file_with(1, 16);
            two.extend_from_slice(&2i32.to_be_bytes());
            two.extend_from_slice(&10i32.to_be_bytes());
            two.extend_from_slice(&c.to_le_bytes());
            two.extend_from_slice(&[0u8; 16]);
            let w = (two.len() / 2) as i32;
            two[24..28].copy_from_slice(&w.to_be_bytes());
            let mut rd = ShapeReader::new(Cursor::new(two)).map_err(|e| ("second-record", crate::shapes::err_class(&e)))?;
            let mut it = rd.iter_shapes();
            match it.next() {
                Some(Ok(_)) => {}
                other => return Err(("second-record", format!("first record: {}", match other { None => "None".to_string(), Some(Err(e)) => crate::shapes::err_class(&e), _ => String::new() }))),
            }
            judge(it.next().map(|r| r.map(|_| ()))).map_err(|e| ("second-record", e))?;
        }
        Ok(())
    });
    match r {
        Ok(Ok(())) => {}
        Ok(Err((route, what))) => rep.violation(
            &format!("record-error/{}", route),
            &format!("record:{}", c),
            J::obj(vec![("code", J::Int(c as i64)), ("route", J::s(route)), ("bytes_after_the_type_word", J::UInt(body as u64)), ("typed_as", J::s(type_name(typed_as))), ("got", J::s(what))]),
        ),
        Err(p) => rep.violation("record-error:panic", &format!("record:{}", c), J::obj(vec![("code", J::Int(c as i64)), ("panic", J::s(p.class()))])),
    }
    }
}

pub fn run(ctx: &Ctx) -> Report {
    let mut total = Report::default();
    if !cfg!(miri) {
        let d = format!("{}/files", ctx.out);
        let _ = std::fs::create_dir_all(&d);
        let _ = TMP_DIR.set(d);
    }

    // ---- the 14 table rows: predicates, display names, `as i32`
    for c in ALL_CODES {
        let case = format!("table:{}", c);
        if !ctx.want(&case) {
            continue;
        }
        total.eval();
        match ShapeType::from(c) {
            None => total.violation("from(c):rejects-valid", &case, J::obj(vec![("code", J::Int(c as i64))])),
            Some(t) => {
                let mut bad = vec![];
                if t.has_z() != table_has_z(c) {
                    bad.push("has_z");
                }
                if t.has_m() != table_has_m(c) {
                    bad.push("has_m");
                }
                // the property assigns NullShape to neither family, so code 0 is not asserted
                if c != 0 && t.is_multipart() != table_multipart(c) {
                    bad.push("is_multipart");
                }
                if format!("{}", t) != type_name(c) {
                    bad.push("display");
                }
                if t as i32 != c {
                    bad.push("roundtrip");
                }
                // re-encoding through the writer: the header of a file of this type and the
                // record's own type word both carry the code
                if c != 0 && !cfg!(miri) {
                    let mut r = crate::rng::Rng::new(c as u64);
                    let one = crate::gen::shape(c, &mut r, &crate::gen::Cfg::plain(2, 3));
                    match crate::shapes::write_all_mem(std::slice::from_ref(&one), true) {
                        Ok((shp, shx)) => {
                            let le = |b: &[u8], o: usize| i32::from_le_bytes([b[o], b[o + 1], b[o + 2], b[o + 3]]);
                            if shp.len() < 112 || le(&shp, 32) != c || le(&shp, 108) != c || shx.len() < 100 || le(&shx, 32) != c {
                                bad.push("written-code");
                            }
                        }
                        Err(_) => bad.push("written-code"),
                    }
                }
                for b in bad {
                    total.violation(b, &case, J::obj(vec![("code", J::Int(c as i64)), ("display", J::s(format!("{}", t)))]));
                }
                total.nontrivial(&case);
            }
        }
    }
    total.sample(|| J::obj(vec![("table_rows", J::Arr(ALL_CODES.iter().map(|c| J::s(format!("{}={}", c, type_name(*c)))).collect()))]));

    if ctx.only.is_some() {
        // replay of a single code
        if let Some(case) = &ctx.only {
            if let Some((kind, c)) = case.split_once(':') {
                if let Ok(c) = c.parse::<i32>() {
                    match kind {
                        "from" => check_from(c, &mut total),
                        "header" => check_header(c, &mut total),
                        "record" => check_record(c, &mut total),
                        _ => {}
                    }
                    total.eval();
                }
            }
        }
        return total;
    }

    // ---- all 2^32 codes through ShapeType::from and Header::read_from
    // Miri cannot sweep 2^32 values; it gets the table neighbourhood only.
    let blocks: usize = if cfg!(miri) { 0 } else { 4096 };
    let per = (1u64 << 32) / blocks.max(1) as u64;
    let do_header = ctx.opt("header").map(|v| v != "0").unwrap_or(true);
    // coverage measurement only (tools/coverage.py): a 2^-shift sample of every block; the run
    // then fails its exhaustiveness guard and is reported inconclusive, as it should be
    let shift = ctx.opt_u64("sweep_shift", 0);
    let sweep = par(ctx, blocks, |b, rep| {
        let lo = b as u64 * per;
        let mut near = 0u64;
        let per = per >> shift;
        for u in lo..lo + per {
            let c = u as u32 as i32;
            check_from(c, rep);
            if do_header {
                check_header(c, rep);
            }
            if near_table(c) {
                near += 1;
            }
        }
        rep.evaluations += per * if do_header { 2 } else { 1 };
        rep.count("codes_through_ShapeType::from", per);
        if do_header {
            rep.count("codes_through_Header::read_from", per);
        }
        rep.distinct_counted += near;
    });
    total.merge(sweep);

    // ---- record-level decoding: a band around zero, bit-neighbours of the table, random values
    let band: i64 = if cfg!(miri) { 40 } else { 70_000 };
    let n_rand: usize = if cfg!(miri) { 20 } else { ctx.pick(1_000_000, 50_000_000) };
    let mut codes: Vec<i32> = (-band..=band).map(|v| v as i32).collect();
    for v in ALL_CODES {
        for bit in 0..32 {
            codes.push(v ^ (1i32 << bit));
        }
    }
    codes.extend_from_slice(&[i32::MIN, i32::MIN + 1, i32::MAX, i32::MAX - 1]);
    for v in ALL_CODES {
        codes.extend_from_slice(&[v << 8, v << 16, v << 24, v.swap_bytes(), -v, v.wrapping_add(256), v.wrapping_add(65536), v ^ i32::MIN]);
    }
    let n_fixed = codes.len();
    let seed = ctx.seed;
    let chunks = 256usize;
    let rec = par(ctx, chunks, |k, rep| {
        // fixed part
        let lo = k * n_fixed / chunks;
        let hi = (k + 1) * n_fixed / chunks;
        for &c in &codes[lo..hi] {
            check_record(c, rep);
            rep.eval();
            rep.count("codes_through_record_read", 1);
        }
        // random part
        let mut r = crate::rng::Rng::derive(seed, &[crate::rng::tag("c19-record"), k as u64]);
        for _ in 0..n_rand / chunks {
            let c = r.next() as u32 as i32;
            check_record(c, rep);
            rep.eval();
            rep.count("codes_through_record_read", 1);
        }
    });
    total.merge(rec);
    total.sample(|| J::obj(vec![("record_file_for_code_2_hex", J::bytes_hex(&record_file(2)))]));
    total.sample(|| J::obj(vec![("header_for_code_-1_hex", J::bytes_hex(&header_bytes(-1)))]));
    if !cfg!(miri) {
        total.guard("codes swept through ShapeType::from", total.counters.get("codes_through_ShapeType::from").copied().unwrap_or(0), 1u64 << 32);
    }
    total
}
