//! The harness's own minimal walk over .shp/.shx bytes (from the ESRI whitepaper layout, no
//! library code): record boundaries, stored boxes, header fields. Used to find record
//! boundaries for truncation/crash oracles and to read stored boxes and counts directly from
//! the bytes the writer produced.

#[derive(Clone, Debug)]
pub struct RawRecord {
    /// byte offset of the record header
    pub off: usize,
    pub number: i32,
    pub content_words: i32,
    pub type_code: i32,
    /// xmin ymin xmax ymax (bits), when the type stores a box
    pub bbox: Option<[u64; 4]>,
    pub zr: Option<[u64; 2]>,
    pub mr: Option<[u64; 2]>,
}

impl RawRecord {
    pub fn end(&self) -> usize {
        self.off + 8 + 2 * self.content_words.max(0) as usize
    }
}

pub fn be32(b: &[u8], o: usize) -> Option<i32> {
    b.get(o..o + 4).map(|s| i32::from_be_bytes([s[0], s[1], s[2], s[3]]))
}
pub fn le32(b: &[u8], o: usize) -> Option<i32> {
    b.get(o..o + 4).map(|s| i32::from_le_bytes([s[0], s[1], s[2], s[3]]))
}
pub fn le64(b: &[u8], o: usize) -> Option<u64> {
    b.get(o..o + 8).map(|s| u64::from_le_bytes([s[0], s[1], s[2], s[3], s[4], s[5], s[6], s[7]]))
}

/// Header box as stored: xmin ymin xmax ymax zmin zmax mmin mmax (bit patterns).
pub fn header_box(b: &[u8]) -> Option<[u64; 8]> {
    let mut out = [0u64; 8];
    for (i, o) in out.iter_mut().enumerate() {
        *o = le64(b, 36 + 8 * i)?;
    }
    Some(out)
}

pub fn header_len_words(b: &[u8]) -> Option<i32> {
    be32(b, 24)
}
pub fn header_type(b: &[u8]) -> Option<i32> {
    le32(b, 32)
}

/// Walk the records of a well-formed .shp (as the writer produces). Stops at the first
/// record that does not fit in the buffer; returns the complete records found.
pub fn walk(b: &[u8]) -> Vec<RawRecord> {
    let mut out = vec![];
    let mut o = 100usize;
    while o + 8 <= b.len() {
        let number = be32(b, o).unwrap();
        let words = be32(b, o + 4).unwrap();
        if words < 2 {
            break;
        }
        let end = o + 8 + 2 * words as usize;
        if end > b.len() {
            break;
        }
        let t = le32(b, o + 8).unwrap();
        let c = o + 12; // content after the type code
        let mut rec = RawRecord { off: o, number, content_words: words, type_code: t, bbox: None, zr: None, mr: None };
        let multi = matches!(t, 3 | 5 | 8 | 13 | 15 | 18 | 23 | 25 | 28 | 31);
        if multi && c + 32 <= end {
            rec.bbox = Some([le64(b, c).unwrap(), le64(b, c + 8).unwrap(), le64(b, c + 16).unwrap(), le64(b, c + 24).unwrap()]);
            let (nparts, npts, mut p) = if matches!(t, 8 | 18 | 28) {
                (0usize, le32(b, c + 32).unwrap_or(0).max(0) as usize, c + 36)
            } else {
                (le32(b, c + 32).unwrap_or(0).max(0) as usize, le32(b, c + 36).unwrap_or(0).max(0) as usize, c + 40)
            };
            p += 4 * nparts;
            if t == 31 {
                p += 4 * nparts;
            }
            p += 16 * npts;
            if matches!(t, 13 | 15 | 18 | 31) && p + 16 <= end {
                rec.zr = Some([le64(b, p).unwrap(), le64(b, p + 8).unwrap()]);
                p += 16 + 8 * npts;
            }
            if matches!(t, 13 | 15 | 18 | 31 | 23 | 25 | 28) && p + 16 <= end {
                rec.mr = Some([le64(b, p).unwrap(), le64(b, p + 8).unwrap()]);
            }
        }
        out.push(rec);
        o = end;
    }
    out
}

/// Index entries (offset words, content words) of a .shx as stored.
pub fn shx_entries(b: &[u8]) -> Vec<(i32, i32)> {
    let mut v = vec![];
    let mut o = 100;
    while o + 8 <= b.len() {
        v.push((be32(b, o).unwrap(), be32(b, o + 4).unwrap()));
        o += 8;
    }
    v
}
