//! Engines `c02` and `c04`: produce .shp/.shx pairs with the real writer (cursor
//! destinations and `from_path` files) together with a JSONL *model log* of what was handed
//! to the writer. The byte-level judgement is done offline by the independent decoder
//! (`monitors/check_c02.py`, `check_c04.py`); `c04` additionally runs the reader-side
//! equalities of the property in-process.

use crate::dump::{first_diff, Dump, D};
use crate::gen::{self, type_name, Cfg, TYPES};
use crate::json::J;
use crate::panicmon;
use crate::report::{par, Ctx, Report};
use crate::rng::{tag, Rng};
use crate::shapes::{err_class, write_one};
use shapefile::*;
use std::io::Cursor;
use std::sync::Mutex;

fn reader_side(case: &str, t: i32, shp: &[u8], shx: &[u8], n: usize, written: &[D], rep: &mut Report) {
    let tname = type_name(t);
    let c = |b: &[u8]| Cursor::new(b.to_vec());
    let res = panicmon::catch(|| -> Result<(), (String, J)> {
        let bad = |f: &str, j: J| Err((f.to_string(), j));
        let mut with_idx = match ShapeReader::with_shx(c(shp), c(shx)) {
            Ok(r) => r,
            Err(e) => return bad("reader.open", J::s(err_class(&e))),
        };
        match with_idx.shape_count() {
            Ok(k) if k == n => {}
            Ok(k) => return bad("reader.shape_count", J::obj(vec![("reported", J::UInt(k as u64)), ("written", J::UInt(n as u64))])),
            Err(e) => return bad("reader.shape_count", J::s(err_class(&e))),
        }
        // sequential iteration with the index, watching size_hint before every next()
        let mut seq: Vec<D> = vec![];
        {
            let mut it = with_idx.iter_shapes();
            loop {
                let remaining = n.saturating_sub(seq.len());
                let hint = it.size_hint();
                if hint != (remaining, Some(remaining)) {
                    return bad(
                        "reader.size_hint",
                        J::obj(vec![("consumed", J::UInt(seq.len() as u64)), ("hint_lo", J::UInt(hint.0 as u64)), ("hint_hi", hint.1.map(|h| J::UInt(h as u64)).unwrap_or(J::Null)), ("remaining", J::UInt(remaining as u64))]),
                    );
                }
                match it.next() {
                    None => break,
                    Some(Ok(s)) => seq.push(s.d()),
                    Some(Err(e)) => return bad("reader.iter", J::s(err_class(&e))),
                }
                if seq.len() > n {
                    return bad("reader.iter", J::s("more items than index entries"));
                }
            }
        }
        if seq.len() != n {
            return bad("reader.iter", J::obj(vec![("items", J::UInt(seq.len() as u64)), ("written", J::UInt(n as u64))]));
        }
        // iteration without the index is identical
        let mut without = match ShapeReader::new(c(shp)) {
            Ok(r) => r,
            Err(e) => return bad("reader.open", J::s(err_class(&e))),
        };
        let mut plain: Vec<D> = vec![];
        for (i, x) in without.iter_shapes().enumerate() {
            match x {
                Ok(s) => plain.push(s.d()),
                Err(e) => return bad("reader.iter-noidx", J::s(err_class(&e))),
            }
            if i > n {
                break;
            }
        }
        if plain != seq {
            return bad("reader.iter-with-vs-without-index", J::obj(vec![("with", J::UInt(seq.len() as u64)), ("without", J::UInt(plain.len() as u64))]));
        }
        // random access at every i < n equals the i-th item of the iteration; nothing for i >= n
        let mut order: Vec<usize> = (0..n).collect();
        order.reverse(); // descending order so that every access has to seek backwards
        for i in order {
            match with_idx.read_nth_shape(i) {
                Some(Ok(s)) => {
                    if s.d() != seq[i] {
                        return bad("reader.nth", J::obj(vec![("index", J::UInt(i as u64)), ("nth", s.d().to_json()), ("iterated", seq[i].to_json())]));
                    }
                }
                Some(Err(e)) => return bad("reader.nth", J::obj(vec![("index", J::UInt(i as u64)), ("error", J::s(err_class(&e)))])),
                None => return bad("reader.nth", J::obj(vec![("index", J::UInt(i as u64)), ("error", J::s("None"))])),
            }
        }
        // ... and the same reader, iterated after those random accesses (the last one at index 0),
        // still yields position i at position i
        let mut again: Vec<D> = vec![];
        for x in with_idx.iter_shapes() {
            match x {
                Ok(s) => again.push(s.d()),
                Err(e) => return bad("reader.iter-after-random-access", J::obj(vec![("items_before_error", J::UInt(again.len() as u64)), ("error", J::s(err_class(&e)))])),
            }
            if again.len() > n {
                break;
            }
        }
        if again != seq {
            let at = again.iter().zip(seq.iter()).position(|(a, b)| a != b).unwrap_or(again.len().min(seq.len()));
            return bad("reader.iter-after-random-access", J::obj(vec![("items", J::UInt(again.len() as u64)), ("written", J::UInt(n as u64)), ("first_difference_at", J::UInt(at as u64))]));
        }
        // ... a random access at the LAST index, then a new iteration: all n shapes again, hint n
        if n >= 2 {
            let _ = with_idx.read_nth_shape(n - 1);
            let mut it = with_idx.iter_shapes();
            let hint = it.size_hint();
            let first = it.next().map(|r| r.map(|s| s.d()));
            let rest = it.count();
            let ok = hint == (n, Some(n)) && matches!(&first, Some(Ok(d)) if *d == seq[0]) && rest == n - 1;
            if !ok {
                return bad("reader.iter-after-nth(last)", J::obj(vec![("hint_lo", J::UInt(hint.0 as u64)), ("items_after_the_first", J::UInt(rest as u64)), ("written", J::UInt(n as u64))]));
            }
        }
        // ... and after seek(k): the hint is the number of shapes still to come, at every step
        if n >= 2 {
            let k = 1 + n / 3;
            if let Err(e) = with_idx.seek(k) {
                return bad("reader.seek", J::s(err_class(&e)));
            }
            let mut it = with_idx.iter_shapes();
            let mut got = 0usize;
            loop {
                let remaining = (n - k).saturating_sub(got);
                let hint = it.size_hint();
                if hint != (remaining, Some(remaining)) {
                    return bad("reader.size_hint-after-seek", J::obj(vec![("seek", J::UInt(k as u64)), ("consumed", J::UInt(got as u64)), ("hint_lo", J::UInt(hint.0 as u64)), ("hint_hi", hint.1.map(|h| J::UInt(h as u64)).unwrap_or(J::Null)), ("remaining", J::UInt(remaining as u64))]));
                }
                match it.next() {
                    None => break,
                    Some(Ok(s)) => {
                        if k + got >= n || s.d() != seq[k + got] {
                            return bad("reader.iter-after-seek", J::obj(vec![("seek", J::UInt(k as u64)), ("item", J::UInt(got as u64))]));
                        }
                        got += 1;
                    }
                    Some(Err(e)) => return bad("reader.iter-after-seek", J::s(err_class(&e))),
                }
            }
            if got != n - k {
                return bad("reader.iter-after-seek", J::obj(vec![("seek", J::UInt(k as u64)), ("items", J::UInt(got as u64)), ("expected", J::UInt((n - k) as u64))]));
            }
        }
        // ... and after k good steps followed by one typed step that asks for another type
        // (refused, or not: its outcome is not judged here), random access still returns record i
        if n >= 2 {
            for k in [0, n / 2, n - 2] {
                let mut r = match ShapeReader::with_shx(c(shp), c(shx)) {
                    Ok(r) => r,
                    Err(e) => return bad("reader.open", J::s(err_class(&e))),
                };
                let _ = r.iter_shapes().take(k).count();
                let refused = if t == 1 { r.iter_shapes_as::<Polyline>().next().map(|x| x.is_err()) } else { r.iter_shapes_as::<Point>().next().map(|x| x.is_err()) };
                for i in [k + 1, k, 0] {
                    if i >= n {
                        continue;
                    }
                    let got = r.read_nth_shape(i).map(|x| x.map(|s| s.d()).map_err(|e| err_class(&e)));
                    if !matches!(&got, Some(Ok(d)) if *d == seq[i]) {
                        return bad(
                            "reader.nth-after-typed-step",
                            J::obj(vec![("good_steps", J::UInt(k as u64)), ("typed_step_refused", refused.map(J::Bool).unwrap_or(J::Null)), ("index", J::UInt(i as u64)), ("got", match got { Some(Ok(d)) => d.to_json(), Some(Err(e)) => J::s(e), None => J::s("None") })]),
                        );
                    }
                }
            }
        }
        for i in [n, n + 1, n + 7, usize::MAX - 1, usize::MAX] {
            if with_idx.read_nth_shape(i).is_some() {
                return bad("reader.nth-past-end", J::obj(vec![("index", J::UInt(i as u64))]));
            }
        }
        // and what was iterated is what was written
        for (k, (g, w)) in seq.iter().zip(written).enumerate() {
            if let Some(f) = first_diff(g, &w.expected_after_roundtrip()) {
                return bad("reader.iter-vs-written", J::obj(vec![("index", J::UInt(k as u64)), ("field", J::s(f))]));
            }
        }
        Ok(())
    });
    rep.count("reader_side_files_checked", 1);
    rep.count("random_accesses_checked", n as u64 + 3);
    match res {
        Ok(Ok(())) => {}
        Ok(Err((field, j))) => rep.violation(&format!("{}/{}", field, tname), case, J::obj(vec![("what", j), ("shp_hex", J::bytes_hex(shp)), ("shx_hex", J::bytes_hex(shx))])),
        Err(p) => rep.violation(&format!("reader.panic/{}", tname), case, J::s(p.class())),
    }
}

pub fn run(ctx: &Ctx, with_reader_side: bool) -> Report {
    let engine = if with_reader_side { "c04" } else { "c02" };
    let n = ctx.pick(if with_reader_side { 250 } else { 300 }, if with_reader_side { 2000 } else { 4000 });
    let dir = format!("{}/files", ctx.out);
    std::fs::create_dir_all(&dir).expect("harness: mkdir");
    let models: Mutex<Vec<(usize, String)>> = Mutex::new(vec![]);
    let mut rep = par(ctx, TYPES.len() * n, |idx, rep| {
        let (t, i) = (TYPES[idx / n], idx % n);
        let case = format!("{}:t{}:i{}", engine, t, i);
        if !ctx.want(&case) {
            return;
        }
        let mut r = Rng::derive(ctx.seed, &[tag(engine), t as u64, i as u64]);
        let big = ctx.thorough && i % 499 == 7;
        let c = Cfg::hostile([0.0, 0.2, 1.0][i % 3], if big { 30 } else { ctx.pick(4, 12) }, if big { 300 } else { ctx.pick(5, 40) });
        // dedicated "large" cases: i in 10..10+k for the point types and polylines write
        // files with a number of records (point types) or a shape with a number of points /
        // parts (polyline) that straddles a power of two
        let sizes = gen::threshold_sizes(ctx.thorough);
        // (every type: the point types by records, the others by points per part and by parts; each
        // type meets a third of the sizes, rotating, plus 33 / 65 / 129 points in one part)
        let large: Option<usize> = if i >= 10 && i < 10 + sizes.len() && (matches!(t, 1 | 11 | 3 | 25) || i % 3 == (t as usize) % 3) {
            Some(sizes[i - 10])
        } else if i >= 40 && i < 43 && !gen::is_point(t) {
            Some([33, 65, 129][i - 40])
        } else if t == 1 && i == 34 && !with_reader_side {
            Some(65_537) // record numbers beyond 2^16
        } else if matches!(t, 3 | 15 | 31) && i == 36 && !with_reader_side {
            Some(70_000) // two parts of 70 000 vertices: the second part starts beyond vertex 2^16
        } else if t == 1 && (i == 34 || i == 35 || i == 37) && with_reader_side {
            Some([16_385, 32_769, 0, 65_537][i - 34]) // index entries beyond 2^14 / 2^15 / 2^16
        } else {
            None
        };
        // files without any record: every combination of {cursor with index, cursor without, by path} x {finalize, drop}
        let empty = matches!(i, 0 | 1 | 3 | 6 | 33);
        let shapes: Vec<Shape> = if empty {
            vec![]
        } else if let Some(sz) = large {
            let small = Cfg::plain(1, 2);
            match t {
                1 | 11 | 21 => (0..sz).map(|_| gen::shape(t, &mut r, &small)).collect(),
                3 => vec![gen::shape_exact(t, &mut r, &small, 1, sz), gen::shape_exact(t, &mut r, &small, sz / 2, 2)],
                8 | 18 | 28 => vec![gen::shape_exact(t, &mut r, &small, 1, sz), gen::shape_exact(t, &mut r, &small, 1, 2)],
                _ if sz == 70_000 => vec![gen::shape_exact(t, &mut r, &small, 2, sz)],
                _ => vec![gen::shape_exact(t, &mut r, &small, (sz / 4).max(1), 3), gen::shape_exact(t, &mut r, &small, 2, (sz / 3).max(2)), gen::shape_exact(t, &mut r, &small, 1, sz)],
            }
        } else {
            gen::sequence(t, &mut r, &c, 1, if big { 3 } else { ctx.pick(5, 40) }, i as u64)
        };
        if large.is_some() {
            rep.count("large_cases(amounts straddling powers of two)", 1);
        }
        let nshapes = shapes.len();
        let finalize = i % 2 == 0;
        // every 5th file: an explicit finalize after the k-th shape as well (the file left behind
        // must be the same well-formed file; C09 enumerates such histories exhaustively)
        let mid_finalize: Option<usize> = if i % 5 == 2 && nshapes >= 2 { Some(1 + i % (nshapes - 1)) } else { None };
        let by_path = i % 3 == 1;
        // every 11th file: a finalize BEFORE the first write as well
        let complete_writer = by_path && i % 13 == 7 && !empty;
        if complete_writer {
            rep.count("path_created_pairs_written_by_the_complete_Writer", 1);
        }
        let pre_finalize = i % 11 == 5;
        let refused_between = i % 17 == 4 && nshapes >= 1;
        if refused_between {
            rep.count("files_with_a_refused_write_between_accepted_ones", 1);
        }
        if pre_finalize {
            rep.count("files_with_a_finalize_before_the_first_write", 1);
        }
        // C02 only: every 9th cursor-written file goes through ShapeWriter::new (no index destination)
        let no_index = !with_reader_side && !by_path && i % 9 == 6;
        if no_index {
            rep.count("files_written_through_ShapeWriter::new(no index)", 1);
        }
        // every 7th file: the first shapes through write_shape, the rest through the consuming bulk
        // route write_shapes on the same writer (which then drops it)
        // (every 14th: the bulk call is the ONLY call; an empty file at i == 33 is produced by a bulk call given nothing)
        let bulk_tail: Option<usize> = if i % 14 == 11 && nshapes >= 1 && mid_finalize.is_none() {
            Some(0)
        } else if i % 7 == 4 && nshapes >= 2 && mid_finalize.is_none() {
            Some(1 + (i / 7) % (nshapes - 1))
        } else {
            None
        };
        let empty_bulk = empty && i == 33;
        if bulk_tail.is_some() {
            rep.count("files_ended_through_write_shapes(bulk)_after_write_shape", 1);
        }
        // path-created pairs rotate through file-name styles (dots inside the stem, upper-case
        // extension, spaces / non-ASCII); the index always sits next to the .shp as <stem>.shx
        let style = if by_path { (i / 3) % 6 } else { 0 };
        let name = match style {
            1 => format!("t{}.{}.v2", t, i),
            2 => format!("t{} {} \u{e9}", t, i),
            // ".shp" inside the stem, and inside a directory name
            4 => format!("t{}_{}.shp.bak", t, i),
            5 => {
                let sub = format!("{}/dir{}_{}.shp.d", dir, t, i);
                std::fs::create_dir_all(&sub).expect("harness: mkdir");
                format!("dir{}_{}.shp.d/t{}_{}", t, i, t, i)
            }
            _ => format!("t{}_{}", t, i),
        };
        let upper = by_path && style == 3;
        let shp_path = format!("{}/{}.{}", dir, name, if upper { "SHP" } else { "shp" });
        let shx_path = format!("{}/{}.shx", dir, name);
        rep.eval();
        rep.class(&format!("{}:{}:{}{}", type_name(t), if by_path { "from_path" } else { "cursor" }, if finalize { "finalize" } else { "drop" }, if mid_finalize.is_some() { "+mid-finalize" } else { "" }));
        if mid_finalize.is_some() {
            rep.count("files_with_a_finalize_in_the_middle", 1);
        }
        let written: Vec<D> = shapes.iter().map(|s| s.d()).collect();
        if nshapes >= 2 || written.iter().any(|d| d.parts.len() >= 2 || d.has_special()) {
            rep.nontrivial(&format!("{}|{}", by_path, written.iter().map(|d| d.class_key()).collect::<Vec<_>>().join("|")));
        }
        let res = panicmon::catch(|| -> Result<(Vec<u8>, Vec<u8>), Error> {
            if by_path {
                // every second path-created pair overwrites an existing, longer shapefile
                if i % 2 == 1 {
                    std::fs::write(&shp_path, vec![0xAAu8; 70_000 + 4 * nshapes])?;
                    std::fs::write(&shx_path, vec![0x55u8; 9_000 + 8 * nshapes])?;
                }
                if complete_writer {
                    // the complete writer creates the same .shp / .shx (plus a table next to them)
                    let mut w = Writer::from_path(&shp_path, crate::e_c10::table_builder())?;
                    for (k, s) in shapes.iter().enumerate() {
                        with_concrete!(s, x => w.write_shape_and_record(x, &crate::e_c10::row(k)))?;
                    }
                } else {
                    let mut w = ShapeWriter::from_path(&shp_path)?;
                    if pre_finalize {
                        w.finalize()?;
                    }
                    for (k, s) in shapes.iter().enumerate() {
                        if bulk_tail == Some(k) {
                            break;
                        }
                        write_one(&mut w, s)?;
                        if refused_between && k == i % nshapes {
                            // a shape of another type offered between two accepted ones (seeded
                            // change C02-r10): refused, and the records stay numbered 1..n
                            let _ = if t == 1 { w.write_shape(&PointM::new(1.0, 2.0, 3.0)).is_err() } else { w.write_shape(&Point::new(1.0, 2.0)).is_err() };
                        }
                        if mid_finalize == Some(k + 1) {
                            w.finalize()?;
                        }
                    }
                    if let Some(k) = bulk_tail {
                        crate::e_c09::write_tail(w, &shapes[k..].iter().collect::<Vec<&Shape>>())?;
                    } else if empty_bulk {
                        w.write_shapes(Vec::<&Point>::new())?;
                    } else if finalize {
                        w.finalize()?;
                    }
                }
                Ok((std::fs::read(&shp_path)?, std::fs::read(&shx_path)?))
            } else {
                let mut shp = Cursor::new(Vec::new());
                let mut shx = Cursor::new(Vec::new());
                {
                    let mut w = if no_index { ShapeWriter::new(&mut shp) } else { ShapeWriter::with_shx(&mut shp, &mut shx) };
                    if pre_finalize {
                        w.finalize()?;
                        if i % 22 == 5 {
                            w.finalize()?; // twice: the second one has nothing to commit
                        }
                    }
                    for (k, s) in shapes.iter().enumerate() {
                        if bulk_tail == Some(k) {
                            break;
                        }
                        write_one(&mut w, s)?;
                        if refused_between && k == i % nshapes {
                            // a shape of another type offered between two accepted ones (seeded
                            // change C02-r10): refused, and the records stay numbered 1..n
                            let _ = if t == 1 { w.write_shape(&PointM::new(1.0, 2.0, 3.0)).is_err() } else { w.write_shape(&Point::new(1.0, 2.0)).is_err() };
                        }
                        if mid_finalize == Some(k + 1) {
                            w.finalize()?;
                            if i % 10 == 2 {
                                w.finalize()?;
                            }
                        }
                    }
                    if let Some(k) = bulk_tail {
                        crate::e_c09::write_tail(w, &shapes[k..].iter().collect::<Vec<&Shape>>())?;
                    } else if empty_bulk {
                        w.write_shapes(Vec::<&Point>::new())?;
                    } else if finalize {
                        w.finalize()?;
                    }
                }
                let (a, b) = (shp.into_inner(), shx.into_inner());
                std::fs::write(&shp_path, &a)?;
                std::fs::write(&shx_path, &b)?;
                Ok((a, b))
            }
        });
        let (shp, shx) = match res {
            Ok(Ok(x)) => x,
            Ok(Err(e)) => return rep.violation(&format!("write.error/{}", type_name(t)), &case, J::s(err_class(&e))),
            Err(p) => return rep.violation(&format!("write.panic/{}", type_name(t)), &case, J::s(p.class())),
        };
        let line = J::obj(vec![
            ("file", J::s(name.clone())),
            ("shp_file", J::s(format!("{}.{}", name, if upper { "SHP" } else { "shp" }))),
            ("case", J::s(case.clone())),
            ("type", J::Int(if nshapes == 0 { 0 } else { t as i64 })),
            ("route", J::s(if by_path { "from_path" } else if no_index { "cursor, ShapeWriter::new (no index)" } else { "cursor" })),
            ("ending", J::s(if finalize { "finalize" } else { "drop" })),
            ("shapes", J::Arr(written.iter().map(|d| d.to_json()).collect())),
        ])
        .to_string();
        models.lock().unwrap().push((idx, line));
        if with_reader_side {
            reader_side(&case, t, &shp, &shx, nshapes, &written, rep);
            // the pair on disk through the path-based constructor: same count, same shapes
            let by_path_reader = panicmon::catch(|| -> Result<(usize, Vec<D>), Error> {
                let mut rd = ShapeReader::from_path(&shp_path)?;
                let n = rd.shape_count()?;
                let mut v = vec![];
                for s in rd.iter_shapes() {
                    v.push(s?.d());
                }
                for i in (0..n).rev() {
                    match rd.read_nth_shape(i) {
                        Some(Ok(s)) if v.get(i) == Some(&s.d()) => {}
                        _ => return Err(Error::InvalidShapeRecordSize),
                    }
                }
                Ok((n, v))
            });
            rep.count("pairs_read_through_from_path", 1);
            // in-memory destinations that still hold an older, longer file: the writer cannot
            // truncate them, but the header fields it writes must describe what it wrote
            if i % 4 == 3 && nshapes >= 1 {
                let mut old_shp = Cursor::new(vec![0xEEu8; shp.len() + 640]);
                let mut old_shx = Cursor::new(vec![0xEEu8; shx.len() + 96]);
                let reused = panicmon::catch(|| -> Result<(), Error> {
                    // the simplest history (writes, then drop): an intermediate finalize returns to
                    // the END of the destination, which on a buffer holding stale data is not the
                    // append position - behaviour on such destinations is outside every property
                    let mut w = ShapeWriter::with_shx(&mut old_shp, &mut old_shx);
                    for s in &shapes {
                        write_one(&mut w, s)?;
                    }
                    Ok(())
                });
                rep.count("reused_longer_buffers", 1);
                let (a, b) = (old_shp.into_inner(), old_shx.into_inner());
                // reference: the same history on empty destinations, produced right here (so the
                // comparison does not depend on how the file of this case was written)
                let fresh = crate::shapes::write_all_mem(&shapes, false);
                let ok = match (&reused, &fresh) {
                    (Ok(Ok(())), Ok((fs, fx))) => a.len() >= fs.len() && b.len() >= fx.len() && a[..fs.len()] == fs[..] && b[..fx.len()] == fx[..],
                    _ => false,
                };
                if !ok {
                    let shx_words = crate::rawshp::be32(&b, 24).unwrap_or(-1);
                    rep.violation(
                        &format!("reused-buffer/{}", type_name(t)),
                        &case,
                        J::obj(vec![("what", J::s("written over an older, longer buffer the first bytes differ from the file written to an empty destination")), ("shx_length_field_words", J::Int(shx_words as i64)), ("expected_words", J::Int(50 + 4 * nshapes as i64))]),
                    );
                }
            }
            let want: Vec<D> = written.iter().map(|d| d.expected_after_roundtrip()).collect();
            match by_path_reader {
                Ok(Ok((n, v))) if n == nshapes && v.len() == nshapes && v.iter().zip(&want).all(|(g, w)| first_diff(g, w).is_none()) => {}
                Ok(Ok((n, v))) => rep.violation(&format!("reader.from_path/{}", type_name(t)), &case, J::obj(vec![("count", J::UInt(n as u64)), ("items", J::UInt(v.len() as u64)), ("written", J::UInt(nshapes as u64))])),
                Ok(Err(e)) => rep.violation(&format!("reader.from_path/{}", type_name(t)), &case, J::s(err_class(&e))),
                Err(p) => rep.violation(&format!("reader.from_path.panic/{}", type_name(t)), &case, J::s(p.class())),
            }
        }
        rep.sample(|| J::obj(vec![("case", J::s(case.clone())), ("file", J::s(name.clone())), ("shapes", J::UInt(nshapes as u64)), ("shp_bytes", J::UInt(shp.len() as u64)), ("shx_bytes", J::UInt(shx.len() as u64))]));
    });
    let mut m = models.into_inner().unwrap();
    m.sort();
    let mut s = String::new();
    for (_, l) in &m {
        s.push_str(l);
        s.push('\n');
    }
    std::fs::write(format!("{}/models.jsonl", ctx.out), s).expect("harness: write models");
    if ctx.only.is_none() {
        rep.guard("files produced", m.len() as u64, (TYPES.len() * n) as u64);
        for k in ["files_with_a_finalize_in_the_middle", "files_ended_through_write_shapes(bulk)_after_write_shape"] {
            let v = rep.counters.get(k).copied().unwrap_or(0);
            rep.guard(k, v, 50);
        }
        if !with_reader_side {
            let v = rep.counters.get("files_written_through_ShapeWriter::new(no index)").copied().unwrap_or(0);
            rep.guard("files written through ShapeWriter::new (no index)", v, 50);
        }
    }
    rep
}
