//! C15 — reader results do not depend on what was called before.
//!
//! All words up to a length bound over {iterate j items (j = 0, 1, 2, all), random access at
//! i, seek(k), shape count} on files with n = 3 records, judged against a tiny reference
//! model whose state is the set of start positions the property allows for the next
//! iteration.

use crate::dump::{Dump, D};
use crate::e_c10::{row, table_builder};
use crate::gen::{self, Cfg};
use crate::json::J;
use crate::panicmon;
use crate::report::{par, Ctx, Report};
use crate::rng::{tag, Rng};
use crate::shapes::err_class;
use shapefile::dbase;
use shapefile::*;
use std::collections::BTreeSet;
use std::io::Cursor;

const N: usize = 3;

#[derive(Clone, Copy, Debug, PartialEq)]
enum L {
    /// iterate at most j items
    Iter(usize),
    IterAll,
    Nth(usize),
    Seek(usize),
    Count,
}

fn l_str(l: &L) -> String {
    match l {
        L::Iter(j) => format!("iter.take({})", j),
        L::IterAll => "iter.all".into(),
        L::Nth(i) => format!("nth({})", i),
        L::Seek(k) => format!("seek({})", k),
        L::Count => "count".into(),
    }
}

fn word_str(w: &[L]) -> String {
    w.iter().map(l_str).collect::<Vec<_>>().join("; ")
}

#[derive(Clone, Copy, PartialEq, Debug)]
enum Kind {
    Index,
    NoIndex,
    Complete,
    /// ShapeReader without index, alphabet including the calls that need one: they must
    /// fail and change nothing
    NoIndexFailingCalls,
    /// complete Reader whose ShapeReader has no index
    CompleteNoIndex,
}

fn has_index(kind: Kind) -> bool {
    matches!(kind, Kind::Index | Kind::Complete)
}

/// Origin of the model state when a call starts (for the violation signature).
#[derive(Clone, Copy, Debug)]
enum Origin {
    Fresh,
    AfterNth,
    AfterSeek(usize),
    AfterPartialIter,
    AfterFullIter,
}

fn origin_str(o: Origin) -> String {
    match o {
        Origin::Fresh => "fresh".into(),
        Origin::AfterNth => "after-nth".into(),
        Origin::AfterSeek(0) => "after-seek(0)".into(),
        Origin::AfterSeek(k) if k >= N => "after-seek(n)".into(),
        Origin::AfterSeek(_) => "after-seek(k>0)".into(),
        Origin::AfterPartialIter => "after-partial-iter".into(),
        Origin::AfterFullIter => "after-full-iter".into(),
    }
}

/// What one iteration call observed: index of the record each Ok item equals (None = an Ok
/// item equal to no record), or an error; and whether the iterator reported its end.
struct IterObs {
    items: Vec<Result<Option<usize>, String>>,
    ended: bool,
    /// complete reader: row index carried by each pair
    rows: Vec<Option<usize>>,
}

struct Files {
    shp: Vec<u8>,
    shx: Vec<u8>,
    dbf: Vec<u8>,
    recs: Vec<D>,
}

fn make_files(seed: u64, equal_sizes: bool, padded: bool) -> Files {
    let mut r = Rng::derive(seed, &[tag("c15-files"), equal_sizes as u64]);
    let c = Cfg::plain(3, 4);
    let shapes: Vec<Shape> = (0..N)
        .map(|i| if equal_sizes { gen::shape(1, &mut r, &c) } else { gen::shape_exact(3, &mut r, &c, 1 + i, 2 + i) })
        .collect();
    let mut shp = Cursor::new(Vec::new());
    let mut shx = Cursor::new(Vec::new());
    let mut dbf = Cursor::new(Vec::new());
    {
        let mut w = Writer::new(ShapeWriter::with_shx(&mut shp, &mut shx), table_builder().build_with_dest(&mut dbf));
        for (i, s) in shapes.iter().enumerate() {
            with_concrete!(s, x => w.write_shape_and_record(x, &row(i))).expect("harness: writing the C15 files failed");
        }
    }
    let recs: Vec<D> = shapes.iter().map(|s| s.d().expected_after_roundtrip()).collect();
    for i in 0..N {
        for j in 0..i {
            assert!(recs[i] != recs[j], "harness: C15 records must be pairwise different");
        }
    }
    let (mut shp, mut shx) = (shp.into_inner(), shx.into_inner());
    if padded {
        // the same records with filler behind the header and between the records, reachable
        // through the index only (entry 0 is NOT at byte 100)
        let walk = crate::rawshp::walk(&shp);
        let mut out = shp[..100].to_vec();
        let mut idx = shx[..100].to_vec();
        let mut start = 100usize;
        for (k, rec) in walk.iter().enumerate() {
            out.extend(std::iter::repeat(0xA5u8).take([6usize, 2, 10][k % 3]));
            idx.extend_from_slice(&((out.len() / 2) as i32).to_be_bytes());
            idx.extend_from_slice(&shp[start + 4..start + 8]);
            out.extend_from_slice(&shp[start..rec.end()]);
            start = rec.end();
        }
        let words = (out.len() / 2) as i32;
        out[24..28].copy_from_slice(&words.to_be_bytes());
        shp = out;
        shx = idx;
    }
    Files { shp, shx, dbf: dbf.into_inner(), recs }
}

fn row_index(r: &dbase::Record) -> Option<usize> {
    match r.get("IDX") {
        Some(dbase::FieldValue::Numeric(Some(v))) => Some(*v as usize),
        _ => None,
    }
}

enum AnyReader {
    Shape(ShapeReader<Cursor<Vec<u8>>>),
    Complete(Reader<Cursor<Vec<u8>>, Cursor<Vec<u8>>>),
}

fn open(kind: Kind, f: &Files) -> AnyReader {
    let c = |b: &Vec<u8>| Cursor::new(b.clone());
    match kind {
        Kind::Index => AnyReader::Shape(ShapeReader::with_shx(c(&f.shp), c(&f.shx)).expect("harness: open")),
        Kind::NoIndex => AnyReader::Shape(ShapeReader::new(c(&f.shp)).expect("harness: open")),
        Kind::Complete => AnyReader::Complete(Reader::new(ShapeReader::with_shx(c(&f.shp), c(&f.shx)).expect("harness: open"), dbase::Reader::new(c(&f.dbf)).expect("harness: open dbf"))),
        Kind::NoIndexFailingCalls => AnyReader::Shape(ShapeReader::new(c(&f.shp)).expect("harness: open")),
        Kind::CompleteNoIndex => AnyReader::Complete(Reader::new(ShapeReader::new(c(&f.shp)).expect("harness: open"), dbase::Reader::new(c(&f.dbf)).expect("harness: open dbf"))),
    }
}

fn which(d: &D, recs: &[D]) -> Option<usize> {
    recs.iter().position(|r| r == d)
}

/// Drains an iterator of (dump, row tag) items into an observation, stopping after `take`
/// items (or at a cap well above the number of records).
fn drain(it: &mut dyn Iterator<Item = Result<(D, Option<Option<usize>>), String>>, take: Option<usize>, recs: &[D]) -> IterObs {
    let mut obs = IterObs { items: vec![], ended: false, rows: vec![] };
    let cap = N + 3;
    loop {
        if let Some(j) = take {
            if obs.items.len() >= j {
                break;
            }
        }
        if obs.items.len() >= cap {
            break;
        }
        match it.next() {
            None => {
                obs.ended = true;
                break;
            }
            Some(Ok((d, row))) => {
                obs.items.push(Ok(which(&d, recs)));
                if let Some(r) = row {
                    obs.rows.push(r);
                }
            }
            Some(Err(e)) => obs.items.push(Err(e)),
        }
    }
    obs
}

/// One iteration call; `typed` = Some(code) uses the `*_as::<T>` variants of the API.
fn do_iter(rd: &mut AnyReader, take: Option<usize>, recs: &[D], typed: Option<i32>) -> IterObs {
    let e = |x: Error| err_class(&x);
    match rd {
        AnyReader::Shape(r) => match typed {
            None => drain(&mut r.iter_shapes().map(|x| x.map(|s| (s.d(), None)).map_err(e)), take, recs),
            Some(t) => for_type!(t, T => drain(&mut r.iter_shapes_as::<T>().map(|x| x.map(|s| (s.d(), None)).map_err(e)), take, recs)),
        },
        AnyReader::Complete(r) => {
            let mut obs = match typed {
                None => drain(&mut r.iter_shapes_and_records().map(|x| x.map(|(s, row)| (s.d(), Some(row_index(&row)))).map_err(e)), take, recs),
                Some(t) => for_type!(t, T => drain(&mut r.iter_shapes_and_records_as::<T, dbase::Record>().map(|x| x.map(|(s, row)| (s.d(), Some(row_index(&row)))).map_err(e)), take, recs)),
            };
            // an Err item has no row: keep rows aligned with items for the report
            while obs.rows.len() < obs.items.len() {
                obs.rows.push(None);
            }
            obs
        }
    }
}

fn obs_str(o: &IterObs) -> String {
    let items: Vec<String> = o
        .items
        .iter()
        .enumerate()
        .map(|(i, x)| match x {
            Ok(Some(k)) => match o.rows.get(i) {
                Some(Some(r)) => format!("rec{}+row{}", k, r),
                Some(None) => format!("rec{}+row?", k),
                None => format!("rec{}", k),
            },
            Ok(None) => "unknown-shape".into(),
            Err(e) => format!("Err({})", e),
        })
        .collect();
    format!("[{}]{}", items.join(", "), if o.ended { " end" } else { " (not run to the end)" })
}

/// Runs one word; returns Some((failing call index, origin, what)) on the first refutation.
fn run_word(kind: Kind, f: &Files, word: &[L], typed: Option<i32>, ending: u8, rep: &mut Report) -> Option<(usize, Origin, String)> {
    let final_read = ending == 1;
    let mut rd = open(kind, f);
    let mut allowed: BTreeSet<usize> = [0].into_iter().collect();
    let mut origin = Origin::Fresh;
    for (idx, l) in word.iter().enumerate() {
        match *l {
            L::Count => {
                let c = match &rd {
                    AnyReader::Shape(r) => r.shape_count(),
                    AnyReader::Complete(r) => r.shape_count(),
                };
                if !has_index(kind) {
                    // without an index the call must fail (and change nothing)
                    rep.count("calls_that_must_fail_without_index", 1);
                    if c.is_ok() {
                        return Some((idx, origin, "shape_count succeeded without an index".into()));
                    }
                    continue;
                }
                match c {
                    Ok(k) if k == N => {}
                    Ok(k) => return Some((idx, origin, format!("shape_count = {} (file has {})", k, N))),
                    Err(e) => return Some((idx, origin, format!("shape_count failed: {}", err_class(&e)))),
                }
            }
            L::Nth(i) => {
                let r = match &mut rd {
                    AnyReader::Shape(r) => r,
                    AnyReader::Complete(_) => unreachable!("harness: nth on the complete reader"),
                };
                let got: Option<Result<D, Error>> = match typed {
                    None => r.read_nth_shape(i).map(|x| x.map(|s| s.d())),
                    Some(t) => for_type!(t, T => r.read_nth_shape_as::<T>(i).map(|x| x.map(|s| s.d()))),
                };
                rep.count("random_accesses_observed", 1);
                if !has_index(kind) {
                    rep.count("calls_that_must_fail_without_index", 1);
                    if !matches!(got, Some(Err(_))) {
                        return Some((idx, origin, format!("read_nth_shape({}) without an index did not return an error", i)));
                    }
                    continue;
                }
                let ok = if i < N { matches!(&got, Some(Ok(d)) if *d == f.recs[i]) } else { got.is_none() };
                if !ok {
                    let what = match got {
                        None => "None".to_string(),
                        Some(Err(e)) => format!("Err({})", err_class(&e)),
                        Some(Ok(d)) => format!("record {:?}", which(&d, &f.recs)),
                    };
                    return Some((idx, origin, format!("read_nth_shape({}) returned {}", i, what)));
                }
                if i < N {
                    allowed = [0].into_iter().collect();
                    origin = Origin::AfterNth;
                }
            }
            L::Seek(k) => {
                let r = match &mut rd {
                    AnyReader::Shape(r) => r.seek(k),
                    AnyReader::Complete(r) => r.seek(k),
                };
                if !has_index(kind) {
                    // a seek that fails must leave shapes AND attribute rows where they were
                    rep.count("calls_that_must_fail_without_index", 1);
                    if r.is_ok() {
                        return Some((idx, origin, format!("seek({}) succeeded without an index", k)));
                    }
                    continue;
                }
                if let Err(e) = r {
                    return Some((idx, origin, format!("seek({}) failed: {}", k, err_class(&e))));
                }
                allowed = [k.min(N)].into_iter().collect();
                origin = Origin::AfterSeek(k);
            }
            L::Iter(_) | L::IterAll => {
                let take = if let L::Iter(j) = *l { Some(j) } else { None };
                let obs = do_iter(&mut rd, take, &f.recs, typed);
                rep.count("iterations_observed", 1);
                let mut matched: BTreeSet<usize> = BTreeSet::new();
                for &s in &allowed {
                    let avail = N - s.min(N);
                    let want_len = match take {
                        Some(j) => j.min(avail),
                        None => avail,
                    };
                    let items_ok = obs.items.len() == want_len && obs.items.iter().enumerate().all(|(i, x)| matches!(x, Ok(Some(k)) if *k == s + i));
                    // a bounded iteration that got all it asked for need not have seen the end
                    let end_ok = match take {
                        Some(j) => obs.items.len() == j || obs.ended,
                        None => obs.ended,
                    };
                    let rows_ok = !matches!(kind, Kind::Complete | Kind::CompleteNoIndex) || obs.rows.iter().enumerate().all(|(i, r)| *r == Some(s + i));
                    if items_ok && end_ok && rows_ok {
                        matched.insert(s);
                    }
                }
                if matched.is_empty() {
                    let allowed_s: Vec<String> = allowed.iter().map(|s| format!("records[{}..]", s)).collect();
                    return Some((idx, origin, format!("{} yielded {}; the property allows {}", l_str(l), obs_str(&obs), allowed_s.join(" or "))));
                }
                let consumed = obs.items.len();
                allowed = matched.iter().map(|s| (s + consumed).min(N)).collect();
                allowed.insert(0);
                // `take(0)` creates an iterator and consumes nothing: origin unchanged unless it ran
                if consumed > 0 || take.is_none() {
                    origin = if obs.ended || matched.iter().all(|s| s + consumed >= N) { Origin::AfterFullIter } else { Origin::AfterPartialIter };
                }
            }
        }
    }
    if final_read {
        // the history ends with the read-everything call (consuming for ShapeReader): it is an
        // iteration to the end like any other and must start at an allowed position
        rep.count("histories_ended_by_read()/read_as()", 1);
        let e = |x: Error| err_class(&x);
        let got: Result<Vec<(D, Option<Option<usize>>)>, String> = match rd {
            AnyReader::Shape(r) => match typed {
                None => r.read().map(|v| v.iter().map(|s| (s.d(), None)).collect()).map_err(e),
                Some(t) => for_type!(t, T => r.read_as::<T>().map(|v| v.iter().map(|s| (s.d(), None)).collect()).map_err(e)),
            },
            AnyReader::Complete(mut r) => match typed {
                None => r.read().map(|v| v.iter().map(|(s, row)| (s.d(), Some(row_index(row)))).collect()).map_err(e),
                Some(t) => for_type!(t, T => r.read_as::<T, dbase::Record>().map(|v| v.iter().map(|(s, row)| (s.d(), Some(row_index(row)))).collect()).map_err(e)),
            },
        };
        let idx = word.len();
        match got {
            Err(err) => return Some((idx, origin, format!("read-all failed: {}", err))),
            Ok(items) => {
                let ok = allowed.iter().any(|&s| {
                    let s = s.min(N);
                    items.len() == N - s
                        && items.iter().enumerate().all(|(i, (d, row))| which(d, &f.recs) == Some(s + i) && row.map(|r| r == Some(s + i)).unwrap_or(true))
                });
                if !ok {
                    let seen: Vec<String> = items.iter().map(|(d, row)| format!("rec{:?}{}", which(d, &f.recs), row.map(|r| format!("+row{:?}", r)).unwrap_or_default())).collect();
                    let allowed_s: Vec<String> = allowed.iter().map(|s| format!("records[{}..]", s)).collect();
                    return Some((idx, origin, format!("read-all returned [{}]; the property allows {}", seen.join(", "), allowed_s.join(" or "))));
                }
            }
        }
    } else if ending >= 2 {
        // the history ends with an iteration consumed through a std adaptor, which reaches the
        // iterator's own nth / count / last / size_hint instead of next() alone
        rep.count("histories_ended_through_an_iterator_adaptor", 1);
        let e = |x: Error| err_class(&x);
        type Obs = Result<(Option<usize>, Option<Option<usize>>), String>;
        enum Out {
            Items(Vec<Obs>),
            Count(usize),
        }
        macro_rules! consume {
            ($it:expr, $conv:expr) => {{
                let mut it = $it;
                match ending {
                    2 => Out::Items(it.skip(1).take(N + 3).map($conv).collect()),
                    3 => Out::Items(it.nth(1).into_iter().map($conv).collect()),
                    4 => Out::Count(it.count()),
                    _ => Out::Items(it.last().into_iter().map($conv).collect()),
                }
            }};
        }
        let recs = &f.recs;
        let out = match &mut rd {
            AnyReader::Shape(r) => match typed {
                None => consume!(r.iter_shapes(), |x: Result<Shape, Error>| x.map(|s| (which(&s.d(), recs), None)).map_err(e)),
                Some(t) => for_type!(t, T => consume!(r.iter_shapes_as::<T>(), |x: Result<T, Error>| x.map(|s| (which(&s.d(), recs), None)).map_err(e))),
            },
            AnyReader::Complete(r) => match typed {
                None => consume!(r.iter_shapes_and_records(), |x: Result<(Shape, dbase::Record), Error>| x.map(|(s, row)| (which(&s.d(), recs), Some(row_index(&row)))).map_err(e)),
                Some(t) => for_type!(t, T => consume!(r.iter_shapes_and_records_as::<T, dbase::Record>(), |x: Result<(T, dbase::Record), Error>| x.map(|(s, row)| (which(&s.d(), recs), Some(row_index(&row)))).map_err(e))),
            },
        };
        let name = ["", "", "iter.skip(1)", "iter.nth(1)", "iter.count()", "iter.last()"][ending as usize];
        let fits = |s: usize| -> bool {
            let s = s.min(N);
            let expect: Vec<usize> = match ending {
                2 => (s + 1..N).collect(),
                3 => if s + 1 < N { vec![s + 1] } else { vec![] },
                _ => if s < N { vec![N - 1] } else { vec![] },
            };
            match &out {
                Out::Count(c) => *c == N - s,
                Out::Items(v) => v.len() == expect.len() && v.iter().zip(&expect).all(|(g, w)| matches!(g, Ok((Some(k), row)) if k == w && row.map(|r| r == Some(*w)).unwrap_or(true))),
            }
        };
        if !allowed.iter().any(|&s| fits(s)) {
            let seen = match &out {
                Out::Count(c) => format!("{}", c),
                Out::Items(v) => format!("{:?}", v),
            };
            let allowed_s: Vec<String> = allowed.iter().map(|s| format!("records[{}..]", s)).collect();
            return Some((word.len(), origin, format!("{} gave {}; an iteration the property allows starts at {}", name, seen, allowed_s.join(" or "))));
        }
    }
    None
}

fn alphabet(kind: Kind) -> Vec<L> {
    let mut a = vec![L::Iter(0), L::Iter(1), L::Iter(2), L::IterAll];
    match kind {
        Kind::NoIndex => {}
        Kind::NoIndexFailingCalls => {
            a.extend_from_slice(&[L::Count, L::Nth(0), L::Nth(2), L::Seek(1), L::Seek(3)]);
        }
        Kind::CompleteNoIndex => {
            a.extend_from_slice(&[L::Count, L::Seek(0), L::Seek(1), L::Seek(3)]);
        }
        Kind::Index => {
            a.push(L::Count);
            for i in 0..=N {
                a.push(L::Nth(i));
                a.push(L::Seek(i));
            }
        }
        Kind::Complete => {
            a.push(L::Count);
            for i in 0..=N {
                a.push(L::Seek(i));
            }
        }
    }
    a
}

fn words(alpha: &[L], max_len: usize) -> Vec<Vec<L>> {
    let mut all: Vec<Vec<L>> = vec![];
    let mut frontier: Vec<Vec<L>> = vec![vec![]];
    for _ in 0..max_len {
        let mut next = vec![];
        for w in &frontier {
            for &l in alpha {
                let mut x = w.clone();
                x.push(l);
                next.push(x);
            }
        }
        all.extend(next.iter().cloned());
        frontier = next;
    }
    all
}

/// The word enumeration runs on 3 records. Positions beyond that (a constant, a table, a cache of
/// a few entries) are covered by a direct sweep on a file of 40 records: seek(k) then iterate for
/// every k, random access after every seek, for the shape reader and the complete reader.
fn many_records(ctx: &Ctx, rep: &mut Report) {
    const M: usize = 40;
    let mut r = Rng::derive(ctx.seed, &[tag("c15-many")]);
    let shapes: Vec<Shape> = (0..M).map(|i| gen::shape_exact(3, &mut r, &Cfg::plain(1, 2), 1, 2 + (i * 3) % 5)).collect();
    let mut shp = Cursor::new(Vec::new());
    let mut shx = Cursor::new(Vec::new());
    let mut dbf = Cursor::new(Vec::new());
    {
        let mut w = Writer::new(ShapeWriter::with_shx(&mut shp, &mut shx), table_builder().build_with_dest(&mut dbf));
        for (i, s) in shapes.iter().enumerate() {
            with_concrete!(s, x => w.write_shape_and_record(x, &row(i))).expect("harness: writing the 40-record file failed");
        }
    }
    let recs: Vec<D> = shapes.iter().map(|s| s.d().expected_after_roundtrip()).collect();
    let (shp, shx, dbf) = (shp.into_inner(), shx.into_inner(), dbf.into_inner());
    // every ordered pair (a, b) of random accesses on ONE reader: the records differ in size and the
    // last one is not the largest, so b is reached after a smaller and after a larger record
    if ctx.want("c15:many:pairs") {
        rep.eval();
        let res = panicmon::catch(|| -> Result<(), String> {
            let mut rd = ShapeReader::with_shx(Cursor::new(shp.clone()), Cursor::new(shx.clone())).map_err(|e| err_class(&e))?;
            for a in 0..M {
                for b in (0..M).rev() {
                    for i in [a, b] {
                        match rd.read_nth_shape(i) {
                            Some(Ok(s)) if s.d() == recs[i] => {}
                            other => return Err(format!("read_nth_shape({}) then read_nth_shape({}) on one reader: access to {} answered {}", a, b, i, match other { Some(Ok(s)) => format!("record {:?}", which(&s.d(), &recs)), Some(Err(e)) => err_class(&e), None => "None".to_string() })),
                        }
                    }
                }
            }
            Ok(())
        });
        rep.count("ordered_pairs_of_random_accesses_on_one_reader", (M * M) as u64);
        match res {
            Ok(Ok(())) => {}
            Ok(Err(what)) => rep.violation("many-records/random-access-pairs", "c15:many:pairs", J::obj(vec![("records", J::UInt(M as u64)), ("what", J::s(what))])),
            Err(p) => rep.violation("many-records/panic", "c15:many:pairs", J::s(p.class())),
        }
    }
    for k in 0..=M + 2 {
        let case = format!("c15:many:seek{}", k);
        if !ctx.want(&case) {
            continue;
        }
        rep.eval();
        rep.count("seek_positions_swept_on_a_40_record_file", 1);
        let res = panicmon::catch(|| -> Result<(), String> {
            let mut rd = ShapeReader::with_shx(Cursor::new(shp.clone()), Cursor::new(shx.clone())).map_err(|e| err_class(&e))?;
            rd.seek(k).map_err(|e| format!("seek({}) failed: {}", k, err_class(&e)))?;
            let got: Vec<D> = rd.iter_shapes().map(|x| x.map(|s| s.d())).collect::<Result<Vec<_>, _>>().map_err(|e| err_class(&e))?;
            if got[..] != recs[k.min(M)..] {
                return Err(format!("after seek({}) the iteration yielded {} records, first {:?}; the records from {} on are {}", k, got.len(), got.first().and_then(|d| which(d, &recs)), k.min(M), M - k.min(M)));
            }
            // random access right after a seek does not depend on it
            rd.seek(k).map_err(|e| err_class(&e))?;
            let i = (k * 7 + 3) % M;
            match rd.read_nth_shape(i) {
                Some(Ok(s)) if s.d() == recs[i] => {}
                _ => return Err(format!("after seek({}) read_nth_shape({}) did not return record {}", k, i, i)),
            }
            // the complete reader: rows follow the same position
            let mut full = Reader::new(ShapeReader::with_shx(Cursor::new(shp.clone()), Cursor::new(shx.clone())).map_err(|e| err_class(&e))?, dbase::Reader::new(Cursor::new(dbf.clone())).map_err(|_| "harness: dbf".to_string())?);
            full.seek(k).map_err(|e| format!("Reader::seek({}) failed: {}", k, err_class(&e)))?;
            let pairs = full.iter_shapes_and_records().collect::<Result<Vec<_>, _>>().map_err(|e| err_class(&e))?;
            let ok = pairs.len() == M - k.min(M) && pairs.iter().enumerate().all(|(j, (s, row))| s.d() == recs[k + j] && row_index(row) == Some(k + j));
            if !ok {
                return Err(format!("after Reader::seek({}) the pairs are not (record i, row i) for i = {}..{}", k, k.min(M), M));
            }
            Ok(())
        });
        match res {
            Ok(Ok(())) => {}
            Ok(Err(what)) => rep.violation("many-records/after-seek(k)", &case, J::obj(vec![("records", J::UInt(M as u64)), ("what", J::s(what))])),
            Err(p) => rep.violation("many-records/panic", &case, J::s(p.class())),
        }
    }
}

pub fn run(ctx: &Ctx) -> Report {
    // (reader kind, equal record sizes, word length bound, typed API variants)
    let configs: Vec<(Kind, bool, usize, bool, bool)> = if cfg!(miri) {
        vec![(Kind::Index, false, 2, false, false), (Kind::NoIndex, false, 3, true, false), (Kind::Complete, false, 2, false, false), (Kind::Index, true, 2, true, true)]
    } else {
        let (li, ln, lc) = (ctx.pick(4, 6), ctx.pick(6, 10), ctx.pick(4, 6));
        let mut v = vec![];
        for typed in [false, true] {
            // the typed variants (`*_as::<T>`) run one letter shorter in the thorough tier
            let cut = if typed && ctx.thorough { 1 } else { 0 };
            v.extend_from_slice(&[(Kind::Index, false, li - cut, typed, false), (Kind::Index, true, li - cut, typed, false), (Kind::NoIndex, false, ln - cut, typed, false), (Kind::NoIndex, true, ln - cut, typed, false), (Kind::Complete, false, lc - cut, typed, false), (Kind::Complete, true, lc - cut, typed, false)]);
            v.extend_from_slice(&[(Kind::NoIndexFailingCalls, false, lc - cut, typed, false), (Kind::CompleteNoIndex, false, lc - cut, typed, false), (Kind::CompleteNoIndex, true, lc - cut, typed, false)]);
            // a layout with filler behind the header and between the records (index needed), one letter shorter
            v.extend_from_slice(&[(Kind::Index, false, li - cut - 1, typed, true), (Kind::Complete, true, lc - cut - 1, typed, true)]);
        }
        v
    };
    let mut total = Report::default();
    if !cfg!(miri) {
        many_records(ctx, &mut total);
    }
    for (ci, (kind, equal, max_len, typed_api, padded)) in configs.iter().enumerate() {
        // the files hold Point records (equal sizes) or Polyline records (different sizes)
        let typed: Option<i32> = if *typed_api { Some(if *equal { 1 } else { 3 }) } else { None };
        let f = make_files(ctx.seed, *equal, *padded);
        let ws = words(&alphabet(*kind), *max_len);
        let kname = match kind {
            Kind::Index => "index",
            Kind::NoIndex => "no-index",
            Kind::Complete => "Reader",
            Kind::NoIndexFailingCalls => "no-index+failing-calls",
            Kind::CompleteNoIndex => "Reader-without-index",
        };
        let blocks = 64.min(ws.len());
        let rep = par(ctx, blocks, |b, rep| {
            for (wi, w) in ws.iter().enumerate() {
                if wi % blocks != b {
                    continue;
                }
                let case = format!("c15:cfg{}:w{}", ci, wi);
                if !ctx.want(&case) && !ctx.only.as_ref().map(|o| o.starts_with(&case)).unwrap_or(false) {
                    continue;
                }
                rep.eval();
                rep.class(&format!("{} reader, {} record sizes{}, {} API, words <= {}", kname, if *equal { "equal" } else { "different" }, if *padded { ", padded layout" } else { "" }, if *typed_api { "typed (*_as::<T>)" } else { "generic" }, max_len));
                rep.nontrivial(&case);
                // every history runs twice: as it is, and ended by read() / read_as()
                // every history runs as it is, ended by read() / read_as(), and ended by one iterator
                // adaptor (skip / nth / count / last, rotating with the word)
                for ending in [0u8, 1, 2 + (wi % 4) as u8] {
                let final_read = ending == 1;
                let case = match ending {
                    0 => case.clone(),
                    1 => format!("{}:read", case),
                    k => format!("{}:adaptor{}", case, k),
                };
                match panicmon::catch(|| run_word(*kind, &f, w, typed, ending, rep)) {
                    Err(p) => rep.violation(&format!("{}/panic", kname), &case, J::obj(vec![("history", J::s(word_str(w))), ("panic", J::s(p.class()))])),
                    Ok(None) => {}
                    Ok(Some((idx, origin, what))) => {
                        let call = match w.get(idx) {
                            Some(L::Iter(_)) | Some(L::IterAll) => "iter",
                            Some(L::Nth(_)) => "nth",
                            Some(L::Seek(_)) => "seek",
                            Some(L::Count) => "count",
                            None if ending >= 2 => "adaptor",
                            None => "read-all",
                        };
                        rep.violation(
                            &format!("{}{}/{}/{}", kname, if *typed_api { "(typed)" } else { "" }, origin_str(origin), call),
                            &case,
                            J::obj(vec![
                                ("reader", J::s(kname)),
                                ("record_sizes", J::s(if *equal { "equal" } else { "pairwise different" })),
                                ("history", J::s(format!("{}{}", word_str(w), ["", "; read-all", "; iter.skip(1)", "; iter.nth(1)", "; iter.count()", "; iter.last()"][ending as usize]))),
                                ("failing_call_index", J::UInt(idx as u64)),
                                ("what", J::s(what)),
                            ]),
                        );
                    }
                }
                }
                if wi % 1013 == 11 {
                    rep.sample(|| J::obj(vec![("reader", J::s(kname)), ("history", J::s(word_str(w)))]));
                }
            }
        });
        total.merge(rep);
        total.count(&format!("histories:{}:{}", kname, if *equal { "equal-sizes" } else { "different-sizes" }), ws.len() as u64);
    }
    if ctx.only.is_none() {
        let it = total.counters.get("iterations_observed").copied().unwrap_or(0);
        total.guard("iterations observed", it, if cfg!(miri) { 10 } else { 10000 });
        let ra = total.counters.get("random_accesses_observed").copied().unwrap_or(0);
        total.guard("random accesses observed", ra, if cfg!(miri) { 5 } else { 5000 });
    }
    total
}
