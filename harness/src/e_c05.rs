//! C05 — stored bounding boxes are exact: per shape (constructor + record bytes) and in the
//! file header (bytes 36..100 and `ShapeReader::header().bbox`).
//!
//! Oracle: a naive fold written here (`if v < lo { lo = v }` starting from the first
//! element, no sentinels) over the vertices as the accessors return them. Components are
//! compared numerically (`==`, so -0 equals +0).

use crate::dump::{float_class, Dump, D, V};
use crate::gen::{self, type_name, Cfg, Pool, NO_DATA, TYPES};
use crate::json::J;
use crate::panicmon;
use crate::rawshp;
use crate::report::{par, Ctx, Report};
use crate::rng::{tag, Rng};
use crate::shapes::{build_from_parts, write_one};
use shapefile::*;
use std::convert::TryFrom;
use std::io::Cursor;

#[derive(Clone, Copy, Debug)]
struct Range {
    lo: f64,
    hi: f64,
    /// position class of the minimum / maximum: (vertex, part, shape) each first/middle/last/only
    lo_at: (u8, u8, u8),
    hi_at: (u8, u8, u8),
}

fn pos_class(i: usize, n: usize) -> u8 {
    if n == 1 {
        b'o'
    } else if i == 0 {
        b'f'
    } else if i == n - 1 {
        b'l'
    } else {
        b'm'
    }
}

/// Naive extreme of dimension `k` (0 x, 1 y, 2 z, 3 m) over the dumps of some shapes.
fn fold(ds: &[&D], k: usize) -> Option<Range> {
    let mut r: Option<Range> = None;
    for (si, d) in ds.iter().enumerate() {
        for (pi, p) in d.parts.iter().enumerate() {
            for (vi, v) in p.iter().enumerate() {
                let x = f64::from_bits(v[k]);
                let at = (pos_class(vi, p.len()), pos_class(pi, d.parts.len()), pos_class(si, ds.len()));
                match r.as_mut() {
                    None => r = Some(Range { lo: x, hi: x, lo_at: at, hi_at: at }),
                    Some(r) => {
                        if x < r.lo {
                            r.lo = x;
                            r.lo_at = at;
                        }
                        if x > r.hi {
                            r.hi = x;
                            r.hi_at = at;
                        }
                    }
                }
            }
        }
    }
    r
}

fn at_str(a: (u8, u8, u8)) -> String {
    format!("v{}p{}s{}", a.0 as char, a.1 as char, a.2 as char)
}

const DIM: [&str; 4] = ["x", "y", "z", "m"];

/// Candidate extreme values, steered at what the writer uses internally as sentinels.
fn extreme_value(r: &mut Rng, high: bool) -> f64 {
    let hi = [f64::INFINITY, f64::MAX, gen::prev(f64::MAX), 1e300, 1e39, 4e6, 0.0, -0.0];
    let lo = [f64::NEG_INFINITY, f64::MIN, gen::next(f64::MIN), -1e300, -1e39, -4e6, NO_DATA, gen::prev(NO_DATA), gen::next(NO_DATA)];
    if high {
        *r.pick(&hi)
    } else {
        *r.pick(&lo)
    }
}

fn gen_input(t: i32, r: &mut Rng, c: &Cfg) -> Vec<(i32, Vec<V>)> {
    let np = if gen::is_point(t) || gen::is_multipoint(t) { 1 } else { r.usize_in(1, c.max_parts) };
    (0..np)
        .map(|_| {
            let minlen = if gen::is_polyline(t) { 2 } else { 1 };
            let n = if gen::is_point(t) { 1 } else { r.usize_in(minlen, c.max_len.max(minlen)) };
            let kind = if t == 31 { r.below(6) as i32 } else { r.below(2) as i32 };
            let mut pts: Vec<V> = (0..n)
                .map(|_| [gen::coord(r, c, false).to_bits(), gen::coord(r, c, false).to_bits(), gen::coord(r, c, true).to_bits(), gen::coord(r, c, true).to_bits()])
                .collect();
            // one part in six is a loop in X/Y: its last vertex sits on the first one but carries
            // its own Z and M (a measured route returning to its start)
            if n >= 3 && r.chance(0.17) {
                let (x, y) = (pts[0][0], pts[0][1]);
                pts[n - 1][0] = x;
                pts[n - 1][1] = y;
            }
            (kind, pts)
        })
        .collect()
}

fn used_dims(t: i32) -> Vec<usize> {
    let mut v = vec![0, 1];
    if gen::has_z(t) {
        v.push(2);
    }
    if gen::carries_m(t) {
        v.push(3);
    }
    v
}

fn cmp(rep: &mut Report, where_: &str, t: i32, k: usize, got_lo: f64, got_hi: f64, want: &Range, case: &str, ctxj: &dyn Fn() -> J) {
    if got_lo != want.lo {
        let sig = format!("{}.min.{}/{}", where_, DIM[k], float_class(want.lo));
        rep.violation(&sig, case, J::obj(vec![("type", J::s(type_name(t))), ("stored", J::hex(got_lo.to_bits())), ("true_extreme", J::hex(want.lo.to_bits())), ("extreme_at", J::s(at_str(want.lo_at))), ("input", ctxj())]));
    }
    if got_hi != want.hi {
        let sig = format!("{}.max.{}/{}", where_, DIM[k], float_class(want.hi));
        rep.violation(&sig, case, J::obj(vec![("type", J::s(type_name(t))), ("stored", J::hex(got_hi.to_bits())), ("true_extreme", J::hex(want.hi.to_bits())), ("extreme_at", J::s(at_str(want.hi_at))), ("input", ctxj())]));
    }
}

fn box_component(bbox: &[u64], t: i32, k: usize) -> Option<(f64, f64)> {
    // D.bbox layout: xmin ymin xmax ymax [zmin zmax] [mmin mmax]
    let f = |i: usize| bbox.get(i).map(|b| f64::from_bits(*b));
    match k {
        0 => Some((f(0)?, f(2)?)),
        1 => Some((f(1)?, f(3)?)),
        2 => Some((f(4)?, f(5)?)),
        _ => {
            if gen::has_z(t) {
                Some((f(6)?, f(7)?))
            } else {
                Some((f(4)?, f(5)?))
            }
        }
    }
}

fn one_case(t: i32, i: usize, ctx: &Ctx, rep: &mut Report) {
    let case = format!("c05:t{}:i{}", t, i);
    if !ctx.want(&case) {
        return;
    }
    let mut r = Rng::derive(ctx.seed, &[tag("c05"), t as u64, i as u64]);
    // regimes: plain values / special-dense (no NaN) / all-equal extreme values (sentinel traps)
    let regime = i % 5;
    let c = Cfg {
        pool: if regime == 1 { Pool::Grid } else { Pool::Mixed },
        dens: match regime {
            2 => 0.3,
            3 => 1.0,
            _ => 0.0,
        },
        allow_inf: true,
        nan_zm: false,
        max_parts: ctx.pick(4, 8),
        max_len: ctx.pick(5, 12),
    };
    // every 7th file holds 9..40 records (periodic work per N records must not skip a box update)
    let n = if i % 7 == 6 && !cfg!(miri) { 9 + r.usize_in(0, 31) } else { r.usize_in(1, ctx.pick(5, 12)) };
    let mut inputs: Vec<Vec<(i32, Vec<V>)>> = (0..n).map(|_| gen_input(t, &mut r, &c)).collect();
    // every 9th case of the multi-part types: one shape with 17..40 parts
    if i % 9 == 4 && !gen::is_point(t) && !gen::is_multipoint(t) && !cfg!(miri) {
        let many = Cfg { max_parts: 40, ..c };
        let mut inp = gen_input(t, &mut r, &many);
        while inp.len() < 17 {
            inp.extend(gen_input(t, &mut r, &many));
        }
        let si = r.usize_in(0, inputs.len() - 1);
        inputs[si] = inp;
        rep.count("shapes_with_17_or_more_parts", 1);
    }
    // dedicated large cases: one shape gets a LATER part (or, for multipoints, its only part)
    // whose vertex count straddles a power of two, with an extreme forced into one of its last
    // or first four vertices (vectorised / chunked folds drop exactly those)
    let sizes = gen::threshold_sizes(ctx.thorough);
    let mut forced_large: Option<(usize, usize, usize)> = None;
    if !gen::is_point(t) && !cfg!(miri) && i >= 20 && i < 20 + 2 * sizes.len() {
        let sz = sizes[(i - 20) / 2] + (i % 2) * 2; // also sz + 2: remainders 1, 2, 3 modulo 4 all occur
        let si = r.usize_in(0, inputs.len() - 1);
        let big: Vec<V> = (0..sz).map(|_| [gen::coord(&mut r, &c, false).to_bits(), gen::coord(&mut r, &c, false).to_bits(), gen::coord(&mut r, &c, true).to_bits(), gen::coord(&mut r, &c, true).to_bits()]).collect();
        let kind = if t == 31 { r.below(2) as i32 } else { r.below(2) as i32 };
        // the large part is the last one or (every second large case) the FIRST one of its shape
        let first = (i / 2) % 2 == 1;
        if gen::is_multipoint(t) {
            inputs[si] = vec![(0, big)];
        } else if first {
            inputs[si].insert(0, (kind, big));
        } else {
            inputs[si].push((kind, big));
        }
        let pi = if first || gen::is_multipoint(t) { 0 } else { inputs[si].len() - 1 };
        forced_large = Some((si, pi, sz));
        rep.count("large_part_cases(amounts straddling powers of two)", 1);
    }
    // measures: half of the files keep every measure real data so the header M claim applies
    let real_m = r.chance(0.5);
    if real_m {
        for inp in inputs.iter_mut() {
            for (_, p) in inp.iter_mut() {
                for v in p.iter_mut() {
                    let m = f64::from_bits(v[3]);
                    if !(m > NO_DATA) {
                        v[3] = (m.abs().min(1e300)).to_bits();
                    }
                }
            }
        }
    }
    // force an extreme into a chosen position class
    let dims = used_dims(t);
    for _ in 0..r.usize_in(0, 2) {
        let k = *r.pick(&dims);
        let high = r.chance(0.5);
        let pick_idx = |r: &mut Rng, n: usize| match r.below(3) {
            0 => 0,
            1 => n - 1,
            _ => r.usize_in(0, n - 1),
        };
        let si = pick_idx(&mut r, inputs.len());
        let pi = pick_idx(&mut r, inputs[si].len());
        let vi = pick_idx(&mut r, inputs[si][pi].1.len());
        let mut val = extreme_value(&mut r, high);
        if k == 3 && real_m && !(val > NO_DATA) {
            val = 1e300;
        }
        inputs[si][pi].1[vi][k] = val.to_bits();
    }
    if let Some((si, pi, sz)) = forced_large {
        // the extreme goes to one of the last four / first four vertices of the large part
        let k = *r.pick(&dims);
        let high = r.chance(0.5);
        let j = r.usize_in(0, 3);
        let vi = if r.chance(0.75) { sz - 1 - j } else { j };
        let mut val = if high { 1e300 } else { -1e300 };
        if k == 3 && real_m && !(val > NO_DATA) {
            val = 1e300;
        }
        inputs[si][pi].1[vi][k] = val.to_bits();
    }
    if regime == 4 && forced_large.is_none() {
        // every value of one dimension is the same special value (the +inf / -inf / MAX traps)
        let k = *r.pick(&dims);
        let val = *r.pick(&[f64::INFINITY, f64::NEG_INFINITY, f64::MAX, f64::MIN, 0.0, -0.0, 1e300, -1e300]);
        if !(k == 3 && real_m && !(val > NO_DATA)) {
            for inp in inputs.iter_mut() {
                for (_, p) in inp.iter_mut() {
                    for v in p.iter_mut() {
                        v[k] = val.to_bits();
                    }
                }
            }
        }
    }

    // every 6th case of the ring / patch types: vertex-less rings / patches after the first one
    // (they contribute nothing to any box)
    if i % 6 == 5 && (gen::is_polygon(t) || t == 31) {
        for inp in inputs.iter_mut() {
            if r.chance(0.6) {
                let pos = r.usize_in(1, inp.len());
                let kind = if t == 31 { r.below(6) as i32 } else { r.below(2) as i32 };
                inp.insert(pos, (kind, vec![]));
                rep.count("shapes_with_a_vertexless_ring_or_patch", 1);
            }
        }
    }

    rep.eval();
    rep.class(&format!("{}:{}", type_name(t), ["plain", "grid", "special-0.3", "special-1.0", "one-dimension-constant"][regime]));
    let built = panicmon::catch(|| inputs.iter().map(|inp| build_from_parts(t, inp, r.chance(0.3))).collect::<Vec<Shape>>());
    let shapes = match built {
        Ok(s) => s,
        Err(p) => {
            rep.violation(&format!("ctor.panic/{}", type_name(t)), &case, J::s(p.class()));
            return;
        }
    };
    let dumps: Vec<D> = shapes.iter().map(|s| s.d()).collect();
    let input_json = || J::Arr(dumps.iter().map(|d| d.to_json()).collect());

    // ---- per shape: constructor's bbox() against the vertices the accessors return
    if !gen::is_point(t) {
        for (si, d) in dumps.iter().enumerate() {
            for &k in &dims {
                let want = fold(&[d], k).expect("harness: empty shape");
                let (lo, hi) = box_component(&d.bbox, t, k).expect("harness: bbox layout");
                cmp(rep, "ctor", t, k, lo, hi, &want, &format!("{}:s{}", case, si), &input_json);
                rep.count("ctor_box_components_checked", 2);
            }
        }
    }

    // ---- write, then look at the bytes
    let mut shp = Cursor::new(Vec::new());
    let mut shx = Cursor::new(Vec::new());
    let mut dbf = Cursor::new(Vec::new());
    // writing routes rotate: write_shape + finalize / bulk write_shapes (drop) / complete Writer
    let route = (i / 5) % 3;
    rep.count(["written_through:ShapeWriter::write_shape", "written_through:ShapeWriter::write_shapes(bulk)", "written_through:Writer::write_shape_and_record"][route], 1);
    let wrote = panicmon::catch(|| -> Result<(), Error> {
        match route {
            0 => {
                let mut w = ShapeWriter::new(&mut shp);
                if i % 4 == 3 {
                    w.finalize()?; // a finalize before the first write: the running box starts from its initial state all the same
                }
                for (k, s) in shapes.iter().enumerate() {
                    write_one(&mut w, s)?;
                    // every second file of this route: a finalize between two writes as well
                    if i % 2 == 1 && k + 1 == (shapes.len() + 1) / 2 && k + 1 < shapes.len() {
                        w.finalize()?;
                    }
                }
                w.finalize()
            }
            1 => {
                let w = ShapeWriter::with_shx(&mut shp, &mut shx);
                for_type!(t, T => {
                    let typed: Vec<T> = shapes.iter().map(|s| T::try_from(crate::shapes::clone_shape(s)).ok().expect("harness: type table")).collect();
                    w.write_shapes(&typed)
                })
            }
            _ => {
                let mut w = Writer::new(ShapeWriter::with_shx(&mut shp, &mut shx), crate::e_c10::table_builder().build_with_dest(&mut dbf));
                for (k, s) in shapes.iter().enumerate() {
                    with_concrete!(s, x => w.write_shape_and_record(x, &crate::e_c10::row(k)))?;
                }
                Ok(())
            }
        }
    });
    match wrote {
        Ok(Ok(())) => {}
        Ok(Err(e)) => {
            rep.violation(&format!("write.error/{}", type_name(t)), &case, J::s(crate::shapes::err_class(&e)));
            return;
        }
        Err(p) => {
            rep.violation(&format!("write.panic/{}", type_name(t)), &case, J::s(p.class()));
            return;
        }
    }
    let bytes = shp.into_inner();
    let recs = rawshp::walk(&bytes);
    if recs.len() != shapes.len() {
        rep.violation(&format!("record.count/{}", type_name(t)), &case, J::obj(vec![("records_found", J::UInt(recs.len() as u64)), ("written", J::UInt(shapes.len() as u64))]));
        return;
    }
    if !gen::is_point(t) {
        for (si, (d, rec)) in dumps.iter().zip(&recs).enumerate() {
            for &k in &dims {
                let want = fold(&[d], k).unwrap();
                let stored = match k {
                    0 => rec.bbox.map(|b| (b[0], b[2])),
                    1 => rec.bbox.map(|b| (b[1], b[3])),
                    2 => rec.zr.map(|z| (z[0], z[1])),
                    _ => rec.mr.map(|m| (m[0], m[1])),
                };
                match stored {
                    Some((lo, hi)) => {
                        cmp(rep, "record", t, k, f64::from_bits(lo), f64::from_bits(hi), &want, &format!("{}:s{}", case, si), &input_json);
                        rep.count("record_box_components_checked", 2);
                    }
                    None => rep.violation(&format!("record.layout/{}", type_name(t)), &case, J::s("record lacks the range block")),
                }
            }
        }
    }

    // ---- header: raw bytes 36..100 and the reader's view must agree and be exact
    let hb = rawshp::header_box(&bytes).expect("harness: short header");
    let rd = ShapeReader::new(Cursor::new(bytes.clone()));
    let via_reader: Option<[u64; 8]> = rd.ok().map(|r| {
        let b = r.header().bbox;
        [b.min.x.to_bits(), b.min.y.to_bits(), b.max.x.to_bits(), b.max.y.to_bits(), b.min.z.to_bits(), b.max.z.to_bits(), b.min.m.to_bits(), b.max.m.to_bits()]
    });
    if via_reader != Some(hb) {
        rep.violation(&format!("header.reader-view/{}", type_name(t)), &case, J::obj(vec![("bytes", J::Arr(hb.iter().map(|b| J::hex(*b)).collect()))]));
    }
    let all: Vec<&D> = dumps.iter().collect();
    let hdr = |k: usize| -> (f64, f64) {
        match k {
            0 => (f64::from_bits(hb[0]), f64::from_bits(hb[2])),
            1 => (f64::from_bits(hb[1]), f64::from_bits(hb[3])),
            2 => (f64::from_bits(hb[4]), f64::from_bits(hb[5])),
            _ => (f64::from_bits(hb[6]), f64::from_bits(hb[7])),
        }
    };
    let lo_at;
    {
        let wx = fold(&all, 0).unwrap();
        lo_at = wx.lo_at;
        for k in [0usize, 1] {
            let want = fold(&all, k).unwrap();
            let (lo, hi) = hdr(k);
            cmp(rep, "header", t, k, lo, hi, &want, &case, &input_json);
            rep.count("header_box_components_checked", 2);
        }
    }
    // Z: the four Z types and multipatch carry it; all others must store 0
    if gen::has_z(t) {
        let want = fold(&all, 2).unwrap();
        let (lo, hi) = hdr(2);
        cmp(rep, "header", t, 2, lo, hi, &want, &case, &input_json);
        rep.count("header_box_components_checked", 2);
    } else {
        let (lo, hi) = hdr(2);
        if lo != 0.0 || hi != 0.0 {
            rep.violation(&format!("header.absent-dimension.z/{}", type_name(t)), &case, J::obj(vec![("zmin", J::hex(lo.to_bits())), ("zmax", J::hex(hi.to_bits()))]));
        }
        rep.count("header_absent_dimension_checked", 1);
    }
    // M: measured and Z-typed files in which every measure is real data; no claim for multipatch
    let table_has_m = matches!(t, 21 | 23 | 25 | 28 | 11 | 13 | 15 | 18);
    if table_has_m {
        let every_real = dumps.iter().all(|d| d.parts.iter().flatten().all(|v| f64::from_bits(v[3]) > NO_DATA));
        if every_real {
            let want = fold(&all, 3).unwrap();
            let (lo, hi) = hdr(3);
            cmp(rep, "header", t, 3, lo, hi, &want, &case, &input_json);
            rep.count("header_m_checked(all-real-measures)", 1);
        } else {
            rep.count("header_m_not_claimed(no-data present)", 1);
        }
    } else if t != 31 {
        let (lo, hi) = hdr(3);
        if lo != 0.0 || hi != 0.0 {
            rep.violation(&format!("header.absent-dimension.m/{}", type_name(t)), &case, J::obj(vec![("mmin", J::hex(lo.to_bits())), ("mmax", J::hex(hi.to_bits()))]));
        }
        rep.count("header_absent_dimension_checked", 1);
    }
    // ---- a write that fails before any byte of its record reached the file (seeded change
    // C05-r10): the call returns the error, the caller keeps writing, and the file holds the other
    // shapes only, so its header box is theirs alone. Judged only when an independent walk of the
    // bytes finds exactly the shapes whose writes succeeded (anything else belongs to C12).
    if i % 3 == 1 {
        let j = r.usize_in(0, shapes.len());
        let mut far = inputs[r.usize_in(0, inputs.len() - 1)].clone();
        let sign = if r.chance(0.5) { 1.0f64 } else { -1.0 };
        if let Some(v) = far[0].1.first_mut() {
            for &k in &dims {
                v[k] = (if k == 3 { 1e305 } else { sign * 1e305 }).to_bits();
            }
        }
        let dest = crate::iomon::Dest::new();
        let ran = panicmon::catch(|| -> Option<Vec<u8>> {
            let far_shape = build_from_parts(t, &far, false);
            let mut w = ShapeWriter::new(dest.clone());
            for s in &shapes[..j] {
                write_one(&mut w, s).ok()?;
            }
            {
                let mut st = dest.0.borrow_mut();
                let at = st.attempts;
                st.fault = crate::iomon::FaultPlan { at: Some(at), ..Default::default() };
            }
            if write_one(&mut w, &far_shape).is_ok() {
                return None;
            }
            for s in &shapes[j..] {
                write_one(&mut w, s).ok()?;
            }
            w.finalize().ok()?;
            drop(w);
            Some(dest.data())
        });
        match ran {
            Ok(Some(b)) if rawshp::walk(&b).len() == shapes.len() && rawshp::header_box(&b).is_some() => {
                let hb2 = rawshp::header_box(&b).unwrap();
                let every_real = dumps.iter().all(|d| d.parts.iter().flatten().all(|v| f64::from_bits(v[3]) > NO_DATA));
                for &k in &dims {
                    if (k == 2 && !gen::has_z(t)) || (k == 3 && !(table_has_m && every_real)) {
                        continue;
                    }
                    let (lo, hi) = match k {
                        0 => (f64::from_bits(hb2[0]), f64::from_bits(hb2[2])),
                        1 => (f64::from_bits(hb2[1]), f64::from_bits(hb2[3])),
                        2 => (f64::from_bits(hb2[4]), f64::from_bits(hb2[5])),
                        _ => (f64::from_bits(hb2[6]), f64::from_bits(hb2[7])),
                    };
                    let want = fold(&all, k).unwrap();
                    cmp(rep, "header-after-a-write-that-failed-before-its-first-byte", t, k, lo, hi, &want, &case, &input_json);
                    rep.count("header_components_checked_after_a_failed_write", 2);
                }
                rep.count("failed_write_histories_judged", 1);
            }
            Ok(Some(b)) => {
                rep.count(if j == 0 { "failed_write_histories_not_judged(the failure hit the very first operation of the writer; file does not hold exactly the accepted shapes)" } else { "failed_write_histories_not_judged(file does not hold exactly the accepted shapes)" }, 1);
                let _ = b;
            }
            Ok(None) => rep.count("failed_write_histories_not_judged(an accepted write or the finalize reported an error, or the planned failure was not reported)", 1),
            Err(_) => rep.count("failed_write_histories_not_judged(panic; C12 judges those)", 1),
        }
    }
    rep.nontrivial(&format!("{}:{}:{}:{}:{}", t, n, at_str(lo_at), regime, dumps.iter().map(|d| d.npoints()).sum::<usize>()));
    rep.class(&format!("xmin-at:{}", at_str(lo_at)));
    rep.sample(|| J::obj(vec![("case", J::s(case.clone())), ("shapes", J::UInt(n as u64)), ("header_box_bits", J::Arr(hb.iter().map(|b| J::hex(*b)).collect())), ("first_shape", dumps[0].to_json())]));
}

pub fn run(ctx: &Ctx) -> Report {
    let n = if cfg!(miri) { 3 } else { ctx.pick(2_000, 60_000) };
    let mut rep = par(ctx, TYPES.len() * n, |idx, rep| one_case(TYPES[idx / n], idx % n, ctx, rep));
    // ---- shapes built by the geo-types constructors carry the box of their own vertices too
    if !cfg!(miri) {
        use geo_types as g;
        for i in 0..ctx.pick(400, 4000) {
            let case = format!("c05:geo-constructor:i{}", i);
            if !ctx.want(&case) {
                continue;
            }
            let mut r = Rng::derive(ctx.seed, &[tag("c05-geo"), i as u64]);
            let cfg = Cfg { pool: Pool::Mixed, dens: if i % 3 == 0 { 0.3 } else { 0.0 }, allow_inf: true, nan_zm: false, max_parts: 4, max_len: 8 };
            let mut co = |r: &mut Rng| g::Coord { x: gen::coord(r, &cfg, false), y: gen::coord(r, &cfg, false) };
            let line = |r: &mut Rng, co: &mut dyn FnMut(&mut Rng) -> g::Coord<f64>| g::LineString((0..r.usize_in(2, 8)).map(|_| co(r)).collect::<Vec<_>>());
            let built: Vec<(&str, Shape)> = match i % 5 {
                0 => {
                    let l = g::Line::new(co(&mut r), co(&mut r));
                    vec![("Polyline::from(Line)", Shape::Polyline(Polyline::from(l))), ("PolylineM::from(Line)", Shape::PolylineM(PolylineM::from(l))), ("PolylineZ::from(Line)", Shape::PolylineZ(PolylineZ::from(l)))]
                }
                1 => {
                    let l = line(&mut r, &mut co);
                    vec![("Polyline::from(LineString)", Shape::Polyline(Polyline::from(l.clone()))), ("PolylineZ::from(LineString)", Shape::PolylineZ(PolylineZ::from(l)))]
                }
                2 => {
                    let ml = g::MultiLineString((0..r.usize_in(1, 4)).map(|_| line(&mut r, &mut co)).collect::<Vec<_>>());
                    vec![("Polyline::from(MultiLineString)", Shape::Polyline(Polyline::from(ml.clone()))), ("PolylineM::from(MultiLineString)", Shape::PolylineM(PolylineM::from(ml)))]
                }
                3 => {
                    let mp = g::MultiPoint((0..r.usize_in(1, 8)).map(|_| g::Point(co(&mut r))).collect::<Vec<_>>());
                    vec![("Multipoint::from(MultiPoint)", Shape::Multipoint(Multipoint::from(mp.clone()))), ("MultipointZ::from(MultiPoint)", Shape::MultipointZ(MultipointZ::from(mp)))]
                }
                _ => {
                    let ext = line(&mut r, &mut co);
                    let holes: Vec<g::LineString<f64>> = (0..r.usize_in(0, 2)).map(|_| line(&mut r, &mut co)).collect();
                    let p = g::Polygon::new(ext, holes);
                    vec![("Polygon::from(geo Polygon)", Shape::Polygon(Polygon::from(p.clone()))), ("PolygonZ::from(geo Polygon)", Shape::PolygonZ(PolygonZ::from(p)))]
                }
            };
            for (name, s) in built {
                let d = s.d();
                rep.eval();
                rep.count("geo_types_constructors_checked", 1);
                for k in [0usize, 1] {
                    if let (Some(want), Some((lo, hi))) = (fold(&[&d], k), box_component(&d.bbox, d.ty, k)) {
                        cmp(&mut rep, &format!("ctor[{}]", name), d.ty, k, lo, hi, &want, &case, &|| d.to_json());
                    }
                }
            }
        }
    }
    if ctx.only.is_none() {
        let h = rep.counters.get("header_box_components_checked").copied().unwrap_or(0);
        rep.guard("header components checked", h, (TYPES.len() * n) as u64);
        let m = rep.counters.get("header_m_checked(all-real-measures)").copied().unwrap_or(0);
        rep.guard("header M checked on all-real-measure files", m, if cfg!(miri) { 1 } else { 50 });
        let f = rep.counters.get("failed_write_histories_judged").copied().unwrap_or(0);
        rep.guard("histories with a failed write judged", f, if cfg!(miri) { 1 } else { 100 });
    }
    rep
}
