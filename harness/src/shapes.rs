//! Glue over the 13 concrete shape types: dispatch from a type code to the Rust type,
//! writing a generic `Shape` through the typed `write_shape`, and the harness's own table of
//! (variant, concrete type, code).

use shapefile::record::EsriShape;
use shapefile::*;
use std::io::{Seek, Write};

/// `for_type!(code, T => expr)`: evaluate `expr` with `T` bound to the concrete shape type
/// of the ESRI code (harness table, not the library's).
#[macro_export]
macro_rules! for_type {
    ($code:expr, $T:ident => $body:expr) => {
        match $code {
            1 => { type $T = shapefile::Point; $body }
            21 => { type $T = shapefile::PointM; $body }
            11 => { type $T = shapefile::PointZ; $body }
            8 => { type $T = shapefile::Multipoint; $body }
            28 => { type $T = shapefile::MultipointM; $body }
            18 => { type $T = shapefile::MultipointZ; $body }
            3 => { type $T = shapefile::Polyline; $body }
            23 => { type $T = shapefile::PolylineM; $body }
            13 => { type $T = shapefile::PolylineZ; $body }
            5 => { type $T = shapefile::Polygon; $body }
            25 => { type $T = shapefile::PolygonM; $body }
            15 => { type $T = shapefile::PolygonZ; $body }
            31 => { type $T = shapefile::Multipatch; $body }
            c => panic!("harness: for_type on code {}", c),
        }
    };
}

/// `with_concrete!(shape, s => expr)`: evaluate `expr` with `s` bound to the concrete value
/// inside a generic `Shape` (NullShape is not accepted).
#[macro_export]
macro_rules! with_concrete {
    ($shape:expr, $s:ident => $body:expr) => {
        match $shape {
            shapefile::Shape::Point($s) => $body,
            shapefile::Shape::PointM($s) => $body,
            shapefile::Shape::PointZ($s) => $body,
            shapefile::Shape::Multipoint($s) => $body,
            shapefile::Shape::MultipointM($s) => $body,
            shapefile::Shape::MultipointZ($s) => $body,
            shapefile::Shape::Polyline($s) => $body,
            shapefile::Shape::PolylineM($s) => $body,
            shapefile::Shape::PolylineZ($s) => $body,
            shapefile::Shape::Polygon($s) => $body,
            shapefile::Shape::PolygonM($s) => $body,
            shapefile::Shape::PolygonZ($s) => $body,
            shapefile::Shape::Multipatch($s) => $body,
            shapefile::Shape::NullShape => panic!("harness: with_concrete on NullShape"),
        }
    };
}

use crate::dump::V;

pub fn to_p2(v: &V) -> Point {
    Point::new(f64::from_bits(v[0]), f64::from_bits(v[1]))
}
pub fn to_pm(v: &V) -> PointM {
    PointM::new(f64::from_bits(v[0]), f64::from_bits(v[1]), f64::from_bits(v[3]))
}
pub fn to_pz(v: &V) -> PointZ {
    PointZ::new(f64::from_bits(v[0]), f64::from_bits(v[1]), f64::from_bits(v[2]), f64::from_bits(v[3]))
}

fn ring<T>(role: i32, pts: Vec<T>) -> PolygonRing<T> {
    if role == 0 {
        PolygonRing::Outer(pts)
    } else {
        PolygonRing::Inner(pts)
    }
}

fn patch(kind: i32, pts: Vec<PointZ>) -> Patch {
    match kind {
        0 => Patch::TriangleStrip(pts),
        1 => Patch::TriangleFan(pts),
        2 => Patch::OuterRing(pts),
        3 => Patch::InnerRing(pts),
        4 => Patch::FirstRing(pts),
        _ => Patch::Ring(pts),
    }
}

/// Build a shape of type `ty` from vertex lists through the public constructors. `input` is
/// one (kind, vertices) pair per part: kind = ring role (0 outer / 1 inner) for polygons,
/// patch kind 0..5 for multipatch, ignored otherwise. `use_new` selects the single-part
/// constructor (`new`) when there is exactly one ring/patch.
pub fn build_from_parts(ty: i32, input: &[(i32, Vec<V>)], use_new: bool) -> Shape {
    let single = input.len() == 1 && use_new;
    match ty {
        5 => {
            let rs: Vec<PolygonRing<Point>> = input.iter().map(|(k, v)| ring(*k, v.iter().map(to_p2).collect())).collect();
            Shape::Polygon(if single { Polygon::new(rs.into_iter().next().unwrap()) } else { Polygon::with_rings(rs) })
        }
        25 => {
            let rs: Vec<PolygonRing<PointM>> = input.iter().map(|(k, v)| ring(*k, v.iter().map(to_pm).collect())).collect();
            Shape::PolygonM(if single { PolygonM::new(rs.into_iter().next().unwrap()) } else { PolygonM::with_rings(rs) })
        }
        15 => {
            let rs: Vec<PolygonRing<PointZ>> = input.iter().map(|(k, v)| ring(*k, v.iter().map(to_pz).collect())).collect();
            Shape::PolygonZ(if single { PolygonZ::new(rs.into_iter().next().unwrap()) } else { PolygonZ::with_rings(rs) })
        }
        31 => {
            let ps: Vec<Patch> = input.iter().map(|(k, v)| patch(*k, v.iter().map(to_pz).collect())).collect();
            Shape::Multipatch(if single { Multipatch::new(ps.into_iter().next().unwrap()) } else { Multipatch::with_parts(ps) })
        }
        // `use_new`: the single-part constructor of the polylines, the `From<Vec<_>>` one of the multipoints
        3 if single => Shape::Polyline(Polyline::new(input[0].1.iter().map(to_p2).collect())),
        23 if single => Shape::PolylineM(PolylineM::new(input[0].1.iter().map(to_pm).collect())),
        13 if single => Shape::PolylineZ(PolylineZ::new(input[0].1.iter().map(to_pz).collect())),
        3 => Shape::Polyline(Polyline::with_parts(input.iter().map(|(_, v)| v.iter().map(to_p2).collect()).collect())),
        23 => Shape::PolylineM(PolylineM::with_parts(input.iter().map(|(_, v)| v.iter().map(to_pm).collect()).collect())),
        13 => Shape::PolylineZ(PolylineZ::with_parts(input.iter().map(|(_, v)| v.iter().map(to_pz).collect()).collect())),
        8 if use_new => Shape::Multipoint(Multipoint::from(input[0].1.iter().map(to_p2).collect::<Vec<_>>())),
        28 if use_new => Shape::MultipointM(MultipointM::from(input[0].1.iter().map(to_pm).collect::<Vec<_>>())),
        18 if use_new => Shape::MultipointZ(MultipointZ::from(input[0].1.iter().map(to_pz).collect::<Vec<_>>())),
        8 => Shape::Multipoint(Multipoint::new(input[0].1.iter().map(to_p2).collect())),
        28 => Shape::MultipointM(MultipointM::new(input[0].1.iter().map(to_pm).collect())),
        18 => Shape::MultipointZ(MultipointZ::new(input[0].1.iter().map(to_pz).collect())),
        1 => Shape::Point(to_p2(&input[0].1[0])),
        21 => Shape::PointM(to_pm(&input[0].1[0])),
        11 => Shape::PointZ(to_pz(&input[0].1[0])),
        _ => panic!("harness: build_from_parts({})", ty),
    }
}

/// The same shape with every measure replaced by `m` (rebuilt through the public
/// constructors from its own parts; types without measures are returned unchanged).
/// Workloads use it for the "all measures are NO_DATA / NaN / -inf" regimes, which random
/// generation practically never produces for a whole shape.
pub fn with_uniform_measure(s: &Shape, m: f64) -> Shape {
    use crate::dump::Dump;
    let d = s.d();
    if !crate::gen::carries_m(d.ty) {
        return clone_shape(s);
    }
    let input: Vec<(i32, Vec<V>)> = d
        .parts
        .iter()
        .enumerate()
        .map(|(i, p)| (d.kinds.get(i).copied().unwrap_or(0), p.iter().map(|v| [v[0], v[1], v[2], m.to_bits()]).collect()))
        .collect();
    build_from_parts(d.ty, &input, false)
}

/// The same shape with every Z replaced by `z` and every measure by `m` (where the type has them).
pub fn with_uniform_z_m(s: &Shape, z: f64, m: f64) -> Shape {
    use crate::dump::Dump;
    let d = s.d();
    let input: Vec<(i32, Vec<V>)> = d
        .parts
        .iter()
        .enumerate()
        .map(|(i, p)| (d.kinds.get(i).copied().unwrap_or(0), p.iter().map(|v| [v[0], v[1], z.to_bits(), m.to_bits()]).collect()))
        .collect();
    build_from_parts(d.ty, &input, false)
}

/// The same shape with a few vertices whose X and/or Y are NaN (rebuilt through the public
/// constructors). `mode` 0: x and y both NaN, 1: x only, 2: y only.
pub fn with_nan_xy(s: &Shape, every: usize, mode: u8) -> Shape {
    use crate::dump::Dump;
    let d = s.d();
    let nan = f64::NAN.to_bits();
    let mut k = 0usize;
    let input: Vec<(i32, Vec<V>)> = d
        .parts
        .iter()
        .enumerate()
        .map(|(i, p)| {
            let pts = p
                .iter()
                .map(|v| {
                    k += 1;
                    if k % every.max(1) == 0 {
                        [if mode != 2 { nan } else { v[0] }, if mode != 1 { nan } else { v[1] }, v[2], v[3]]
                    } else {
                        *v
                    }
                })
                .collect();
            (d.kinds.get(i).copied().unwrap_or(0), pts)
        })
        .collect();
    build_from_parts(d.ty, &input, false)
}

pub fn write_one<W: Write + Seek>(w: &mut ShapeWriter<W>, s: &Shape) -> Result<(), Error> {
    with_concrete!(s, x => w.write_shape(x))
}

pub fn clone_shape(s: &Shape) -> Shape {
    match s {
        Shape::NullShape => Shape::NullShape,
        _ => with_concrete!(s, x => Shape::from(x.clone())),
    }
}

/// Write `shapes` (all of one type) with a fresh writer on in-memory cursors; returns
/// (.shp bytes, .shx bytes). Ending: drop (finalize = false) or explicit finalize then drop.
pub fn write_all_mem(shapes: &[Shape], finalize: bool) -> Result<(Vec<u8>, Vec<u8>), Error> {
    let mut shp = std::io::Cursor::new(Vec::new());
    let mut shx = std::io::Cursor::new(Vec::new());
    {
        let mut w = ShapeWriter::with_shx(&mut shp, &mut shx);
        for s in shapes {
            write_one(&mut w, s)?;
        }
        if finalize {
            w.finalize()?;
        }
    }
    Ok((shp.into_inner(), shx.into_inner()))
}

pub fn err_class(e: &Error) -> String {
    match e {
        Error::IoError(io) => format!("IoError({:?})", io.kind()),
        Error::InvalidFileCode(_) => "InvalidFileCode".into(),
        Error::InvalidShapeType(c) => format!("InvalidShapeType({})", c),
        Error::InvalidPatchType(_) => "InvalidPatchType".into(),
        Error::MismatchShapeType { requested, actual } => format!("Mismatch(req={},act={})", requested, actual),
        Error::InvalidShapeRecordSize => "InvalidShapeRecordSize".into(),
        Error::DbaseError(_) => "DbaseError".into(),
        Error::MissingDbf => "MissingDbf".into(),
        Error::MissingIndexFile => "MissingIndexFile".into(),
    }
}

pub fn x_range_of<S: EsriShape>(s: &S) -> [f64; 2] {
    s.x_range()
}
