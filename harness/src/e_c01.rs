//! C01 — write-then-read round trip preserves every shape exactly.
//!
//! Differential against the *input*: the expected dump is the dump of the shape handed to the
//! writer with the measure normalisation the property states. Ring-role changes are not
//! judged here (they need exact arithmetic on arbitrary doubles): they are logged as pending
//! observations for `monitors/check_c01.py`.

use crate::dump::{first_diff, ring_json, role_mismatches, Dump, D};
use crate::gen::{self, type_name, Cfg, Pool, TYPES};
use crate::json::J;
use crate::panicmon;
use crate::report::{par, Ctx, Report};
use crate::rng::{tag, Rng};
use crate::shapes::{err_class, write_one};
use shapefile::*;
use std::collections::BTreeMap;
use std::convert::TryFrom;
use std::io::Cursor;

/// What one reading route returned: the dumps of the Ok items, or the failure.
type RouteOut = Result<Vec<D>, String>;

fn collect<S: Dump, I: Iterator<Item = Result<S, Error>>>(it: I, cap: usize) -> RouteOut {
    let mut v = vec![];
    for (i, x) in it.enumerate() {
        if i > cap {
            return Err("iterator yields more items than were written".into());
        }
        match x {
            Ok(s) => v.push(s.d()),
            Err(e) => return Err(format!("item {}: {}", i, err_class(&e))),
        }
    }
    Ok(v)
}

fn nth_all<S: Dump>(n: usize, mut f: impl FnMut(usize) -> Option<Result<S, Error>>) -> RouteOut {
    let mut v = vec![];
    for i in 0..n {
        match f(i) {
            Some(Ok(s)) => v.push(s.d()),
            Some(Err(e)) => return Err(format!("nth({}): {}", i, err_class(&e))),
            None => return Err(format!("nth({}): None", i)),
        }
    }
    if let Some(extra) = f(n) {
        return Err(format!("nth({}) past the end: {}", n, if extra.is_ok() { "Some(Ok)" } else { "Some(Err)" }));
    }
    Ok(v)
}

fn cursor_routes<S: ReadableShape + Dump>(prefix: &str, shp: &[u8], shx: &[u8], n: usize) -> Vec<(String, RouteOut)> {
    let c = |b: &[u8]| Cursor::new(b.to_vec());
    let e = |x: Error| err_class(&x);
    let mut out = vec![];
    out.push((
        format!("{}/seq/noidx/cursor", prefix),
        ShapeReader::new(c(shp)).map_err(e).and_then(|mut r| collect(r.iter_shapes_as::<S>(), n)),
    ));
    out.push((
        format!("{}/seq/idx/cursor", prefix),
        ShapeReader::with_shx(c(shp), c(shx)).map_err(e).and_then(|mut r| collect(r.iter_shapes_as::<S>(), n)),
    ));
    out.push((
        format!("{}/nth/idx/cursor", prefix),
        ShapeReader::with_shx(c(shp), c(shx)).map_err(e).and_then(|mut r| nth_all(n, |i| r.read_nth_shape_as::<S>(i))),
    ));
    out.push((
        format!("{}/all/noidx/cursor", prefix),
        ShapeReader::new(c(shp)).map_err(e).and_then(|r| r.read_as::<S>().map(|v| v.iter().map(|s| s.d()).collect()).map_err(e)),
    ));
    if prefix == "generic" {
        // the untyped methods themselves (the `_as::<Shape>` variants above share most, not all, of their code)
        out.push((
            "untyped/nth/idx/cursor".to_string(),
            ShapeReader::with_shx(c(shp), c(shx)).map_err(e).and_then(|mut r| nth_all(n, |i| r.read_nth_shape(i))),
        ));
        out.push((
            "untyped/seq/idx/cursor".to_string(),
            ShapeReader::with_shx(c(shp), c(shx)).map_err(e).and_then(|mut r| collect(r.iter_shapes(), n)),
        ));
        out.push((
            "untyped/all/idx/cursor".to_string(),
            ShapeReader::with_shx(c(shp), c(shx)).map_err(e).and_then(|r| r.read().map(|v| v.iter().map(|s| s.d()).collect()).map_err(e)),
        ));
    }
    // the same bytes through sources that hand out a few bytes per read call (a pipe, a socket) and
    // through a BufReader whose capacity is no multiple of anything in the format
    let k = [1usize, 3, 7, 8, 13, 100][shp.len() % 6];
    let short = |b: &[u8]| crate::iomon::Src::chunked(b.to_vec(), crate::iomon::Chunking::Fixed(k));
    out.push((
        format!("{}/seq/idx/short-reads", prefix),
        ShapeReader::with_shx(short(shp), short(shx)).map_err(e).and_then(|mut r| collect(r.iter_shapes_as::<S>(), n)),
    ));
    out.push((
        format!("{}/nth/idx/short-reads", prefix),
        ShapeReader::with_shx(short(shp), short(shx)).map_err(e).and_then(|mut r| nth_all(n, |i| r.read_nth_shape_as::<S>(i))),
    ));
    out.push((
        format!("{}/seq/noidx/bufreader37", prefix),
        ShapeReader::new(std::io::BufReader::with_capacity(37, c(shp))).map_err(e).and_then(|mut r| collect(r.iter_shapes_as::<S>(), n)),
    ));
    out.push((
        format!("{}/nth/idx/bufreader8191", prefix),
        ShapeReader::with_shx(std::io::BufReader::with_capacity(8191, c(shp)), c(shx)).map_err(e).and_then(|mut r| nth_all(n, |i| r.read_nth_shape_as::<S>(i))),
    ));
    // both reading routes of the property on ONE reader: every record by index, then all of them in sequence
    out.push((
        format!("{}/nth-then-seq/idx/cursor", prefix),
        ShapeReader::with_shx(c(shp), c(shx)).map_err(e).and_then(|mut r| {
            nth_all(n, |i| r.read_nth_shape_as::<S>(i))?;
            collect(r.iter_shapes_as::<S>(), n)
        }),
    ));
    out.push((
        format!("{}/all/idx/cursor", prefix),
        ShapeReader::with_shx(c(shp), c(shx)).map_err(e).and_then(|r| r.read_as::<S>().map(|v| v.iter().map(|s| s.d()).collect()).map_err(e)),
    ));
    out
}

fn path_routes<S: ReadableShape + Dump>(prefix: &str, path: &str, n: usize, with_shx: bool) -> Vec<(String, RouteOut)> {
    let e = |x: Error| err_class(&x);
    let idx = if with_shx { "idx" } else { "noidx" };
    let mut out = vec![];
    out.push((
        format!("{}/seq/{}/path", prefix, idx),
        ShapeReader::from_path(path).map_err(e).and_then(|mut r| collect(r.iter_shapes_as::<S>(), n)),
    ));
    if with_shx {
        out.push((
            format!("{}/nth/idx/path", prefix),
            ShapeReader::from_path(path).map_err(e).and_then(|mut r| nth_all(n, |i| r.read_nth_shape_as::<S>(i))),
        ));
    }
    out.push((
        format!("{}/all/{}/path", prefix, idx),
        shapefile::read_shapes_as::<_, S>(path).map(|v| v.iter().map(|s| s.d()).collect()).map_err(e),
    ));
    if prefix == "generic" {
        out.push((format!("untyped/all/{}/path", idx), shapefile::read_shapes(path).map(|v| v.iter().map(|s| s.d()).collect()).map_err(e)));
    }
    out
}

/// The input of the known finding `role-flip:f64-sign-lost`, part of the deterministic core:
/// a rectangle 1.2e308 wide and 0.2e308 high declared Inner. The f64 shoelace sum is NaN
/// (0 * inf), so no vertex order makes the library's orientation test answer "inner".
fn sign_lost_polygon(t: i32) -> Shape {
    let pts = [(0.0, 1.2e308), (1.2e308, 1.2e308), (1.2e308, 1.0e308), (0.0, 1.0e308)];
    match t {
        5 => Shape::Polygon(Polygon::with_rings(vec![
            PolygonRing::Outer(vec![Point::new(0.0, 0.0), Point::new(0.0, 4.0), Point::new(4.0, 4.0), Point::new(4.0, 0.0)]),
            PolygonRing::Inner(pts.iter().map(|p| Point::new(p.0, p.1)).collect()),
        ])),
        25 => Shape::PolygonM(PolygonM::with_rings(vec![PolygonRing::Inner(pts.iter().map(|p| PointM::new(p.0, p.1, 1.0)).collect())])),
        _ => Shape::PolygonZ(PolygonZ::with_rings(vec![PolygonRing::Inner(pts.iter().map(|p| PointZ::new(p.0, p.1, 2.0, 1.0)).collect())])),
    }
}

fn one_case(t: i32, i: usize, ctx: &Ctx, rep: &mut Report, dir: &str) {
    let case = format!("c01:t{}:i{}", t, i);
    if !ctx.want(&case) {
        return;
    }
    let mut r = Rng::derive(ctx.seed, &[tag("c01"), t as u64, i as u64]);
    let dens = [0.0, 0.2, 1.0, 0.0, 0.5][i % 5];
    let big = ctx.thorough && i % 997 == 5 && !cfg!(miri);
    let c = Cfg {
        pool: if i % 5 == 3 { Pool::Exact } else { Pool::Mixed },
        dens,
        allow_inf: true,
        nan_zm: true,
        // Miri interprets ~10^4 times slower: small shapes there
        max_parts: if cfg!(miri) { 3 } else if big { 30 } else { ctx.pick(4, 12) },
        max_len: if cfg!(miri) { 4 } else if big { 400 } else { ctx.pick(5, 40) },
    };
    let max_n = if cfg!(miri) { 3 } else { ctx.pick(5, 40) };
    let sizes = gen::threshold_sizes(ctx.thorough);
    let large: Option<usize> = if !cfg!(miri) && i >= 10 && i < 10 + sizes.len() && i % 3 == (t as usize) % 3 { Some(sizes[i - 10]) } else { None };
    let mut shapes = match large {
        // a file with `sz` records (point types) / a shape with `sz` points and one with many parts
        Some(sz) if gen::is_point(t) => (0..sz).map(|_| gen::shape(t, &mut r, &Cfg::plain(1, 1))).collect(),
        Some(sz) => {
            // a long part whose Z / M values are special (no-data, NaN, infinities), a shape with many
            // parts, and for the largest sizes one with more than 4096 parts of two vertices
            let hostile_zm = Cfg { dens: 0.5, ..Cfg::hostile(0.5, 1, 2) };
            let mut v = vec![gen::shape_exact(t, &mut r, &if i % 2 == 0 { hostile_zm } else { Cfg::plain(1, 2) }, 1, sz), gen::shape_exact(t, &mut r, &Cfg::plain(1, 2), if gen::is_multipoint(t) { 1 } else { sz / 3 }, 3)];
            if !gen::is_multipoint(t) && sz >= 4000 {
                v.push(gen::shape_exact(t, &mut r, &Cfg::plain(1, 2), sz + 7, 2));
            }
            v
        }
        None => gen::sequence(t, &mut r, &c, 1, if big { 3 } else { max_n }, i as u64),
    };
    if large.is_some() {
        rep.count("large_cases(amounts straddling powers of two)", 1);
    }
    // one record well beyond 16 MiB (the format allows records of up to 2^31 words): a
    // multipoint of 1.1 million points; thorough adds a 2.2 million point one and a big PolylineZ
    let huge: Option<usize> = if cfg!(miri) {
        None
    } else if t == 8 && i == 9 {
        Some(1_100_000)
    } else if ctx.thorough && t == 8 && i == 13 {
        Some(2_200_000)
    } else if ctx.thorough && t == 13 && i == 9 {
        Some(700_000)
    } else if matches!(t, 13 | 15 | 18 | 23 | 25 | 28 | 31) && i == 9 {
        // every Z / M bearing multi-vertex type: one part beyond 2^16 vertices
        Some(66_000 + 17 * t as usize)
    } else {
        None
    };
    if let Some(sz) = huge {
        shapes = vec![gen::shape(t, &mut r, &Cfg::plain(1, 2)), gen::shape_exact(t, &mut r, &Cfg::plain(1, 2), 1, sz), gen::shape(t, &mut r, &Cfg::plain(1, 2))];
        rep.count("huge_record_cases(> 2^16 vertices; the 2-D multipoint > 16 MiB)", 1);
    }
    if i == 0 && gen::is_polygon(t) {
        shapes.insert(r.usize_in(0, shapes.len()), sign_lost_polygon(t));
    }
    let n = shapes.len();
    let finalize = r.chance(0.5);
    let on_disk = !cfg!(miri) && (i % 4 == 0);
    rep.eval();
    rep.class(&format!("{}:dens{}", type_name(t), dens));

    let written: Vec<D> = shapes.iter().map(|s| s.d()).collect();
    let want: Vec<D> = written.iter().map(|d| d.expected_after_roundtrip()).collect();
    let nontrivial = n >= 2 || written.iter().any(|d| d.parts.len() >= 2 || d.has_special());
    let vertexless = written.iter().filter(|d| d.parts.len() >= 2 && d.parts.iter().any(|p| p.is_empty())).count();
    if vertexless > 0 {
        rep.count("shapes_with_a_vertexless_ring_or_patch", vertexless as u64);
    }
    if nontrivial {
        rep.nontrivial(&written.iter().map(|d| d.class_key()).collect::<Vec<_>>().join("|"));
    }

    // ---- write (cursors), optionally also by path
    let mut shp = Cursor::new(Vec::new());
    let mut shx = Cursor::new(Vec::new());
    // writing route: write_shape one by one / the consuming bulk route write_shapes
    let bulk = i % 6 == 1;
    let mid_finalize: Option<usize> = if !bulk && i % 5 == 2 && n >= 2 { Some(1 + i % (n - 1)) } else { None };
    if mid_finalize.is_some() {
        rep.count("sequences_with_a_finalize_in_the_middle", 1);
    }
    rep.count(if bulk { "written_through:write_shapes(bulk)" } else { "written_through:write_shape" }, 1);
    let w = panicmon::catch(|| -> Result<(), Error> {
        let mut w = ShapeWriter::with_shx(&mut shp, &mut shx);
        if bulk {
            return for_type!(t, T => {
                let typed: Vec<T> = shapes.iter().map(|s| T::try_from(crate::shapes::clone_shape(s)).ok().expect("harness: type table")).collect();
                w.write_shapes(&typed)
            });
        }
        for (k, s) in shapes.iter().enumerate() {
            write_one(&mut w, s)?;
            // every 5th sequence: an explicit finalize after the k-th shape as well
            if mid_finalize == Some(k + 1) {
                w.finalize()?;
            }
        }
        if finalize {
            w.finalize()?;
        }
        Ok(())
    });
    match w {
        Ok(Ok(())) => {}
        Ok(Err(e)) => return rep.violation(&format!("write/{}/error", type_name(t)), &case, J::s(err_class(&e))),
        Err(p) => return rep.violation(&format!("write/{}/panic", type_name(t)), &case, J::s(p.class())),
    }
    let (shp, shx) = (shp.into_inner(), shx.into_inner());

    let mut routes: Vec<(String, RouteOut)> = vec![];
    let r1 = panicmon::catch(|| {
        let mut v = cursor_routes::<Shape>("generic", &shp, &shx, n);
        v.extend(for_type!(t, T => cursor_routes::<T>("concrete", &shp, &shx, n)));
        v
    });
    match r1 {
        Ok(v) => routes.extend(v),
        Err(p) => return rep.violation(&format!("read/{}/panic", type_name(t)), &case, J::obj(vec![("panic", J::s(p.class())), ("shp_hex", J::bytes_hex(&shp))])),
    }
    if on_disk {
        // file names rotate through styles a path-based constructor has to cope with: upper-case
        // extension, extra dots, spaces and non-ASCII characters, a name in a dotted directory
        let style = (i / 4) % 5;
        let stem = match style {
            0 => format!("t{}_{}", t, i),
            1 => format!("T{}_{}", t, i),
            2 => format!("t{}.{}.v2", t, i),
            3 => format!("t{} {} \u{e9}\u{4e2d}", t, i),
            _ => format!("dir.with.dots/t{}_{}", t, i),
        };
        if style == 4 {
            let _ = std::fs::create_dir_all(format!("{}/dir.with.dots", dir));
        }
        let base = format!("{}/{}", dir, stem);
        let path = format!("{}.{}", base, if style == 1 { "SHP" } else { "shp" });
        rep.count(&format!("path_name_style_{}", style), 1);
        let wp = panicmon::catch(|| -> Result<(), Error> {
            let mut w = ShapeWriter::from_path(&path)?;
            for s in &shapes {
                write_one(&mut w, s)?;
            }
            if finalize {
                w.finalize()?;
            }
            Ok(())
        });
        match wp {
            Ok(Ok(())) => {}
            Ok(Err(e)) => return rep.violation(&format!("write-path/{}/error", type_name(t)), &case, J::s(err_class(&e))),
            Err(p) => return rep.violation(&format!("write-path/{}/panic", type_name(t)), &case, J::s(p.class())),
        }
        // the files created by path hold the same bytes as the cursors
        let on_disk_shp = std::fs::read(&path).unwrap_or_default();
        let on_disk_shx = std::fs::read(format!("{}.shx", base)).unwrap_or_default();
        if on_disk_shp != shp || on_disk_shx != shx {
            rep.violation(&format!("write-path/{}/bytes-differ-from-cursor", type_name(t)), &case, J::Null);
        }
        let rp = panicmon::catch(|| {
            let mut v = path_routes::<Shape>("generic", &path, n, true);
            v.extend(for_type!(t, T => path_routes::<T>("concrete", &path, n, true)));
            let _ = std::fs::remove_file(format!("{}.shx", base));
            v.extend(path_routes::<Shape>("generic", &path, n, false));
            v.extend(for_type!(t, T => path_routes::<T>("concrete", &path, n, false)));
            v
        });
        let _ = std::fs::remove_file(&path);
        let _ = std::fs::remove_file(format!("{}.shx", base));
        match rp {
            Ok(v) => routes.extend(v),
            Err(p) => return rep.violation(&format!("read-path/{}/panic", type_name(t)), &case, J::s(p.class())),
        }
    }

    // ---- every accessor of the shapes read back (and of the shapes written) tells the same story
    if let Ok(read_back) = ShapeReader::new(Cursor::new(shp.clone())).and_then(|r| r.read()) {
        for (k, s) in read_back.iter().chain(shapes.iter()).enumerate() {
            rep.count("shapes_checked_for_accessor_agreement", 1);
            if let Some(which) = panicmon::catch(|| crate::dump::accessor_disagreement(s)).unwrap_or(Some("panic".into())) {
                rep.violation(&format!("accessors/{}/{}", type_name(t), which), &case, J::obj(vec![("shape_index", J::UInt((k % n.max(1)) as u64)), ("side", J::s(if k < read_back.len() { "read back" } else { "as constructed" })), ("shape", s.d().to_json())]));
                break;
            }
        }
    }

    // ---- iterator adaptors: whatever the iterator overrides (nth, size_hint, fold, ...) must
    //      agree with plain next(): skip, step_by, nth, last, count
    {
        let adaptors = panicmon::catch(|| -> Result<Vec<(&'static str, Vec<D>, Vec<usize>)>, Error> {
            let mut out = vec![];
            for with_idx in [false, true] {
                let mk = || -> Result<ShapeReader<Cursor<Vec<u8>>>, Error> {
                    if with_idx { ShapeReader::with_shx(Cursor::new(shp.clone()), Cursor::new(shx.clone())) } else { ShapeReader::new(Cursor::new(shp.clone())) }
                };
                let all: Vec<usize> = (0..n).collect();
                let mut rd = mk()?;
                out.push(("skip(1)", rd.iter_shapes().skip(1).collect::<Result<Vec<_>, _>>()?.iter().map(|s| s.d()).collect(), all[1.min(n)..].to_vec()));
                let mut rd = mk()?;
                out.push(("step_by(2)", rd.iter_shapes().step_by(2).collect::<Result<Vec<_>, _>>()?.iter().map(|s| s.d()).collect(), all.iter().cloned().step_by(2).collect()));
                let mut rd = mk()?;
                let k = n / 2;
                out.push(("nth(n/2)", rd.iter_shapes().nth(k).into_iter().collect::<Result<Vec<_>, _>>()?.iter().map(|s| s.d()).collect(), vec![k]));
                let mut rd = mk()?;
                out.push(("last()", rd.iter_shapes().last().into_iter().collect::<Result<Vec<_>, _>>()?.iter().map(|s| s.d()).collect(), vec![n - 1]));
                let mut rd = mk()?;
                let cnt = rd.iter_shapes().count();
                out.push(("count()", vec![], if cnt == n { vec![] } else { vec![usize::MAX] }));
                let mut rd = mk()?;
                let mut it = rd.iter_shapes();
                let first = it.next();
                let rest: Vec<D> = it.skip(1).collect::<Result<Vec<_>, _>>()?.iter().map(|s| s.d()).collect();
                let _ = first;
                out.push(("next();skip(1)", rest, all[2.min(n)..].to_vec()));
            }
            Ok(out)
        });
        match adaptors {
            Err(p) => rep.violation(&format!("adaptors/{}/panic", type_name(t)), &case, J::s(p.class())),
            Ok(Err(e)) => rep.violation(&format!("adaptors/{}/error", type_name(t)), &case, J::s(err_class(&e))),
            Ok(Ok(list)) => {
                for (name, got, idx) in list {
                    rep.count("iterator_adaptor_runs", 1);
                    let ok = got.len() == idx.len() && idx.iter().all(|i| *i != usize::MAX) && got.iter().zip(&idx).all(|(g, i)| first_diff(g, &want[*i]).is_none());
                    if !ok {
                        rep.violation(&format!("adaptors/{}/{}", type_name(t), name), &case, J::obj(vec![("adaptor", J::s(name)), ("items", J::UInt(got.len() as u64)), ("expected_items", J::UInt(idx.len() as u64)), ("n", J::UInt(n as u64))]));
                        break;
                    }
                }
            }
        }
    }

    // ---- compare every route with the expectation
    let mut role_obs: BTreeMap<(usize, usize), i32> = BTreeMap::new();
    for (route, out) in &routes {
        rep.count(&format!("route:{}", route), 1);
        let route_kind = route.rsplitn(2, '/').nth(1).unwrap_or(route); // drop cursor|path for the signature
        match out {
            Err(e) => rep.violation(
                &format!("{}/{}/error", route_kind, type_name(t)),
                &case,
                J::obj(vec![("route", J::s(route.clone())), ("error", J::s(e.clone())), ("written", J::Arr(written.iter().map(|d| d.to_json()).collect()))]),
            ),
            Ok(got) => {
                if got.len() != want.len() {
                    rep.violation(
                        &format!("{}/{}/count", route_kind, type_name(t)),
                        &case,
                        J::obj(vec![("route", J::s(route.clone())), ("read", J::UInt(got.len() as u64)), ("written", J::UInt(want.len() as u64))]),
                    );
                    continue;
                }
                for (k, (g, w)) in got.iter().zip(&want).enumerate() {
                    if let Some(field) = first_diff(g, w) {
                        rep.violation(
                            &format!("{}/{}/{}", route_kind, type_name(t), field),
                            &case,
                            J::obj(vec![("route", J::s(route.clone())), ("shape_index", J::UInt(k as u64)), ("read", g.to_json()), ("expected", w.to_json())]),
                        );
                        break;
                    }
                    for ri in role_mismatches(g, w) {
                        let prev = role_obs.insert((k, ri), g.kinds[ri]);
                        if prev.is_none() {
                            rep.count("ring_role_changes_observed", 1);
                            // cheap in-process pre-adjudication with the harness's own exact
                            // integer arithmetic; everything it cannot settle goes offline
                            let ring = &w.parts[ri];
                            if ring.iter().any(|v| !f64::from_bits(v[0]).is_finite() || !f64::from_bits(v[1]).is_finite()) {
                                rep.count("role_changes_without_claim(non-finite coordinate)", 1);
                                continue;
                            }
                            if crate::dump::exact_area2_dyadic(ring) == Some(0) {
                                rep.count("role_changes_allowed(exact area 0, settled in-process)", 1);
                                continue;
                            }
                            rep.pend(J::obj(vec![
                                ("kind", J::s("role")),
                                ("case", J::s(case.clone())),
                                ("route", J::s(route.clone())),
                                ("type", J::s(type_name(t))),
                                ("shape_index", J::UInt(k as u64)),
                                ("ring_index", J::UInt(ri as u64)),
                                ("declared", J::s(if w.kinds[ri] == 0 { "outer" } else { "inner" })),
                                ("read", J::s(if g.kinds[ri] == 0 { "outer" } else { "inner" })),
                                ("ring", ring_json(&w.parts[ri])),
                            ]));
                        }
                    }
                    if gen::is_polygon(t) {
                        rep.count("rings_compared", g.kinds.len() as u64);
                    }
                }
            }
        }
    }
    // all routes must agree on the role of every ring (they read the same bytes)
    if gen::is_polygon(t) {
        let mut per_route: Vec<(&String, Vec<Vec<i32>>)> = vec![];
        for (route, out) in &routes {
            if let Ok(got) = out {
                per_route.push((route, got.iter().map(|d| d.kinds.clone()).collect()));
            }
        }
        if let Some((r0, k0)) = per_route.first() {
            for (rn, kn) in &per_route[1..] {
                if kn != k0 {
                    rep.violation(&format!("roles-differ-between-routes/{}", type_name(t)), &case, J::obj(vec![("a", J::s((*r0).clone())), ("b", J::s((*rn).clone()))]));
                    break;
                }
            }
        }
    }
    rep.sample(|| {
        J::obj(vec![
            ("case", J::s(case.clone())),
            ("n_shapes", J::UInt(n as u64)),
            ("routes", J::UInt(routes.len() as u64)),
            ("ending", J::s(if finalize { "finalize" } else { "drop" })),
            ("first_shape_written", written[0].to_json()),
        ])
    });
}

pub fn run(ctx: &Ctx) -> Report {
    let n = if cfg!(miri) { ctx.opt_u64("n", 4) as usize } else { ctx.pick(600, 8000) };
    let dir = format!("{}/files", ctx.out);
    if !cfg!(miri) {
        std::fs::create_dir_all(&dir).expect("harness: mkdir");
    }
    // Miri shards: case index i belongs to shard (i % shards)
    let shards = ctx.opt_u64("shards", 1) as usize;
    let shard = ctx.opt_u64("shard", 0) as usize;
    let mut rep = par(ctx, TYPES.len() * n, |idx, rep| {
        if idx % shards != shard {
            return;
        }
        one_case(TYPES[idx / n], idx % n, ctx, rep, &dir)
    });
    if ctx.only.is_none() {
        let routes_seen = rep.counters.keys().filter(|k| k.starts_with("route:")).count() as u64;
        rep.guard("distinct reading routes exercised", routes_seen, if cfg!(miri) { 8 } else { 18 });
        let e = rep.evaluations;
        rep.guard("sequences evaluated", e, (TYPES.len() * n / shards) as u64);
        if !cfg!(miri) {
            let v = rep.counters.get("shapes_with_a_vertexless_ring_or_patch").copied().unwrap_or(0);
            rep.guard("shapes with a vertex-less ring or patch", v, 20);
        }
    }
    if !cfg!(miri) {
        let _ = std::fs::remove_dir_all(&dir);
    }
    rep
}
