//! C09 — any interleaving of writes and finalize calls yields the same files as drop.
//!
//! All words over {Wa, Wb, F} up to a length bound, for each of the 13 types, with and
//! without an index destination, three endings. The monitor inspects the op logs and images
//! of the instrumented destinations after every call; the reference bytes come from the
//! simplest history (same writes, then drop), which C02 validates independently.

use crate::gen::{self, type_name, TYPES};
use crate::iomon::{Dest, Op};
use crate::json::J;
use crate::panicmon;
use crate::report::{par, Ctx, Report};
use crate::rng::{tag, Rng};
use crate::shapes::{err_class, write_one};
use shapefile::*;
use std::collections::BTreeSet;

const WA: u8 = 0;
const WB: u8 = 1;
const F: u8 = 2;

fn word_str(w: &[u8]) -> String {
    w.iter().map(|l| ["Wa", "Wb", "F"][*l as usize]).collect::<Vec<_>>().join(" ")
}

/// Reference: same writes, then drop.
fn reference(shapes: &[&Shape], with_shx: bool) -> (Vec<u8>, Vec<u8>) {
    let a = Dest::new();
    let b = Dest::new();
    {
        let mut w = if with_shx { ShapeWriter::with_shx(a.clone(), b.clone()) } else { ShapeWriter::new(a.clone()) };
        for s in shapes {
            write_one(&mut w, s).expect("harness: reference write failed");
        }
    }
    (a.data(), b.data())
}

/// write_shapes consumes the writer: typed dispatch on the variant.
pub fn write_tail<W: std::io::Write + std::io::Seek>(w: ShapeWriter<W>, tail: &[&Shape]) -> Result<(), Error> {
    macro_rules! go {
        ($variant:ident, $T:ty) => {{
            let v: Vec<&$T> = tail
                .iter()
                .map(|s| match s {
                    Shape::$variant(x) => x,
                    _ => panic!("harness: mixed tail"),
                })
                .collect();
            w.write_shapes(v)
        }};
    }
    match tail[0] {
        Shape::Point(_) => go!(Point, Point),
        Shape::PointM(_) => go!(PointM, PointM),
        Shape::PointZ(_) => go!(PointZ, PointZ),
        Shape::Multipoint(_) => go!(Multipoint, Multipoint),
        Shape::MultipointM(_) => go!(MultipointM, MultipointM),
        Shape::MultipointZ(_) => go!(MultipointZ, MultipointZ),
        Shape::Polyline(_) => go!(Polyline, Polyline),
        Shape::PolylineM(_) => go!(PolylineM, PolylineM),
        Shape::PolylineZ(_) => go!(PolylineZ, PolylineZ),
        Shape::Polygon(_) => go!(Polygon, Polygon),
        Shape::PolygonM(_) => go!(PolygonM, PolygonM),
        Shape::PolygonZ(_) => go!(PolygonZ, PolygonZ),
        Shape::Multipatch(_) => go!(Multipatch, Multipatch),
        Shape::NullShape => panic!("harness: null tail"),
    }
}

struct Outcome {
    rules: BTreeSet<&'static str>,
    error: Option<String>,
}

fn run_word(word: &[u8], ending: usize, with_shx: bool, sa: &Shape, sb: &Shape, foreign: &Shape, rep: &mut Report) -> Outcome {
    let a = Dest::new();
    let b = Dest::new();
    let mut rules: BTreeSet<&'static str> = BTreeSet::new();
    let mut written: Vec<&Shape> = vec![];
    let mut error = None;
    let clean_at_end;
    {
        let mut w = if with_shx { ShapeWriter::with_shx(a.clone(), b.clone()) } else { ShapeWriter::new(a.clone()) };
        // `fresh`: nothing committed yet (a new writer has an empty file to commit);
        // `clean`: the previous state-changing call was a successful finalize
        let mut clean = false;
        for (i, &l) in word.iter().enumerate() {
            let epoch = i + 1;
            a.set_epoch(epoch);
            b.set_epoch(epoch);
            match l {
                WA | WB => {
                    let s = if l == WA { sa } else { sb };
                    if let Err(e) = write_one(&mut w, s) {
                        error = Some(format!("write #{}: {}", i, err_class(&e)));
                        break;
                    }
                    written.push(s);
                    clean = false;
                }
                _ => {
                    if let Err(e) = w.finalize() {
                        error = Some(format!("finalize #{}: {}", i, err_class(&e)));
                        break;
                    }
                    rep.count("finalize_calls_observed", 1);
                    let (rs, rx) = reference(&written, with_shx);
                    if a.data() != rs {
                        rules.insert("after-F:shp-not-complete");
                    }
                    if with_shx && b.data() != rx {
                        rules.insert("after-F:shx-not-complete");
                    }
                    // ... and, independently of what the library writes elsewhere: a complete
                    // shapefile has its 100-byte header, a length field equal to its size and one
                    // record (index entry) per shape written so far
                    let shp_now = a.data();
                    let complete = shp_now.len() >= 100
                        && crate::rawshp::be32(&shp_now, 24).map(|w| w as i64 * 2 == shp_now.len() as i64).unwrap_or(false)
                        && crate::rawshp::walk(&shp_now).len() == written.len();
                    if !complete {
                        rules.insert("after-F:shp-not-a-complete-shapefile");
                    }
                    if with_shx {
                        let shx_now = b.data();
                        if shx_now.len() != 100 + 8 * written.len() || crate::rawshp::be32(&shx_now, 24).map(|w| w as i64 * 2 != shx_now.len() as i64).unwrap_or(true) {
                            rules.insert("after-F:shx-not-a-complete-index");
                        }
                    }
                    for (d, is_shx) in [(&a, false), (&b, true)] {
                        if is_shx && !with_shx {
                            continue;
                        }
                        let ops = d.ops_in_epoch(epoch);
                        if clean {
                            rep.count("noop_finalize_calls_observed", 1);
                            if !ops.is_empty() {
                                rules.insert("noop-finalize-does-io");
                            }
                        } else if !matches!(ops.last(), Some(Op::Flush)) {
                            rules.insert("not-flushed");
                        }
                    }
                    clean = true;
                }
            }
        }
        a.set_epoch(9999);
        b.set_epoch(9999);
        clean_at_end = clean;
        if error.is_none() {
            match ending {
                0 => drop(w),
                1 => {
                    if let Err(e) = w.finalize() {
                        error = Some(format!("final finalize: {}", err_class(&e)));
                    }
                    drop(w);
                }
                4 => {
                    // a write that is REFUSED (shape of another type) commits nothing: a finalize right
                    // after it has exactly as much to do as it had before
                    a.set_epoch(9998);
                    b.set_epoch(9998);
                    let refused = !written.is_empty() && write_one(&mut w, foreign).is_err();
                    a.set_epoch(9999);
                    b.set_epoch(9999);
                    if let Err(e) = w.finalize() {
                        error = Some(format!("final finalize: {}", err_class(&e)));
                    }
                    if refused && clean && (!a.ops_in_epoch(9999).is_empty() || (with_shx && !b.ops_in_epoch(9999).is_empty())) {
                        rules.insert("noop-finalize-does-io(after a refused write)");
                    }
                    if refused {
                        rep.count("finalizes_after_a_refused_write_observed", 1);
                    }
                    drop(w);
                }
                5 => {
                    // the consuming bulk route given nothing: with nothing new to commit it performs no I/O
                    let res = with_concrete!(sa, x => {
                        let mut none = vec![x];
                        none.clear();
                        w.write_shapes(none)
                    });
                    if let Err(e) = res {
                        error = Some(format!("write_shapes(nothing): {}", err_class(&e)));
                    }
                    if clean && (!a.ops_in_epoch(9999).is_empty() || (with_shx && !b.ops_in_epoch(9999).is_empty())) {
                        rules.insert("noop-finalize-does-io(write_shapes of nothing)");
                    }
                }
                2 => {
                    let tail = [sa, sb];
                    if let Err(e) = write_tail(w, &tail) {
                        error = Some(format!("write_shapes: {}", err_class(&e)));
                    }
                    written.push(sa);
                    written.push(sb);
                }
                _ => {
                    // the caller's code panics while the writer is alive: the writer is dropped
                    // during unwinding, which is a drop like any other
                    let r = std::panic::catch_unwind(std::panic::AssertUnwindSafe(move || {
                        let _alive = w;
                        panic!("probe: caller panics while the writer is alive");
                    }));
                    if r.is_ok() {
                        error = Some("probe panic did not unwind".into());
                    }
                }
            }
        }
    }
    if error.is_none() && clean_at_end && (ending == 0 || ending == 3) {
        // dropped right after a successful finalize: the implicit finalize has nothing new to
        // commit either and performs no I/O
        rep.count("drops_right_after_a_finalize_observed", 1);
        if !a.ops_in_epoch(9999).is_empty() || (with_shx && !b.ops_in_epoch(9999).is_empty()) {
            rules.insert("noop-finalize-does-io(drop)");
        }
    }
    if error.is_none() {
        // a destination that hands its bytes on only when flushed (a writer lent as &mut, an
        // upload-on-flush sink) holds what was written up to the last flush: once the writer is
        // dropped no write may be left behind it, whatever the interleaving was
        rep.count("drops_observed_for_writes_left_unflushed", 1);
        for (d, rule) in [(&a, "final:shp-bytes-written-after-the-last-flush"), (&b, "final:shx-bytes-written-after-the-last-flush")] {
            let ops = d.ops();
            let last_flush = ops.iter().rposition(|(_, o)| matches!(o, Op::Flush));
            let pending = ops.iter().skip(last_flush.map(|i| i + 1).unwrap_or(0)).any(|(_, o)| matches!(o, Op::Write(_, b) if !b.is_empty()));
            if pending {
                rules.insert(rule);
            }
        }
        let (rs, rx) = reference(&written, with_shx);
        if a.data() != rs {
            rules.insert("final:shp");
        }
        if with_shx && b.data() != rx {
            rules.insert("final:shx");
        }
    }
    Outcome { rules, error }
}

fn structural_class(word: &[u8], ending: usize) -> &'static str {
    let first_w = word.iter().position(|&l| l != F);
    let first_f = word.iter().position(|&l| l == F);
    match (first_f, first_w) {
        (Some(f), Some(w)) if f < w => "F-before-first-W",
        (Some(_), None) if ending == 2 => "F-before-first-W",
        _ => "plain",
    }
}

fn all_words(max_len: usize) -> Vec<Vec<u8>> {
    let mut words: Vec<Vec<u8>> = vec![vec![]];
    let mut frontier: Vec<Vec<u8>> = vec![vec![]];
    for _ in 0..max_len {
        let mut next = vec![];
        for w in &frontier {
            for l in [WA, WB, F] {
                let mut x = w.clone();
                x.push(l);
                next.push(x);
            }
        }
        words.extend(next.iter().cloned());
        frontier = next;
    }
    words
}

/// `from_path` writer: after each finalize the files on disk (read while the writer is still
/// alive) must already hold the complete shapefile — the flush has to reach the file through
/// the BufWriter.
fn on_disk(t: i32, word: &[u8], sa: &Shape, sb: &Shape, dir: &str, case: &str, rep: &mut Report) {
    let base = format!("{}/{}", dir, case.replace(':', "_"));
    let path = format!("{}.shp", base);
    let res = panicmon::catch(|| -> Result<Vec<&'static str>, Error> {
        let mut rules = vec![];
        let mut written: Vec<&Shape> = vec![];
        {
            let mut w = ShapeWriter::from_path(&path)?;
            for &l in word {
                match l {
                    WA | WB => {
                        let s = if l == WA { sa } else { sb };
                        write_one(&mut w, s)?;
                        written.push(s);
                    }
                    _ => {
                        w.finalize()?;
                        let (rs, rx) = reference(&written, true);
                        if std::fs::read(&path)? != rs {
                            rules.push("after-F:shp-not-complete");
                        }
                        if std::fs::read(format!("{}.shx", base))? != rx {
                            rules.push("after-F:shx-not-complete");
                        }
                        rep.count("on_disk_reads_while_writer_alive", 1);
                    }
                }
            }
        }
        let (rs, rx) = reference(&written, true);
        if std::fs::read(&path)? != rs {
            rules.push("final:shp");
        }
        if std::fs::read(format!("{}.shx", base))? != rx {
            rules.push("final:shx");
        }
        Ok(rules)
    });
    let _ = std::fs::remove_file(&path);
    let _ = std::fs::remove_file(format!("{}.shx", base));
    rep.eval();
    rep.class("from_path");
    let class = structural_class(word, 0);
    match res {
        Ok(Ok(rules)) if rules.is_empty() => {}
        Ok(Ok(mut rules)) => {
            rules.sort();
            rules.dedup();
            rep.violation(&format!("{}:{}", class, rules.join("+")), case, J::obj(vec![("type", J::s(type_name(t))), ("word", J::s(word_str(word))), ("destination", J::s("from_path"))]));
        }
        Ok(Err(e)) => rep.violation(&format!("{}:error", class), case, J::obj(vec![("error", J::s(err_class(&e))), ("word", J::s(word_str(word)))])),
        Err(p) => rep.violation(&format!("{}:panic", class), case, J::s(p.class())),
    }
}

pub fn run(ctx: &Ctx) -> Report {
    let max_len = if cfg!(miri) { 3 } else { ctx.pick(6, 9) };
    let mut words = all_words(max_len);
    if !cfg!(miri) {
        // more than 255 writes on one writer, with a finalize before, in the middle and after
        words.push([F].iter().cloned().chain((0..260).map(|k| if k % 2 == 0 { WA } else { WB })).collect());
        words.push((0..300).map(|k| if k % 3 == 0 { WB } else { WA }).chain([F, WB, WB, F]).collect());
        words.push((0..130).map(|_| WA).chain([F]).chain((0..130).map(|_| WB)).collect());
        for n in [255usize, 256, 257, 512] {
            words.push([F].iter().cloned().chain((0..n).map(|_| WA)).collect());
            words.push((0..n).map(|_| WA).chain([F, WB]).collect());
        }
    }
    let dir = format!("{}/files", ctx.out);
    if !cfg!(miri) {
        std::fs::create_dir_all(&dir).expect("harness: mkdir");
    }
    let types: Vec<i32> = if cfg!(miri) { vec![1, 15, 31] } else { TYPES.to_vec() };
    // work item = (type, with_shx, block of words)
    let blocks = 16usize;
    // (type, with index, block of words, shape-pair variant). Variant 1 (Z / M types): shape a has
    // every Z = +inf and every M = -inf, shape b finite values on the far side of 0 (Z > 0, M < 0) — the
    // header ranges then depend on WHEN the running box is reset.
    let items: Vec<(i32, bool, usize, usize)> = types
        .iter()
        .flat_map(|&t| [true, false].into_iter().flat_map(move |x| (0..blocks).flat_map(move |b| (0..4usize).filter(move |&v| v == 0 || (!cfg!(miri) && (v == 3 || gen::carries_m(t)))).map(move |v| (t, x, b, v)))))
        .collect();
    let mut rep = par(ctx, items.len(), |idx, rep| {
        let (t, with_shx, block, variant) = items[idx];
        let mut r = Rng::derive(ctx.seed, &[tag("c09"), t as u64]);
        let (sa, sb) = gen::two_sizes(t, &mut r);
        let (sa, sb) = if variant == 1 {
            (crate::shapes::with_uniform_z_m(&sa, f64::INFINITY, f64::NEG_INFINITY), crate::shapes::with_uniform_z_m(&sb, 2.5, -3.5))
        } else if variant == 2 {
            // variant 2: every Z and M of shape a is NaN (it contributes nothing to the header ranges)
            (crate::shapes::with_uniform_z_m(&sa, f64::NAN, f64::NAN), crate::shapes::with_uniform_z_m(&sb, 2.5, 3.5))
        } else if variant == 3 {
            // variant 3 (every type): every X and Y of shape a is NaN, so that not even the X / Y
            // ranges of the running box have grown when a finalize comes before shape b
            (crate::shapes::with_nan_xy(&sa, 1, 0), sb)
        } else {
            (sa, sb)
        };
        // a shape of another type, for the refused write of ending 4
        let ft = TYPES[(TYPES.iter().position(|x| *x == t).unwrap() + 4) % TYPES.len()];
        let foreign = gen::shape(ft, &mut r, &crate::gen::Cfg::plain(2, 3));
        for (wi, word) in words.iter().enumerate() {
            if wi % blocks != block {
                continue;
            }
            for ending in 0..6 {
                let case = format!("c09:t{}:x{}:w{}:e{}{}", t, with_shx as u8, wi, ending, [ "", ":inf", ":nan", ":nan-xy"][variant]);
                if !ctx.want(&case) {
                    continue;
                }
                rep.eval();
                let class = structural_class(word, ending);
                rep.class(class);
                rep.nontrivial(&case);
                let out = panicmon::catch(|| run_word(word, ending, with_shx, &sa, &sb, &foreign, rep));
                let detail = |extra: Vec<(&str, J)>| {
                    let mut v = vec![
                        ("type", J::s(type_name(t))),
                        ("word", J::s(word_str(word))),
                        ("ending", J::s(["drop", "finalize+drop", "write_shapes([a,b])", "drop while the caller's panic unwinds", "a refused write, finalize, drop", "write_shapes(nothing)"][ending])),
                        ("with_index", J::Bool(with_shx)),
                    ];
                    v.extend(extra);
                    J::obj(v)
                };
                match out {
                    Err(p) => rep.violation(&format!("{}:panic", class), &case, detail(vec![("panic", J::s(p.class()))])),
                    Ok(o) => {
                        if let Some(e) = o.error {
                            rep.violation(&format!("{}:error", class), &case, detail(vec![("error", J::s(e))]));
                        } else if !o.rules.is_empty() {
                            let rules: Vec<&str> = o.rules.iter().cloned().collect();
                            rep.violation(&format!("{}:{}", class, rules.join("+")), &case, detail(vec![]));
                        }
                    }
                }
                if wi % 97 == 5 && ending == 1 {
                    rep.sample(|| detail(vec![("case", J::s(case.clone()))]));
                }
            }
            // a sample of the words also through from_path, on disk
            if with_shx && variant == 0 && !cfg!(miri) && wi % ctx.pick(11, 5) == 3 {
                let case = format!("c09:t{}:disk:w{}", t, wi);
                if ctx.want(&case) {
                    on_disk(t, word, &sa, &sb, &dir, &case, rep);
                }
            }
        }
    });
    // ---- a writer whose shapes all report NullShape (user-defined): finalizes in between change nothing
    for with_shx in [false, true] {
        for word in [vec![WA, F, WA], vec![F, WA, WA, F, WA, F], vec![WA, WA, F, F, WA]] {
            let case = format!("c09:user-null:x{}:{}", with_shx as u8, word_str(&word));
            if !ctx.want(&case) {
                continue;
            }
            rep.eval();
            let run = |with_f: bool| -> Result<(Vec<u8>, Vec<u8>), String> {
                let (a, b) = (Dest::new(), Dest::new());
                {
                    let mut w = if with_shx { ShapeWriter::with_shx(a.clone(), b.clone()) } else { ShapeWriter::new(a.clone()) };
                    for &l in &word {
                        if l == F {
                            if with_f {
                                w.finalize().map_err(|e| err_class(&e))?;
                            }
                        } else {
                            w.write_shape(&crate::e_c10::UserNull).map_err(|e| err_class(&e))?;
                        }
                    }
                }
                Ok((a.data(), b.data()))
            };
            match panicmon::catch(|| (run(true), run(false))) {
                Err(p) => rep.violation("user-null-writer:panic", &case, J::s(p.class())),
                Ok((Ok(x), Ok(y))) => {
                    rep.count("user_defined_nullshape_writer_histories", 1);
                    if x != y {
                        rep.violation("user-null-writer:final-bytes", &case, J::obj(vec![("word", J::s(word_str(&word))), ("what", J::s("the files differ from those of the same writes without the finalize calls"))]));
                    }
                }
                Ok((a, b)) => rep.violation("user-null-writer:error", &case, J::s(format!("{:?} / {:?}", a.err(), b.err()))),
            }
        }
    }
    if ctx.only.is_none() {
        let e = rep.evaluations;
        rep.guard("histories enumerated", e, (types.len() * 2 * words.len() * 4) as u64);  // variant 1 adds to this
        let f = rep.counters.get("noop_finalize_calls_observed").copied().unwrap_or(0);
        rep.guard("no-op finalize calls observed", f, 100);
        if !cfg!(miri) {
            let d = rep.counters.get("on_disk_reads_while_writer_alive").copied().unwrap_or(0);
            rep.guard("on-disk reads while the writer is alive", d, 100);
        }
    }
    rep.count("words", words.len() as u64);
    rep.count("max_word_length", max_len as u64);
    if !cfg!(miri) {
        let _ = std::fs::remove_dir_all(&dir);
    }
    rep
}
