//! Workload generators: f64 pools steered at the values the library branches on, and shapes
//! of all 13 non-null types built only through the public constructors.

use crate::rng::Rng;
use shapefile::*;

/// The harness's own copy of the constant (checked against the library's in `selfcheck`).
pub const NO_DATA: f64 = -10e38;

/// The 13 non-null type codes, in the order the workloads iterate them.
pub const TYPES: [i32; 13] = [1, 21, 11, 8, 28, 18, 3, 23, 13, 5, 25, 15, 31];
/// All 14 codes of the ESRI table.
pub const ALL_CODES: [i32; 14] = [0, 1, 3, 5, 8, 11, 13, 15, 18, 21, 23, 25, 28, 31];

pub fn type_name(code: i32) -> &'static str {
    match code {
        0 => "NullShape",
        1 => "Point",
        3 => "Polyline",
        5 => "Polygon",
        8 => "Multipoint",
        11 => "PointZ",
        13 => "PolylineZ",
        15 => "PolygonZ",
        18 => "MultipointZ",
        21 => "PointM",
        23 => "PolylineM",
        25 => "PolygonM",
        28 => "MultipointM",
        31 => "Multipatch",
        _ => "?",
    }
}

pub fn has_z(code: i32) -> bool {
    matches!(code, 11 | 13 | 15 | 18 | 31)
}
/// The type's vertices have a measure field (layout sense; Multipatch included, unlike the
/// ESRI "has M" predicate checked in C19).
pub fn carries_m(code: i32) -> bool {
    matches!(code, 11 | 13 | 15 | 18 | 21 | 23 | 25 | 28 | 31)
}
pub fn is_point(code: i32) -> bool {
    matches!(code, 1 | 11 | 21)
}
pub fn is_multipoint(code: i32) -> bool {
    matches!(code, 8 | 18 | 28)
}
pub fn is_polygon(code: i32) -> bool {
    matches!(code, 5 | 15 | 25)
}
pub fn is_polyline(code: i32) -> bool {
    matches!(code, 3 | 13 | 23)
}

// ---------------------------------------------------------------- f64 pools

pub fn prev(v: f64) -> f64 {
    // next representable value towards -inf
    if v > 0.0 {
        f64::from_bits(v.to_bits() - 1)
    } else if v < 0.0 {
        f64::from_bits(v.to_bits() + 1)
    } else {
        -f64::from_bits(1)
    }
}
pub fn next(v: f64) -> f64 {
    -prev(-v)
}

/// Special finite/infinite values (no NaN).
pub fn special_pool(allow_inf: bool) -> Vec<f64> {
    let mut v = vec![
        0.0,
        -0.0,
        f64::MIN_POSITIVE,
        -f64::MIN_POSITIVE,
        f64::from_bits(1),
        -f64::from_bits(1),
        1e-310,
        -3e-320,
        f64::MAX,
        f64::MIN,
        prev(f64::MAX),
        next(f64::MIN),
        NO_DATA,
        prev(NO_DATA),
        next(NO_DATA),
        -1e300,
        1e300,
        -1e39,
        1.0,
        -1.0,
    ];
    if allow_inf {
        v.push(f64::INFINITY);
        v.push(f64::NEG_INFINITY);
    }
    v
}

pub fn nan_pool() -> [f64; 5] {
    [
        f64::NAN,
        -f64::NAN,
        f64::from_bits(0x7ff0_0000_0000_0001), // signalling
        f64::from_bits(0xfff8_0000_0000_0123),
        f64::from_bits(0x7fff_ffff_ffff_ffff),
    ]
}

/// The *exact pool*: integers in +-2^12 times 2^-k, k <= 6. All values are multiples of 2^-6
/// below 2^12 in magnitude, so in the shoelace sum  sum (x2-x1)(y2+y1)  every difference/sum
/// has <= 20 significant bits, every product <= 40 and a sum of up to 2^10 terms <= 50: the
/// library's f64 evaluation is exact, whatever the order. Orientation is only ever asserted
/// on rings drawn entirely from this pool (or from the integer grid below).
pub fn exact(r: &mut Rng) -> f64 {
    let i = r.below(1 << 13) as i64 - (1 << 12);
    let k = r.below(7) as i32;
    (i as f64) * 2f64.powi(-k)
}

/// UTM-like coordinates: a large common offset (up to a few million) on a 1/1024 grid, rings
/// from a millimetre to about a metre across. Differences are tiny and exact, sums are ~2^24:
/// the shoelace sum in the form (x2-x1)*(y2+y1) is exact in f64 (checked per ring by
/// `dump::in_exact_pool`), while algebraically equal rewrites of it are not.
pub fn utm_like(r: &mut Rng, origin: (f64, f64), axis: usize) -> f64 {
    let o = if axis == 0 { origin.0 } else { origin.1 };
    o + (r.below(2049) as i64 - 1024) as f64 / 1024.0
}

/// Wider dyadic rationals (integers in +-2^20 times 2^-k, k <= 10): ordinary "nice" values.
pub fn dyadic(r: &mut Rng) -> f64 {
    let i = r.below(1 << 21) as i64 - (1 << 20);
    let k = r.below(11) as i32;
    (i as f64) * 2f64.powi(-k)
}

/// Small dyadic values: integer grid, makes degenerate/collinear/repeated vertices likely.
pub fn small_grid(r: &mut Rng) -> f64 {
    (r.below(9) as i64 - 4) as f64
}

pub fn normal(r: &mut Rng) -> f64 {
    let m = r.unit();
    let e = r.below(80) as i32 - 40;
    let s = if r.chance(0.5) { -1.0 } else { 1.0 };
    s * (1.0 + m) * 2f64.powi(e)
}

#[derive(Clone, Copy, PartialEq, Debug)]
pub enum Pool {
    /// dyadic + normal, specials with density `dens`
    Mixed,
    /// only the exact pool (f64 shoelace arithmetic is exact)
    Exact,
    /// tiny integer grid (degenerate geometry)
    Grid,
}

#[derive(Clone, Copy, Debug)]
pub struct Cfg {
    pub pool: Pool,
    /// probability that a coordinate comes from the special pool
    pub dens: f64,
    pub allow_inf: bool,
    /// NaN allowed in Z and M (never in X, Y)
    pub nan_zm: bool,
    pub max_parts: usize,
    pub max_len: usize,
}

impl Cfg {
    pub fn plain(max_parts: usize, max_len: usize) -> Cfg {
        Cfg { pool: Pool::Mixed, dens: 0.0, allow_inf: false, nan_zm: false, max_parts, max_len }
    }
    pub fn hostile(dens: f64, max_parts: usize, max_len: usize) -> Cfg {
        Cfg { pool: Pool::Mixed, dens, allow_inf: true, nan_zm: true, max_parts, max_len }
    }
}

pub fn coord(r: &mut Rng, c: &Cfg, zm: bool) -> f64 {
    match c.pool {
        Pool::Exact => exact(r),
        Pool::Grid => small_grid(r),
        Pool::Mixed => {
            if c.dens > 0.0 && r.chance(c.dens) {
                if zm && c.nan_zm && r.chance(0.2) {
                    *r.pick(&nan_pool())
                } else {
                    let p = special_pool(c.allow_inf);
                    *r.pick(&p)
                }
            } else if r.chance(0.5) {
                dyadic(r)
            } else {
                normal(r)
            }
        }
    }
}

pub fn p2(r: &mut Rng, c: &Cfg) -> Point {
    Point::new(coord(r, c, false), coord(r, c, false))
}
pub fn pm(r: &mut Rng, c: &Cfg) -> PointM {
    PointM::new(coord(r, c, false), coord(r, c, false), coord(r, c, true))
}
pub fn pz(r: &mut Rng, c: &Cfg) -> PointZ {
    PointZ::new(coord(r, c, false), coord(r, c, false), coord(r, c, true), coord(r, c, true))
}

pub fn vec_of<T>(r: &mut Rng, min: usize, max: usize, mut f: impl FnMut(&mut Rng) -> T) -> Vec<T> {
    let n = r.usize_in(min, max.max(min));
    (0..n).map(|_| f(r)).collect()
}

fn ring_of<T>(r: &mut Rng, v: Vec<T>) -> PolygonRing<T> {
    if r.chance(0.5) {
        PolygonRing::Outer(v)
    } else {
        PolygonRing::Inner(v)
    }
}

fn maybe_close<T: Copy>(r: &mut Rng, mut v: Vec<T>) -> Vec<T> {
    // half of the rings arrive already closed, half open (the constructor closes them)
    if r.chance(0.5) {
        let f = v[0];
        v.push(f);
    }
    v
}

fn patch_of(r: &mut Rng, v: Vec<PointZ>) -> Patch {
    match r.below(6) {
        0 => Patch::TriangleStrip(v),
        1 => Patch::TriangleFan(v),
        2 => Patch::OuterRing(v),
        3 => Patch::InnerRing(v),
        4 => Patch::FirstRing(v),
        _ => Patch::Ring(v),
    }
}

/// One random shape of type `t` through the public constructors. Parts: 1..max_parts;
/// part lengths from the documented minimum (polyline parts >= 2, rings/patches >= 1).
pub fn shape(t: i32, r: &mut Rng, c: &Cfg) -> Shape {
    let (mp, ml) = (c.max_parts.max(1), c.max_len.max(1));
    match t {
        1 => Shape::Point(p2(r, c)),
        21 => Shape::PointM(pm(r, c)),
        11 => Shape::PointZ(pz(r, c)),
        8 => {
            // both public constructors: `new` and `From<Vec<_>>`
            let v = vec_of(r, 1, ml, |r| p2(r, c));
            Shape::Multipoint(if r.chance(0.3) { Multipoint::from(v) } else { Multipoint::new(v) })
        }
        28 => {
            // both public constructors: `new` and `From<Vec<_>>`
            let v = vec_of(r, 1, ml, |r| pm(r, c));
            Shape::MultipointM(if r.chance(0.3) { MultipointM::from(v) } else { MultipointM::new(v) })
        }
        18 => {
            // both public constructors: `new` and `From<Vec<_>>`
            let v = vec_of(r, 1, ml, |r| pz(r, c));
            Shape::MultipointZ(if r.chance(0.3) { MultipointZ::from(v) } else { MultipointZ::new(v) })
        }
        3 => Shape::Polyline(Polyline::with_parts(vec_of(r, 1, mp, |r| vec_of(r, 2, ml.max(2), |r| p2(r, c))))),
        23 => Shape::PolylineM(PolylineM::with_parts(vec_of(r, 1, mp, |r| vec_of(r, 2, ml.max(2), |r| pm(r, c))))),
        13 => Shape::PolylineZ(PolylineZ::with_parts(vec_of(r, 1, mp, |r| vec_of(r, 2, ml.max(2), |r| pz(r, c))))),
        5 => {
            let mut rings = vec_of(r, 1, mp, |r| {
                let v = vec_of(r, 1, ml, |r| p2(r, c));
                let v = maybe_close(r, v);
                ring_of(r, v)
            });
            // a single ring goes through the single-ring constructor every other time
            Shape::Polygon(if rings.len() == 1 && r.chance(0.5) { Polygon::new(rings.pop().unwrap()) } else { Polygon::with_rings(rings) })
        }
        25 => {
            let mut rings = vec_of(r, 1, mp, |r| {
                let v = vec_of(r, 1, ml, |r| pm(r, c));
                let v = maybe_close(r, v);
                ring_of(r, v)
            });
            // a single ring goes through the single-ring constructor every other time
            Shape::PolygonM(if rings.len() == 1 && r.chance(0.5) { PolygonM::new(rings.pop().unwrap()) } else { PolygonM::with_rings(rings) })
        }
        15 => {
            let mut rings = vec_of(r, 1, mp, |r| {
                let v = vec_of(r, 1, ml, |r| pz(r, c));
                let v = maybe_close(r, v);
                ring_of(r, v)
            });
            // a single ring goes through the single-ring constructor every other time
            Shape::PolygonZ(if rings.len() == 1 && r.chance(0.5) { PolygonZ::new(rings.pop().unwrap()) } else { PolygonZ::with_rings(rings) })
        }
        31 => {
            let mut patches = vec_of(r, 1, mp, |r| {
                let v = vec_of(r, 1, ml, |r| pz(r, c));
                let v = maybe_close(r, v);
                patch_of(r, v)
            });
            Shape::Multipatch(if patches.len() == 1 && r.chance(0.5) { Multipatch::new(patches.pop().unwrap()) } else { Multipatch::with_parts(patches) })
        }
        _ => panic!("harness: no generator for type code {}", t),
    }
}

/// A shape with exactly `parts` parts of exactly `len` vertices each (as handed to the
/// constructor; polygon/multipatch ring closing may add one vertex per ring). Used where
/// the workload is a dense grid over (parts, len).
pub fn shape_exact(t: i32, r: &mut Rng, c: &Cfg, parts: usize, len: usize) -> Shape {
    let l2 = len.max(2);
    match t {
        1 | 21 | 11 => shape(t, r, c),
        8 => Shape::Multipoint(Multipoint::new(vec_of(r, len, len, |r| p2(r, c)))),
        28 => Shape::MultipointM(MultipointM::new(vec_of(r, len, len, |r| pm(r, c)))),
        18 => Shape::MultipointZ(MultipointZ::new(vec_of(r, len, len, |r| pz(r, c)))),
        3 => Shape::Polyline(Polyline::with_parts(vec_of(r, parts, parts, |r| vec_of(r, l2, l2, |r| p2(r, c))))),
        23 => Shape::PolylineM(PolylineM::with_parts(vec_of(r, parts, parts, |r| vec_of(r, l2, l2, |r| pm(r, c))))),
        13 => Shape::PolylineZ(PolylineZ::with_parts(vec_of(r, parts, parts, |r| vec_of(r, l2, l2, |r| pz(r, c))))),
        5 => Shape::Polygon(Polygon::with_rings(vec_of(r, parts, parts, |r| {
            let v = vec_of(r, len, len, |r| p2(r, c));
            ring_of(r, v)
        }))),
        25 => Shape::PolygonM(PolygonM::with_rings(vec_of(r, parts, parts, |r| {
            let v = vec_of(r, len, len, |r| pm(r, c));
            ring_of(r, v)
        }))),
        15 => Shape::PolygonZ(PolygonZ::with_rings(vec_of(r, parts, parts, |r| {
            let v = vec_of(r, len, len, |r| pz(r, c));
            ring_of(r, v)
        }))),
        31 => Shape::Multipatch(Multipatch::with_parts(vec_of(r, parts, parts, |r| {
            let v = vec_of(r, len, len, |r| pz(r, c));
            patch_of(r, v)
        }))),
        _ => panic!("harness: no generator for type code {}", t),
    }
}

/// The same polygon / multipatch with one or two vertex-less rings / patches inserted at
/// positions other than the first (rebuilt through `with_rings` / `with_parts`).
pub fn with_empty_parts(s: &Shape, r: &mut Rng) -> Shape {
    use crate::dump::Dump;
    let d = s.d();
    if !(is_polygon(d.ty) || d.ty == 31) {
        return crate::shapes::clone_shape(s);
    }
    let mut input: Vec<(i32, Vec<[u64; 4]>)> = d.parts.iter().enumerate().map(|(i, p)| (d.kinds.get(i).copied().unwrap_or(0), p.clone())).collect();
    for _ in 0..1 + r.below(2) {
        let pos = r.usize_in(1, input.len());
        let kind = if d.ty == 31 { r.below(6) as i32 } else { r.below(2) as i32 };
        input.insert(pos, (kind, vec![]));
    }
    crate::shapes::build_from_parts(d.ty, &input, false)
}

/// A sequence of 1..=max_n shapes of type `t` with deliberately different sizes (so record
/// offsets are not an arithmetic progression); every 7th sequence uses equal sizes instead.
pub fn sequence(t: i32, r: &mut Rng, c: &Cfg, min_n: usize, max_n: usize, variant: u64) -> Vec<Shape> {
    let n = r.usize_in(min_n, max_n.max(min_n));
    if variant % 11 == 5 && carries_m(t) {
        // all measures of all shapes equal one special value (no-data regimes)
        let m = *r.pick(&[NO_DATA, f64::NAN, f64::NEG_INFINITY, prev(NO_DATA), 0.0, -1e39]);
        let m = if c.nan_zm || !m.is_nan() { m } else { NO_DATA };
        return (0..n).map(|_| crate::shapes::with_uniform_measure(&shape(t, r, c), m)).collect();
    }
    if variant % 13 == 7 {
        // consecutive identical records (and one value repeated three times)
        let mut v: Vec<Shape> = vec![];
        while v.len() < n {
            let s = shape(t, r, c);
            let reps = 1 + r.below(3) as usize;
            for _ in 0..reps.min(n - v.len()) {
                v.push(crate::shapes::clone_shape(&s));
            }
        }
        return v;
    }
    if variant % 17 == 9 && !is_point(t) {
        // data-dependent coincidences: as many parts as points (one-vertex rings / patches,
        // two-vertex polyline parts), x == y everywhere, or x equal to the running vertex index
        let style = (variant / 17) % 3;
        return (0..n)
            .map(|k| {
                let parts = r.usize_in(1, c.max_parts.max(1));
                let len = if is_polyline(t) { 2 } else if is_multipoint(t) { parts } else { 1 };
                let base = shape_exact(t, r, c, if is_multipoint(t) { 1 } else { parts }, len);
                if style == 0 {
                    return base;
                }
                use crate::dump::Dump;
                let d = base.d();
                let mut idx = k as f64;
                let input: Vec<(i32, Vec<[u64; 4]>)> = d
                    .parts
                    .iter()
                    .enumerate()
                    .map(|(i, p)| {
                        let pts = p
                            .iter()
                            .map(|v| {
                                idx += 1.0;
                                if style == 1 { [v[0], v[0], v[2], v[3]] } else { [idx.to_bits(), v[1], v[2], v[3]] }
                            })
                            .collect();
                        (d.kinds.get(i).copied().unwrap_or(0), pts)
                    })
                    .collect();
                crate::shapes::build_from_parts(t, &input, false)
            })
            .collect();
    }
    if variant % 19 == 4 && (is_polygon(t) || t == 31) {
        // rings / patches WITHOUT any vertex, anywhere but first (the constructors accept them
        // there; the first ring of a shape feeds its box)
        return (0..n).map(|_| with_empty_parts(&shape(t, r, c), r)).collect();
    }
    if variant % 23 == 6 && is_polygon(t) {
        // polygons that did not come out of a ring constructor: converted from a polyline of the
        // same dimension (`From<GenericPolyline>` keeps the parts as they are: open rings, any order)
        return (0..n)
            .map(|_| match shape(t - 2, r, c) {
                Shape::Polyline(l) => Shape::Polygon(Polygon::from(l)),
                Shape::PolylineM(l) => Shape::PolygonM(PolygonM::from(l)),
                Shape::PolylineZ(l) => Shape::PolygonZ(PolygonZ::from(l)),
                other => other,
            })
            .collect();
    }
    if variant % 7 == 3 {
        let parts = r.usize_in(1, c.max_parts.max(1));
        let len = r.usize_in(1, c.max_len.max(1));
        (0..n).map(|_| shape_exact(t, r, c, parts, len)).collect()
    } else {
        (0..n).map(|_| shape(t, r, c)).collect()
    }
}

/// Amounts straddling powers of two (2^j - 1, 2^j, 2^j + 1 for j = 8, 9, 10, 12, 13 and, thorough,
/// up to 2^16): record counts, point counts and part counts of the "large" cases. Caps on
/// pre-allocation, buffer sizes and growth policies change behaviour at such amounts, and a
/// defect behind one never shows on the handful-of-elements inputs that dominate a workload.
pub fn threshold_sizes(thorough: bool) -> Vec<usize> {
    let mut v = vec![];
    for j in [8usize, 9, 10, 12, 13] {
        v.extend_from_slice(&[(1 << j) - 1, 1 << j, (1 << j) + 1]);
    }
    if thorough {
        for j in [14usize, 15, 16] {
            v.extend_from_slice(&[(1 << j) - 1, 1 << j, (1 << j) + 1]);
        }
    }
    v
}

/// Two shapes of type `t` whose serialised sizes differ (for the multi-vertex types).
pub fn two_sizes(t: i32, r: &mut Rng) -> (Shape, Shape) {
    let c = Cfg::plain(1, 2);
    let a = shape_exact(t, r, &c, 1, 2);
    let b = shape_exact(t, r, &c, 3, 4);
    (a, b)
}
