//! C13 — truncated or failing sources give errors and only genuine shapes.
//!
//! Fault enumeration over (a) every truncation length of the .shp (with the intact .shx and
//! without) and of the .shx, (b) a fault at every k-th read/seek of a full traversal
//! (iteration, then read_nth_shape for each i), (c) short-read chunking schedules.

use crate::dump::{first_diff, Dump, D};
use crate::gen::{self, type_name, Cfg, TYPES};
use crate::iomon::{Chunking, Src};
use crate::json::J;
use crate::panicmon;
use crate::rawshp;
use crate::report::{par, Ctx, Report};
use crate::rng::{tag, Rng};
use crate::shapes::{err_class, write_all_mem};
use shapefile::*;
use std::io::Cursor;

#[derive(Debug)]
enum Item {
    Ok(D),
    Err(String, bool), // class, is IoError
}

fn item(x: Result<Shape, Error>) -> Item {
    match x {
        Ok(s) => Item::Ok(s.d()),
        Err(e) => Item::Err(err_class(&e), matches!(e, Error::IoError(_))),
    }
}

/// Iterate until the first error (what happens afterwards is C07's business).
fn iterate<T: std::io::Read + std::io::Seek>(rd: &mut ShapeReader<T>, cap: usize) -> Vec<Item> {
    let mut v = vec![];
    for x in rd.iter_shapes() {
        let it = item(x);
        let stop = matches!(it, Item::Err(..));
        v.push(it);
        if stop || v.len() > cap {
            break;
        }
    }
    v
}

fn items_json(v: &[Item]) -> J {
    J::Arr(v.iter().map(|i| match i { Item::Ok(_) => J::s("Ok"), Item::Err(c, _) => J::s(c.clone()) }).collect())
}

/// A valid .dbf with n rows (row i holds i), for the complete reader.
fn dbf_with_rows(n: usize) -> Vec<u8> {
    let dest = crate::iomon::Dest::new();
    {
        let mut w = crate::e_c10::table_builder().build_with_dest(dest.clone());
        for i in 0..n {
            w.write_record(&crate::e_c08::good_row(i)).expect("harness: dbf row");
        }
    }
    dest.data()
}

/// The routes that answer with ONE result for the whole file. On a cut file (l < full) they
/// must fail with an I/O error; on the complete file they return every shape.
fn whole_file_routes(cut: &[u8], shx: Option<&[u8]>, dbf: &[u8]) -> Vec<(&'static str, Result<Vec<D>, (String, bool)>)> {
    let e = |x: Error| (err_class(&x), matches!(x, Error::IoError(_)));
    let c = |b: &[u8]| Cursor::new(b.to_vec());
    let mk = || match shx {
        Some(x) => ShapeReader::with_shx(c(cut), c(x)),
        None => ShapeReader::new(c(cut)),
    };
    let mut out: Vec<(&'static str, Result<Vec<D>, (String, bool)>)> = vec![];
    out.push(("ShapeReader::read", mk().and_then(|r| r.read()).map(|v| v.iter().map(|s| s.d()).collect()).map_err(e)));
    if let Some(t) = crate::rawshp::le32(cut, 32).filter(|c| crate::gen::TYPES.contains(c)) {
        out.push(("ShapeReader::read_as(own type)", for_type!(t, S => mk().and_then(|r| r.read_as::<S>()).map(|v| v.iter().map(|s| s.d()).collect()).map_err(e))));
    }
    out.push((
        "Reader::read",
        mk().and_then(|r| Ok(Reader::new(r, shapefile::dbase::Reader::new(c(dbf))?)))
            .and_then(|mut r| r.read())
            .map(|v| v.iter().map(|(s, _)| s.d()).collect())
            .map_err(e),
    ));
    out.push((
        "Reader::iter_shapes_and_records.collect",
        mk().and_then(|r| Ok(Reader::new(r, shapefile::dbase::Reader::new(c(dbf))?)))
            .and_then(|mut r| r.iter_shapes_and_records().collect::<Result<Vec<_>, Error>>())
            .map(|v| v.iter().map(|(s, _)| s.d()).collect())
            .map_err(e),
    ));
    out
}

struct File {
    t: i32,
    shp: Vec<u8>,
    shx: Vec<u8>,
    want: Vec<D>,
    /// byte offsets where each record ends (record i is wholly inside L iff ends[i] <= L)
    ends: Vec<usize>,
    /// a table of n rows for the complete reader
    dbf: Vec<u8>,
}

fn truncations(f: &File, fi: usize, ctx: &Ctx, rep: &mut Report) {
    let n = f.want.len();
    let tname = type_name(f.t);
    for with_shx in [false, true] {
        for l in 0..=f.shp.len() {
            // routes: in-memory cursors always; for a sample of the lengths (every 9th, the
            // header boundary and each record end +-1) also real files opened by path, where
            // the library reads through its own BufReader<File>
            let near_end = l == 99 || l == 100 || l == 101 || f.ends.iter().any(|&e| l + 1 == e || l == e || l == e + 1);
            let by_path = !cfg!(miri) && (l % 9 == fi % 9 || near_end);
            for route in ["cursor", "path"] {
            if route == "path" && !by_path {
                continue;
            }
            let case = format!("c13:f{}:trunc-shp:{}:L{}{}", fi, if with_shx { "idx" } else { "noidx" }, l, if route == "path" { ":path" } else { "" });
            if !ctx.want(&case) {
                continue;
            }
            rep.eval();
            rep.nontrivial(&case);
            rep.class(if route == "path" { "truncated .shp on disk, opened by path" } else if with_shx { "truncated .shp, intact .shx" } else { "truncated .shp, no index" });
            let cut = f.shp[..l].to_vec();
            let res = panicmon::catch(|| {
                let rd = if route == "path" {
                    let base = format!("{}/files/f{}_{}", ctx.out, fi, if with_shx { "idx" } else { "noidx" });
                    std::fs::write(format!("{}.shp", base), &cut).expect("harness: write truncated file");
                    let shx_path = format!("{}.shx", base);
                    if with_shx {
                        std::fs::write(&shx_path, &f.shx).expect("harness: write index file");
                    } else {
                        let _ = std::fs::remove_file(&shx_path);
                    }
                    rep.count("truncated_files_opened_by_path", 1);
                    match ShapeReader::from_path(format!("{}.shp", base)) {
                        Err(e) => return Err((err_class(&e), matches!(e, Error::IoError(_)))),
                        Ok(mut rd) => return Ok(iterate(&mut rd, n + 2)),
                    }
                } else if with_shx {
                    ShapeReader::with_shx(Cursor::new(cut), Cursor::new(f.shx.clone()))
                } else {
                    ShapeReader::new(Cursor::new(cut))
                };
                match rd {
                    Err(e) => Err((err_class(&e), matches!(e, Error::IoError(_)))),
                    Ok(mut rd) => Ok(iterate(&mut rd, n + 2)),
                }
            });
            let whole = f.ends.iter().filter(|&&e| e <= l).count();
            let detail = |what: &str, items: J| {
                J::obj(vec![("type", J::s(tname)), ("truncated_to", J::UInt(l as u64)), ("full_length", J::UInt(f.shp.len() as u64)), ("with_index", J::Bool(with_shx)), ("records_wholly_inside", J::UInt(whole as u64)), ("what", J::s(what)), ("items", items), ("shp_hex", J::bytes_hex(&f.shp))])
            };
            let sig = |field: &str| format!("trunc-shp/{}{}/{}", if with_shx { "idx" } else { "noidx" }, if route == "path" { "/path" } else { "" }, field);
            match res {
                Err(p) => rep.violation(&sig("panic"), &case, detail(&p.class(), J::Null)),
                Ok(Err((class, is_io))) => {
                    // failing to open is only legitimate when the header itself is cut, and must be an I/O error
                    if l >= 100 {
                        rep.violation(&sig("open-failed-with-complete-header"), &case, detail(&class, J::Null));
                    } else if !is_io {
                        rep.violation(&sig("header-cut-not-io-error"), &case, detail(&class, J::Null));
                    } else {
                        rep.count("header_cuts_reported_as_io_error", 1);
                    }
                }
                Ok(Ok(items)) => {
                    if l < 100 {
                        rep.violation(&sig("opened-a-cut-header"), &case, detail("reader opened on fewer than 100 bytes", items_json(&items)));
                        continue;
                    }
                    let oks: Vec<&D> = items.iter().filter_map(|i| if let Item::Ok(d) = i { Some(d) } else { None }).collect();
                    let mut bad: Option<String> = None;
                    for (k, g) in oks.iter().enumerate() {
                        match f.want.get(k) {
                            None => bad = Some("invented-shape".into()),
                            Some(w) => {
                                if let Some(fld) = first_diff(g, w) {
                                    bad = Some(format!("wrong-shape.{}", fld));
                                }
                            }
                        }
                        if bad.is_some() {
                            break;
                        }
                    }
                    if bad.is_none() && oks.len() != whole {
                        bad = Some(if oks.len() < whole { "lost-whole-record".into() } else { "returned-cut-record".into() });
                    }
                    if bad.is_none() && l < f.shp.len() {
                        match items.last() {
                            Some(Item::Err(_, true)) => rep.count("cut_records_reported_as_io_error", 1),
                            Some(Item::Err(_, false)) => bad = Some("cut-record-not-io-error".into()),
                            _ => bad = Some("cut-record-not-reported".into()),
                        }
                    }
                    if bad.is_none() && l == f.shp.len() && items.iter().any(|i| matches!(i, Item::Err(..))) {
                        bad = Some("error-on-complete-file".into());
                    }
                    if let Some(b) = bad {
                        rep.violation(&sig(&b), &case, detail(&b, items_json(&items)));
                    }
                }
            }
            // ---- the one-liners on the file just written (by-path samples): one result for the whole file
            if route == "path" && l >= 100 && !cfg!(miri) {
                let base = format!("{}/files/f{}_{}", ctx.out, fi, if with_shx { "idx" } else { "noidx" });
                let path = format!("{}.shp", base);
                let _ = std::fs::write(format!("{}.dbf", base), &f.dbf);
                let e = |x: Error| (err_class(&x), matches!(x, Error::IoError(_)));
                let rs: Vec<(&str, Result<usize, (String, bool)>)> = vec![
                    ("read_shapes(path)", panicmon::catch(|| shapefile::read_shapes(&path).map(|v| v.len()).map_err(e)).unwrap_or_else(|p| Err((format!("panic {}", p.class()), false)))),
                    ("shapefile::read(path)", panicmon::catch(|| shapefile::read(&path).map(|v| v.len()).map_err(e)).unwrap_or_else(|p| Err((format!("panic {}", p.class()), false)))),
                ];
                for (name, r) in rs {
                    rep.count("cuts_read_through_path_one_liners", 1);
                    let bad: Option<String> = match r {
                        Ok(k) if l < f.shp.len() => Some(format!("cut-record-not-reported: {} returned Ok with {} shapes", name, k)),
                        Ok(k) if k != n => Some(format!("{} on the complete file returned {} of {} shapes", name, k, n)),
                        Ok(_) => None,
                        Err((_, true)) if l < f.shp.len() => None,
                        Err((class, _)) if l < f.shp.len() => Some(format!("cut-record-not-io-error: {} failed with {}", name, class)),
                        Err((class, _)) => Some(format!("error-on-complete-file: {} failed with {}", name, class)),
                    };
                    if let Some(b) = bad {
                        rep.violation(&sig(&format!("{}/{}", name, b.split(':').next().unwrap_or("bad").split(' ').next().unwrap_or("bad"))), &case, detail(&b, J::Null));
                    }
                }
                let _ = std::fs::remove_file(format!("{}.dbf", base));
            }
            // ---- the same cut through the routes that answer once for the whole file, and through
            //      random access (every 3rd length, the boundaries always)
            if route == "cursor" && l >= 100 && (l % 3 == fi % 3 || near_end) && !cfg!(miri) {
                let cutb = f.shp[..l].to_vec();
                let whole_routes = panicmon::catch(|| whole_file_routes(&cutb, if with_shx { Some(&f.shx) } else { None }, &f.dbf));
                match whole_routes {
                    Err(p) => rep.violation(&sig("panic"), &case, detail(&p.class(), J::Null)),
                    Ok(rs) => {
                        for (name, r) in rs {
                            rep.count("cuts_read_through_whole_file_routes", 1);
                            let bad: Option<String> = match r {
                                Ok(v) if l < f.shp.len() => Some(format!("cut-record-not-reported: {} returned Ok with {} shapes", name, v.len())),
                                Ok(v) => {
                                    if v.len() != n || v.iter().zip(&f.want).any(|(g, w)| first_diff(g, w).is_some()) {
                                        Some(format!("{} on the complete file differs from what was written", name))
                                    } else {
                                        None
                                    }
                                }
                                Err((class, is_io)) if l < f.shp.len() => {
                                    if is_io {
                                        None
                                    } else {
                                        Some(format!("cut-record-not-io-error: {} failed with {}", name, class))
                                    }
                                }
                                Err((class, _)) => Some(format!("error-on-complete-file: {} failed with {}", name, class)),
                            };
                            if let Some(b) = bad {
                                rep.violation(&sig(&format!("{}/{}", name, b.split(':').next().unwrap_or("bad").split(' ').next().unwrap_or("bad"))), &case, detail(&b, J::Null));
                            }
                        }
                    }
                }
                if with_shx {
                    // random access with the intact index: a record wholly inside comes back as written,
                    // any other index below n is an I/O error - never None, never another shape
                    let nth = panicmon::catch(|| {
                        ShapeReader::with_shx(Cursor::new(cutb.clone()), Cursor::new(f.shx.clone())).map(|mut rd| (0..n).map(|i| rd.read_nth_shape(i).map(item)).collect::<Vec<_>>()).map_err(|e| err_class(&e))
                    });
                    match nth {
                        Err(p) => rep.violation(&sig("nth/panic"), &case, detail(&p.class(), J::Null)),
                        Ok(Err(class)) => rep.violation(&sig("open-failed-with-complete-header"), &case, detail(&class, J::Null)),
                        Ok(Ok(v)) => {
                            for (i, x) in v.iter().enumerate() {
                                rep.count("random_accesses_on_cut_files", 1);
                                let inside = f.ends[i] <= l;
                                let bad = match x {
                                    None => Some("nth/returned-None-below-the-count"),
                                    Some(Item::Ok(g)) if inside && first_diff(g, &f.want[i]).is_none() => None,
                                    Some(Item::Ok(_)) if inside => Some("nth/wrong-shape"),
                                    Some(Item::Ok(_)) => Some("nth/returned-cut-record"),
                                    Some(Item::Err(..)) if inside => Some("nth/lost-whole-record"),
                                    Some(Item::Err(_, true)) => None,
                                    Some(Item::Err(_, false)) => Some("nth/cut-record-not-io-error"),
                                };
                                if let Some(b) = bad {
                                    rep.violation(&sig(b), &case, detail(&format!("read_nth_shape({})", i), J::Null));
                                    break;
                                }
                            }
                        }
                    }
                }
            }
            }
        }
    }
    // ---- .shx truncated, .shp intact
    for m in 0..=f.shx.len() {
        let case = format!("c13:f{}:trunc-shx:M{}", fi, m);
        if !ctx.want(&case) {
            continue;
        }
        rep.eval();
        rep.nontrivial(&case);
        rep.class("truncated .shx, intact .shp");
        let cut = f.shx[..m].to_vec();
        let res = panicmon::catch(|| match ShapeReader::with_shx(Cursor::new(f.shp.clone()), Cursor::new(cut)) {
            Err(e) => Err(err_class(&e)),
            Ok(mut rd) => {
                let it = iterate(&mut rd, n + 2);
                let cnt = rd.shape_count().unwrap_or(usize::MAX);
                let nth: Vec<Item> = (0..cnt.min(n + 2)).filter_map(|i| rd.read_nth_shape(i).map(item)).collect();
                Ok((it, nth))
            }
        });
        let detail = |what: &str| J::obj(vec![("type", J::s(tname)), ("shx_truncated_to", J::UInt(m as u64)), ("shx_full_length", J::UInt(f.shx.len() as u64)), ("what", J::s(what))]);
        match res {
            Err(p) => rep.violation("trunc-shx/panic", &case, detail(&p.class())),
            Ok(Err(_)) => {
                if m == f.shx.len() {
                    rep.violation("trunc-shx/error-on-complete-index", &case, detail("open failed on the complete index"));
                } else {
                    rep.count("cut_index_rejected_at_open", 1);
                }
            }
            Ok(Ok((it, nth))) => {
                // a cut index that opens has to say so somewhere: an I/O error from the iteration or a
                // count below n is an observable sign; the full count without any error is not possible,
                // and n items without error from fewer than n entries would be invented
                if m < f.shx.len() && m >= 100 {
                    let errs = it.iter().any(|i| matches!(i, Item::Err(..)));
                    let oks = it.iter().filter(|i| matches!(i, Item::Ok(_))).count();
                    let entries_left = (m - 100) / 8;
                    if !errs && oks != n {
                        // silently shorter: the cut is not reported by anything
                        rep.violation("trunc-shx/cut-index-not-reported", &case, detail(&format!("the index was cut to {} whole entries, the reader opened it and iterated {} shapes without any error", entries_left, oks)));
                    }
                    rep.count("cut_index_accepted_at_open", 1);
                }
                // an accepted (shorter) index must still only produce genuine shapes, in order
                for (label, items) in [("iter", &it), ("nth", &nth)] {
                    for (k, i) in items.iter().enumerate() {
                        if let Item::Ok(g) = i {
                            let ok = f.want.get(k).map(|w| first_diff(g, w).is_none()).unwrap_or(false);
                            if !ok {
                                rep.violation(&format!("trunc-shx/{}/wrong-shape", label), &case, detail("a shape that was not written at this position"));
                                break;
                            }
                        }
                    }
                }
                if m == f.shx.len() && (it.len() != n || it.iter().any(|i| matches!(i, Item::Err(..)))) {
                    rep.violation("trunc-shx/iter/complete-index-incomplete-read", &case, detail("complete files did not read back completely"));
                }
            }
        }
    }
}

/// Full traversal on instrumented sources: open, iterate to the end, then read_nth for each
/// i; every API call gets its own epoch. Returns per-call (epoch, label, is_err, is_io) and
/// the Ok dumps.
/// `order` 0: open, iterate to the end, read_nth_shape for each i.
/// `order` 1 (index only): open, read_nth_shape(0), iterate, read_nth_shape(n-1), iterate.
fn traversal(shp: Src, shx: Option<Src>, n: usize, order: u8) -> Result<Vec<(usize, String, bool, bool, Option<D>)>, panicmon::PanicInfo> {
    if order == 4 {
        return traversal_complete(shp, shx, n);
    }
    panicmon::catch(|| {
        let mut calls = vec![];
        let set = |e: usize| {
            shp.set_epoch(e);
            if let Some(x) = &shx {
                x.set_epoch(e);
            }
        };
        let mut epoch = 1;
        set(epoch);
        let rd = match &shx {
            Some(x) => ShapeReader::with_shx(shp.clone(), x.clone()),
            None => ShapeReader::new(shp.clone()),
        };
        let mut rd = match rd {
            Ok(r) => {
                calls.push((epoch, "open".to_string(), false, false, None));
                r
            }
            Err(e) => {
                calls.push((epoch, "open".to_string(), true, matches!(e, Error::IoError(_)), None));
                return calls;
            }
        };
        if order == 2 || order == 3 {
            // the public seek is a call under test of its own, then the iteration it positions
            // (order 3: a seek behind the last record, which positions the source at its end)
            let k = if order == 3 { n + 1 } else { n / 2 };
            epoch += 1;
            set(epoch);
            match rd.seek(k) {
                Ok(()) => calls.push((epoch, format!("seek({})", k), false, false, None)),
                Err(e) => {
                    calls.push((epoch, format!("seek({})", k), true, matches!(e, Error::IoError(_)), None));
                    return calls;
                }
            }
        }
        let passes = if order == 1 && shx.is_some() { 2 } else { 1 };
        for pass in 0..passes {
            if order == 1 {
                let i = if pass == 0 { 0 } else { n.saturating_sub(1) };
                epoch += 1;
                set(epoch);
                match rd.read_nth_shape(i) {
                    None => calls.push((epoch, format!("nth({})->None", i), false, false, None)),
                    Some(Ok(s)) => calls.push((epoch, format!("nth({})", i), false, false, Some(s.d()))),
                    Some(Err(e)) => calls.push((epoch, format!("nth({})", i), true, matches!(e, Error::IoError(_)), None)),
                }
            }
            let mut it = rd.iter_shapes();
            let start = calls.len();
            loop {
                epoch += 1;
                set(epoch);
                match it.next() {
                    None => {
                        calls.push((epoch, "next->None".to_string(), false, false, None));
                        break;
                    }
                    Some(Ok(s)) => calls.push((epoch, "next".to_string(), false, false, Some(s.d()))),
                    Some(Err(e)) => {
                        calls.push((epoch, "next".to_string(), true, matches!(e, Error::IoError(_)), None));
                        break;
                    }
                }
                if calls.len() - start > n + 4 {
                    break;
                }
            }
        }
        if shx.is_some() && order == 0 {
            for i in 0..n {
                epoch += 1;
                set(epoch);
                match rd.read_nth_shape(i) {
                    None => calls.push((epoch, format!("nth({})->None", i), false, false, None)),
                    Some(Ok(s)) => calls.push((epoch, format!("nth({})", i), false, false, Some(s.d()))),
                    Some(Err(e)) => calls.push((epoch, format!("nth({})", i), true, matches!(e, Error::IoError(_)), None)),
                }
            }
        }
        calls
    })
}

/// Order 4: the complete reader (a healthy table of n rows next to the failing shape sources):
/// open, then the pair iterator to its end, each `next()` an epoch of its own.
fn traversal_complete(shp: Src, shx: Option<Src>, n: usize) -> Result<Vec<(usize, String, bool, bool, Option<D>)>, panicmon::PanicInfo> {
    panicmon::catch(|| {
        let mut calls = vec![];
        let set = |e: usize| {
            shp.set_epoch(e);
            if let Some(x) = &shx {
                x.set_epoch(e);
            }
        };
        let mut epoch = 1;
        set(epoch);
        let rd = match &shx {
            Some(x) => ShapeReader::with_shx(shp.clone(), x.clone()),
            None => ShapeReader::new(shp.clone()),
        };
        let rd = match rd {
            Ok(r) => {
                calls.push((epoch, "open".to_string(), false, false, None));
                r
            }
            Err(e) => {
                calls.push((epoch, "open".to_string(), true, matches!(e, Error::IoError(_)), None));
                return calls;
            }
        };
        let db = shapefile::dbase::Reader::new(Cursor::new(dbf_with_rows(n))).expect("harness: dbf");
        let mut full = Reader::new(rd, db);
        let mut it = full.iter_shapes_and_records();
        loop {
            epoch += 1;
            set(epoch);
            match it.next() {
                None => {
                    calls.push((epoch, "pair-next->None".to_string(), false, false, None));
                    break;
                }
                Some(Ok((s, _))) => calls.push((epoch, "pair-next".to_string(), false, false, Some(s.d()))),
                Some(Err(e)) => {
                    calls.push((epoch, "pair-next".to_string(), true, matches!(e, Error::IoError(_)), None));
                    break;
                }
            }
            if calls.len() > n + 6 {
                break;
            }
        }
        calls
    })
}

/// The same records with 2..8 filler bytes in front of each (a valid layout when read through
/// the index, which is rebuilt accordingly; the header length covers the whole file).
fn padded_variant(f: &File) -> (Vec<u8>, Vec<u8>) {
    let mut shp = f.shp[..100].to_vec();
    let mut shx = f.shx[..100].to_vec();
    let mut start = 100usize;
    for (k, &end) in f.ends.iter().enumerate() {
        let gap = [2usize, 8, 4, 6, 2][k % 5];
        shp.extend(std::iter::repeat(0xA5u8).take(gap));
        let off = (shp.len() / 2) as i32;
        shp.extend_from_slice(&f.shp[start..end]);
        shx.extend_from_slice(&off.to_be_bytes());
        shx.extend_from_slice(&f.shp[start + 4..start + 8]);
        start = end;
    }
    let words = (shp.len() / 2) as i32;
    shp[24..28].copy_from_slice(&words.to_be_bytes());
    (shp, shx)
}

fn faults_and_chunks(f: &File, fi: usize, ctx: &Ctx, rep: &mut Report) {
    let n = f.want.len();
    let tname = type_name(f.t);
    for with_shx in [false, true] {
        let mut layouts: Vec<(&str, Vec<u8>, Vec<u8>)> = vec![("", f.shp.clone(), f.shx.clone())];
        if with_shx && n <= 8 && !cfg!(miri) {
            // the same records with 2..8 filler bytes in front of each, reachable through the index
            // only: there the iteration itself has to seek, and those seeks can fail too
            let (pshp, pshx) = padded_variant(f);
            layouts.push((":padded", pshp, pshx));
        }
        for (layout, lshp, lshx) in layouts.iter() {
        if !layout.is_empty() {
            rep.count("fault_enumerations_on_padded_layouts", 1);
        }
        // undisturbed traversal: number of operations on each source
        let shp = Src::new(lshp.clone());
        let shx = if with_shx { Some(Src::new(lshx.clone())) } else { None };
        for order in [0u8, 1, 2, 3, 4] {
        if (1..=3).contains(&order) && !with_shx {
            continue;
        }
        let base = match traversal(shp.clone(), shx.clone(), n, order) {
            Ok(c) => c,
            Err(p) => {
                rep.violation("fault/undisturbed-panic", &format!("c13:f{}:base", fi), J::s(p.class()));
                return;
            }
        };
        let base_ok: Vec<&D> = base.iter().filter_map(|c| c.4.as_ref()).collect();
        let n_shp = shp.n_ops();
        let n_shx = shx.as_ref().map(|x| x.n_ops()).unwrap_or(0);
        for (target, n_ops) in [("shp", n_shp), ("shx", n_shx)] {
            for k in 0..n_ops {
                for persistent in [false, true] {
                    let case = format!("c13:f{}:fault{}:{}{}:{}:k{}:{}", fi, layout, if with_shx { "idx" } else { "noidx" }, [ "", ":nth-first", ":seek-first", ":seek-behind-the-end", ":complete-reader"][order as usize], target, k, if persistent { "p" } else { "o" });
                    if !ctx.want(&case) {
                        continue;
                    }
                    let (s1, s2) = if target == "shp" {
                        (Src::faulty(lshp.clone(), k, persistent), if with_shx { Some(Src::new(lshx.clone())) } else { None })
                    } else {
                        (Src::new(lshp.clone()), Some(Src::faulty(lshx.clone(), k, persistent)))
                    };
                    let faulty = if target == "shp" { s1.clone() } else { s2.clone().unwrap() };
                    rep.eval();
                    rep.nontrivial(&case);
                    let detail = |what: String| J::obj(vec![("type", J::s(tname)), ("with_index", J::Bool(with_shx)), ("faulty_source", J::s(target)), ("fault_at_op", J::UInt(k as u64)), ("persistent", J::Bool(persistent)), ("what", J::s(what))]);
                    match traversal(s1, s2, n, order) {
                        Err(p) => rep.violation(&format!("fault-{}/panic", faulty.fault_kind().map(|c| if c == 'r' { "read" } else { "seek" }).unwrap_or("none")), &case, detail(p.class())),
                        Ok(calls) => {
                            let kind = match faulty.fault_kind() {
                                Some('r') => "read",
                                Some('s') => "seek",
                                _ => "none",
                            };
                            rep.class(&format!("fault in {} #k on {}", kind, target));
                            let fe = faulty.fault_epoch();
                            if fe.is_some() {
                                rep.count(&format!("faults_injected_{}", kind), 1);
                            }
                            // the call in progress when the first fault fired must return that error
                            if let Some(e) = fe {
                                match calls.iter().find(|c| c.0 == e) {
                                    Some(c) if c.2 && c.3 => {}
                                    Some(c) if c.2 => rep.violation(&format!("fault-{}/not-io-error", kind), &case, detail(format!("{} returned a non-I/O error", c.1))),
                                    Some(c) => rep.violation(&format!("fault-{}/swallowed", kind), &case, detail(format!("{} returned without error although its {} failed", c.1, kind))),
                                    None => rep.violation(&format!("fault-{}/unattributed", kind), &case, detail("no call owns the epoch of the fault".into())),
                                }
                            }
                            // everything returned Ok before/after must be genuine
                            let mut pos = if order == 2 { n / 2 } else if order == 3 { n } else { 0usize };
                            for c in &calls {
                                if let Some(g) = &c.4 {
                                    let idx = if c.1.starts_with("nth(") { c.1[4..c.1.len() - 1].parse::<usize>().unwrap_or(usize::MAX) } else { let p = pos; pos += 1; p };
                                    // in the nth-first order the position of an iteration item after a
                                    // failed call is not specified: there the item only has to be SOME
                                    // record of the file (never invented data)
                                    let ok = if order == 1 && !c.1.starts_with("nth(") {
                                        f.want.iter().any(|w| first_diff(g, w).is_none())
                                    } else {
                                        f.want.get(idx).map(|w| first_diff(g, w).is_none()).unwrap_or(false)
                                    };
                                    if !ok {
                                        rep.violation(&format!("fault-{}/wrong-shape", kind), &case, detail(format!("{} returned a shape that is not record {}", c.1, idx)));
                                        break;
                                    }
                                }
                            }
                        }
                    }
                }
            }
        }
        }
        }
        // ---- short reads
        let shp = Src::new(f.shp.clone());
        let shx = if with_shx { Some(Src::new(f.shx.clone())) } else { None };
        let base = match traversal(shp.clone(), shx.clone(), n, 0) {
            Ok(c) => c,
            Err(_) => return,
        };
        let base_ok: Vec<&D> = base.iter().filter_map(|c| c.4.as_ref()).collect();
        let mut schedules: Vec<Chunking> = (1..=8).map(Chunking::Fixed).collect();
        for s in 0..ctx.pick(12, 60) {
            schedules.push(Chunking::Random(ctx.seed ^ (s as u64 * 104729 + 7), 1 + s % 11));
        }
        // with an index: the same schedules over a layout with small gaps between the records
        if with_shx && f.want.len() <= 8 {
            let (pshp, pshx) = padded_variant(f);
            for (si, sch) in schedules.iter().enumerate() {
                let case = format!("c13:f{}:chunk:padded:{}", fi, si);
                if !ctx.want(&case) {
                    continue;
                }
                rep.eval();
                rep.class("short-read schedule, padded layout with index");
                rep.count("short_read_schedules_on_padded_layouts", 1);
                let full = traversal(Src::new(pshp.clone()), Some(Src::new(pshx.clone())), n, 0);
                let chunked = traversal(Src::chunked(pshp.clone(), sch.clone()), Some(Src::chunked(pshx.clone(), sch.clone())), n, 0);
                match (full, chunked) {
                    (Ok(a), Ok(b)) => {
                        let da: Vec<&D> = a.iter().filter_map(|c| c.4.as_ref()).collect();
                        let db: Vec<&D> = b.iter().filter_map(|c| c.4.as_ref()).collect();
                        let genuine = da.len() == 2 * n && da.iter().take(n).zip(&f.want).all(|(g, w)| first_diff(g, w).is_none());
                        if !genuine {
                            rep.violation("padded-layout/full-reads-differ-from-written", &case, J::s(tname));
                        } else if da != db || b.iter().any(|c| c.2) {
                            rep.violation("short-read/differs-from-full-reads", &case, J::obj(vec![("type", J::s(tname)), ("schedule", J::s(format!("{:?}", sch))), ("layout", J::s("2..8 filler bytes in front of every record, read through the index"))]));
                        }
                    }
                    (Err(p), _) | (_, Err(p)) => rep.violation("short-read/panic", &case, J::s(p.class())),
                }
            }
        }
        for (si, sch) in schedules.iter().enumerate() {
            let case = format!("c13:f{}:chunk:{}:{}", fi, if with_shx { "idx" } else { "noidx" }, si);
            if !ctx.want(&case) {
                continue;
            }
            rep.eval();
            rep.class("short-read schedule");
            rep.count("short_read_schedules", 1);
            let s1 = Src::chunked(f.shp.clone(), sch.clone());
            let s2 = if with_shx { Some(Src::chunked(f.shx.clone(), sch.clone())) } else { None };
            match traversal(s1, s2, n, 0) {
                Err(p) => rep.violation("short-read/panic", &case, J::s(p.class())),
                Ok(calls) => {
                    let got: Vec<&D> = calls.iter().filter_map(|c| c.4.as_ref()).collect();
                    let any_err = calls.iter().any(|c| c.2);
                    if any_err || got != base_ok {
                        rep.violation("short-read/differs-from-full-reads", &case, J::obj(vec![("type", J::s(tname)), ("schedule", J::s(format!("{:?}", sch))), ("with_index", J::Bool(with_shx)), ("error_seen", J::Bool(any_err))]));
                    }
                }
            }
        }
    }
}

pub fn run(ctx: &Ctx) -> Report {
    let types: Vec<i32> = if cfg!(miri) { vec![1, 25] } else { TYPES.to_vec() };
    let per_type = if cfg!(miri) { 1 } else { ctx.pick(4, 16) };
    let mut items: Vec<(i32, usize)> = types.iter().flat_map(|&t| (0..per_type).map(move |k| (t, k))).collect();
    // files with one LARGE record between two small ones (more than 1024 / 4096 points in the
    // last part of the large shape): truncation and faults inside a big coordinate array
    if !cfg!(miri) {
        for (j, &t) in [3, 15, 8, 25].iter().enumerate() {
            items.push((t, 1000 + j));
            if ctx.thorough {
                items.push((t, 2000 + j));
            }
        }
    }
    let mut rep = par(ctx, items.len(), |idx, rep| {
        let (t, k) = items[idx];
        let mut r = Rng::derive(ctx.seed, &[tag("c13"), t as u64, k as u64]);
        let c = Cfg::hostile(if k % 2 == 0 { 0.1 } else { 0.5 }, if cfg!(miri) { 2 } else { 3 }, if cfg!(miri) { 2 } else { 4 });
        let shapes = if k >= 1000 {
            let big = if k >= 2000 { 4100 } else { 1030 + 7 * (k % 10) };
            let small = Cfg::plain(2, 3);
            let large = if gen::is_multipoint(t) { gen::shape_exact(t, &mut r, &small, 1, big) } else {
                // two parts: a short one and a long LAST one
                let a = gen::shape_exact(t, &mut r, &small, 1, 3).d();
                let b = gen::shape_exact(t, &mut r, &small, 1, big).d();
                crate::shapes::build_from_parts(t, &[(0, a.parts[0].clone()), (if t == 3 { 0 } else { 1 }, b.parts[0].clone())], false)
            };
            rep.count("files_with_a_large_record", 1);
            vec![gen::shape(t, &mut r, &small), large, gen::shape(t, &mut r, &small)]
        } else {
            gen::sequence(t, &mut r, &c, 1, if cfg!(miri) { 2 } else { 4 }, k as u64)
        };
        let (mut shp, mut shx) = write_all_mem(&shapes, true).expect("harness: write");
        let mut want: Vec<D> = shapes.iter().map(|s| s.d().expected_after_roundtrip()).collect();
        if t == 11 && k % 2 == 1 && k < 1000 {
            // the other legal PointZ layout (another producer's): records WITHOUT the measure,
            // 14 words each; the reader reports NO_DATA for it
            let mut out = shp[..100].to_vec();
            let mut idx = shx[..100].to_vec();
            for (i, rec) in rawshp::walk(&shp).iter().enumerate() {
                let body = &shp[rec.end() - 36..rec.end() - 8];
                idx.extend_from_slice(&((out.len() / 2) as i32).to_be_bytes());
                idx.extend_from_slice(&14i32.to_be_bytes());
                out.extend_from_slice(&((i + 1) as i32).to_be_bytes());
                out.extend_from_slice(&14i32.to_be_bytes());
                out.extend_from_slice(body);
            }
            let w = (out.len() / 2) as i32;
            out[24..28].copy_from_slice(&w.to_be_bytes());
            shp = out;
            shx = idx;
            for d in want.iter_mut() {
                d.parts[0][0][3] = shapefile::NO_DATA.to_bits();
            }
            rep.count("files_of_PointZ_records_without_measure", 1);
        }
        let ends: Vec<usize> = rawshp::walk(&shp).iter().map(|r| r.end()).collect();
        assert_eq!(ends.len(), shapes.len(), "harness: record walk disagrees with the number of shapes written");
        if !cfg!(miri) {
            std::fs::create_dir_all(format!("{}/files", ctx.out)).expect("harness: mkdir");
        }
        let dbf = dbf_with_rows(want.len());
        let f = File { t, shp, shx, want, ends, dbf };
        truncations(&f, idx, ctx, rep);
        faults_and_chunks(&f, idx, ctx, rep);
        rep.sample(|| J::obj(vec![("file", J::UInt(idx as u64)), ("type", J::s(type_name(t))), ("records", J::UInt(f.want.len() as u64)), ("shp_bytes", J::UInt(f.shp.len() as u64)), ("record_ends", J::Arr(f.ends.iter().map(|e| J::UInt(*e as u64)).collect()))]));
    });
    if ctx.only.is_none() {
        if !cfg!(miri) {
            let v = rep.counters.get("truncated_files_opened_by_path").copied().unwrap_or(0);
            rep.guard("truncated files opened by path", v, 200);
            let _ = std::fs::remove_dir_all(format!("{}/files", ctx.out));
        }
        for k in ["cut_records_reported_as_io_error", "faults_injected_read", "faults_injected_seek", "short_read_schedules", "cut_index_rejected_at_open"] {
            let v = rep.counters.get(k).copied().unwrap_or(0);
            rep.guard(k, v, if cfg!(miri) { 1 } else { 100 });
        }
    }
    rep
}
