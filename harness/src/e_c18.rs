//! C18 — a shape's announced byte size equals what its serialisation emits, and the record
//! header stores that size + 4 in 16-bit words.

use crate::dump::{Dump, D};
use crate::gen::{self, Cfg, TYPES};
use crate::json::J;
use crate::report::{par, Ctx, Report};
use crate::rng::{tag, Rng};
use shapefile::record::WritableShape;
use shapefile::*;

/// Closed-form size (bytes, without the 4-byte type code) from the ESRI whitepaper tables,
/// for a shape with `p` parts and `n` points in total.
pub fn whitepaper_size(ty: i32, p: usize, n: usize) -> usize {
    match ty {
        1 => 16,
        21 => 24,
        11 => 32,
        8 => 32 + 4 + 16 * n,
        28 => 32 + 4 + 16 * n + 16 + 8 * n,
        18 => 32 + 4 + 16 * n + 16 + 8 * n + 16 + 8 * n,
        3 | 5 => 32 + 4 + 4 + 4 * p + 16 * n,
        23 | 25 => 32 + 4 + 4 + 4 * p + 16 * n + 16 + 8 * n,
        13 | 15 => 32 + 4 + 4 + 4 * p + 16 * n + 16 + 8 * n + 16 + 8 * n,
        31 => 32 + 4 + 4 + 4 * p + 4 * p + 16 * n + 16 + 8 * n + 16 + 8 * n,
        _ => panic!("harness: whitepaper_size({})", ty),
    }
}

fn check(s: &Shape, case: &str, rep: &mut Report) {
    let d: D = s.d();
    let (p, n) = (d.parts.len(), d.npoints());
    let tname = gen::type_name(d.ty);
    let mut buf: Vec<u8> = Vec::new();
    let (announced, res) = with_concrete!(s, x => (x.size_in_bytes(), x.write_to(&mut buf)));
    rep.eval();
    rep.class(tname);
    if p >= 2 || n >= 2 {
        rep.nontrivial(&format!("{}:{}:{:?}", d.ty, p, d.parts.iter().map(|x| x.len()).collect::<Vec<_>>()));
    }
    let detail = |what: &str, a: usize, b: usize| {
        J::obj(vec![("shape", d.to_json()), ("what", J::s(what)), ("left", J::UInt(a as u64)), ("right", J::UInt(b as u64))])
    };
    if res.is_err() {
        rep.violation(&format!("{}/emit", tname), case, detail("write_to failed on a Vec", 0, 0));
        return;
    }
    if announced != buf.len() {
        rep.violation(&format!("{}/announce", tname), case, detail("size_in_bytes != emitted", announced, buf.len()));
    }
    let want = whitepaper_size(d.ty, p, n);
    if buf.len() != want {
        rep.violation(&format!("{}/emit", tname), case, detail("emitted != whitepaper size", buf.len(), want));
    }
    // the same serialisation into destinations that accept only a few bytes per write call (a
    // pipe, a socket): the bytes that arrive are the same, whatever the chunk size
    for k in [1usize, 7, 8, 13, 4096] {
        if k == 4096 && buf.len() <= 4096 {
            continue;
        }
        let dest = crate::iomon::Dest::with_chunking(crate::iomon::Chunking::Fixed(k));
        let mut dd = dest.clone();
        let res = with_concrete!(s, x => x.write_to(&mut dd));
        rep.count("serialisations_into_a_short_writing_destination", 1);
        let got = dest.data();
        if res.is_err() || got != buf {
            rep.violation(&format!("{}/emit-short-writes", tname), case, detail("bytes arrived at a destination accepting k bytes per call != bytes emitted into a Vec (left: arrived, right: emitted)", got.len(), buf.len()));
            break;
        }
    }
    // the record header the writer stores
    match crate::shapes::write_all_mem(std::slice::from_ref(s), false) {
        Ok((shp, _)) => {
            if shp.len() < 108 {
                rep.violation(&format!("{}/header", tname), case, detail("file shorter than header+record header", shp.len(), 108));
            } else {
                let words = i32::from_be_bytes([shp[104], shp[105], shp[106], shp[107]]) as i64;
                if words * 2 != buf.len() as i64 + 4 {
                    rep.violation(&format!("{}/header", tname), case, detail("content length words*2 != emitted+4", (words * 2) as usize, buf.len() + 4));
                }
                // and the record content really is type code + the emitted bytes
                if shp.len() != 108 + 4 + buf.len() || shp[112..] != buf[..] {
                    rep.violation(&format!("{}/header", tname), case, detail("record content != type code + write_to bytes", shp.len(), 112 + buf.len()));
                }
            }
        }
        Err(_) => rep.violation(&format!("{}/header", tname), case, detail("writer failed on a cursor", 0, 0)),
    }
    // the same shape as SECOND record behind a minimal one of its type: every record header
    // stores the size of its own content
    if !matches!(s, Shape::NullShape) {
        let mut r0 = crate::rng::Rng::new(7);
        let first = gen::shape_exact(d.ty, &mut r0, &Cfg::plain(1, 1), 1, 1);
        let mut fb: Vec<u8> = Vec::new();
        let _ = with_concrete!(&first, x => x.write_to(&mut fb));
        let pair = [first, crate::shapes::clone_shape(s)];
        match crate::shapes::write_all_mem(&pair, true) {
            Ok((shp, _)) => {
                let second = 100 + 8 + 4 + fb.len();
                rep.count("second_record_headers_checked", 1);
                if shp.len() < second + 8 {
                    rep.violation(&format!("{}/header", tname), case, detail("two-record file too short for its second record header", shp.len(), second + 8));
                } else {
                    let words = i32::from_be_bytes([shp[second + 4], shp[second + 5], shp[second + 6], shp[second + 7]]) as i64;
                    if words * 2 != buf.len() as i64 + 4 || shp.len() != second + 8 + 4 + buf.len() || shp[second + 12..] != buf[..] {
                        rep.violation(&format!("{}/header", tname), case, detail("second record: content length words*2 != emitted+4, or content != write_to bytes", (words * 2) as usize, buf.len() + 4));
                    }
                }
            }
            Err(_) => rep.violation(&format!("{}/header", tname), case, detail("writer failed on a two-record file", 0, 0)),
        }
        // ... and the same two records through the consuming bulk route
        let mut shp = std::io::Cursor::new(Vec::new());
        let res = {
            let w = ShapeWriter::new(&mut shp);
            crate::e_c09::write_tail(w, &[&pair[0], &pair[1]])
        };
        let shp = shp.into_inner();
        let second = 100 + 8 + 4 + fb.len();
        rep.count("second_record_headers_checked(bulk route)", 1);
        if res.is_err() || shp.len() != second + 8 + 4 + buf.len() || i32::from_be_bytes([shp[second + 4], shp[second + 5], shp[second + 6], shp[second + 7]]) as i64 * 2 != buf.len() as i64 + 4 || shp[second + 12..] != buf[..] {
            rep.violation(&format!("{}/header", tname), case, detail("write_shapes: second record header or content differ from the shape's own size / bytes", shp.len(), second + 12 + buf.len()));
        }
    }
    rep.sample(|| J::obj(vec![("case", J::s(case)), ("parts", J::UInt(p as u64)), ("points", J::UInt(n as u64)), ("announced", J::UInt(announced as u64)), ("emitted", J::UInt(buf.len() as u64))]));
}

pub fn run(ctx: &Ctx) -> Report {
    let grid = if cfg!(miri) { 3 } else { 8 };
    let mp_max = if cfg!(miri) { 6 } else { 64 };
    let n_rand = if cfg!(miri) { 2 } else { ctx.pick(600, 6000) };
    // enumerate the work items: (type, parts, len) grid + random larger shapes
    let mut items: Vec<(i32, usize, usize, u64)> = vec![];
    for &t in &TYPES {
        if gen::is_point(t) {
            items.push((t, 1, 1, 0));
        } else if gen::is_multipoint(t) {
            for n in 1..=mp_max {
                items.push((t, 1, n, 0));
            }
        } else {
            for p in 1..=grid {
                for l in 1..=grid {
                    items.push((t, p, l, 0));
                }
            }
        }
        for k in 0..n_rand {
            items.push((t, 0, 0, k as u64 + 1));
        }
        // part counts around 64 and 128 (two vertices per part)
        if !gen::is_point(t) && !gen::is_multipoint(t) && !cfg!(miri) {
            for p in [63usize, 64, 65, 127, 128, 129, 300, 511, 512, 513, 1025, 4097] {
                items.push((t, p, 2, 0));
            }
        }
    }
    let seed = ctx.seed;
    let mut rep = par(ctx, items.len(), |i, rep| {
        let (t, p, l, k) = items[i];
        let case = format!("c18:t{}:p{}:l{}:k{}", t, p, l, k);
        if !ctx.want(&case) {
            return;
        }
        let mut r = Rng::derive(seed, &[tag("c18"), t as u64, p as u64, l as u64, k]);
        let s = if k == 0 {
            let c = Cfg { dens: 0.2, ..Cfg::hostile(0.2, p, l) };
            gen::shape_exact(t, &mut r, &c, p, l)
        } else {
            let big = k % 50 == 0;
            let c = Cfg::hostile(0.1, if big { 40 } else { 12 }, if big { 400 } else { 40 });
            gen::shape(t, &mut r, &c)
        };
        check(&s, &case, rep);
        // the same shape with every measure NO_DATA / NaN / -inf / 0: serialised size must not
        // depend on the measure values
        if gen::carries_m(t) {
            let m = [gen::NO_DATA, f64::NAN, f64::NEG_INFINITY, 0.0][(i + p + l) % 4];
            let u = crate::shapes::with_uniform_measure(&s, m);
            check(&u, &format!("{}:uniform-m", case), rep);
            rep.count("uniform_measure_variants", 1);
        }
        // the same shape with NaN coordinates on some vertices (x and y, x only, y only)
        if !gen::is_point(t) {
            let u = crate::shapes::with_nan_xy(&s, 1 + (i + l) % 3, ((i + p) % 3) as u8);
            check(&u, &format!("{}:nan-xy", case), rep);
            rep.count("nan_coordinate_variants", 1);
        }
        // the same shape with every vertex written twice in a row (consecutive identical vertices)
        if !gen::is_point(t) {
            let dd = s.d();
            let input: Vec<(i32, Vec<[u64; 4]>)> = dd.parts.iter().enumerate().map(|(k, p)| (dd.kinds.get(k).copied().unwrap_or(0), p.iter().flat_map(|v| [*v, *v]).collect())).collect();
            if input.iter().all(|(_, p)| !p.is_empty()) {
                let u = crate::shapes::build_from_parts(t, &input, false);
                check(&u, &format!("{}:doubled-vertices", case), rep);
                rep.count("doubled_vertex_variants", 1);
            }
        }
        // the same polygon / multipatch with vertex-less rings / patches inserted after the first
        if gen::is_polygon(t) || t == 31 {
            let u = gen::with_empty_parts(&s, &mut r);
            check(&u, &format!("{}:empty-parts", case), rep);
            rep.count("vertexless_part_variants", 1);
        }
    });
    // ---- shapes that do not come out of a constructor: polygons converted from polylines
    //      (rings left open) and shapes decoded from foreign-layout files (unclosed rings, empty
    //      parts, absent measures), serialised again
    let n_conv = if cfg!(miri) { 2 } else { ctx.pick(300, 3000) };
    for (pt, lt) in [(5, 3), (25, 23), (15, 13)] {
        for k in 0..n_conv {
            let case = format!("c18:from-polyline:t{}:k{}", pt, k);
            if !ctx.want(&case) {
                continue;
            }
            let mut r = Rng::derive(seed, &[tag("c18-conv"), pt as u64, k as u64]);
            let line = gen::shape(lt, &mut r, &Cfg::hostile(0.1, 4, 6));
            let poly = match line {
                Shape::Polyline(l) => Shape::Polygon(Polygon::from(l)),
                Shape::PolylineM(l) => Shape::PolygonM(PolygonM::from(l)),
                Shape::PolylineZ(l) => Shape::PolygonZ(PolygonZ::from(l)),
                _ => continue,
            };
            check(&poly, &case, &mut rep);
            rep.count("polygons_converted_from_polylines", 1);
        }
    }
    if let Some(dir) = ctx.opt("foreign") {
        let manifest = std::fs::read_to_string(format!("{}/files.jsonl", dir)).expect("harness: files.jsonl");
        for (fi, line) in manifest.lines().enumerate() {
            let name = match line.find("\"file\": \"") {
                Some(i) => line[i + 9..].split('"').next().unwrap_or("").to_string(),
                None => continue,
            };
            let bytes = match std::fs::read(format!("{}/{}.shp", dir, name)) {
                Ok(b) => b,
                Err(_) => continue,
            };
            if let Ok(shapes) = ShapeReader::new(std::io::Cursor::new(bytes)).and_then(|r| r.read()) {
                for (k, s) in shapes.iter().enumerate() {
                    if matches!(s, Shape::NullShape) {
                        continue;
                    }
                    let case = format!("c18:foreign:f{}:{}:k{}", fi, name, k);
                    if ctx.want(&case) {
                        check(s, &case, &mut rep);
                        rep.count("shapes_decoded_from_foreign_files_and_reserialised", 1);
                    }
                }
            }
        }
    }
    let evals = rep.evaluations;
    rep.guard("grid+random shapes evaluated", evals, if ctx.only.is_some() { 1 } else { items.len() as u64 });
    rep
}
