//! Engine `decode`: reads files laid out by the independent reference encoder
//! (`monitors/gen_c03.py`, `gen_c14.py`) with the real reader and logs what it decoded as
//! canonical dumps; the offline monitors compare the log with the encoder's model.
//!
//! Input: `<dir>/files.jsonl`, one object per file: {"file": name, "shx": bool, "typed": code|-1}.
//! Output: `<out>/decoded.jsonl`.

use crate::dump::Dump;
use crate::iomon::Src;
use crate::json::J;
use crate::panicmon;
use crate::report::{par, Ctx, Report};
use crate::shapes::err_class;
use shapefile::*;
use std::sync::Mutex;

fn field<'a>(line: &'a str, key: &str) -> Option<&'a str> {
    // the manifest is written by our own Python with a fixed, simple layout
    let pat = format!("\"{}\": ", key);
    let i = line.find(&pat)? + pat.len();
    let rest = &line[i..];
    let end = rest.find(|c| c == ',' || c == '}').unwrap_or(rest.len());
    Some(rest[..end].trim().trim_matches('"'))
}

fn items<S: Dump>(it: impl Iterator<Item = Result<S, Error>>, cap: usize) -> J {
    let mut v = vec![];
    for (i, x) in it.enumerate() {
        if i >= cap {
            v.push(J::obj(vec![("overrun", J::Bool(true))]));
            break;
        }
        match x {
            Ok(s) => v.push(s.d().to_json()),
            Err(e) => {
                v.push(J::obj(vec![("err", J::s(err_class(&e)))]));
                break;
            }
        }
    }
    J::Arr(v)
}

fn all<S: Dump>(r: Result<Vec<S>, Error>) -> J {
    match r {
        Ok(v) => J::obj(vec![("ok", J::Arr(v.iter().map(|s| s.d().to_json()).collect()))]),
        Err(e) => J::obj(vec![("err", J::s(err_class(&e)))]),
    }
}

/// C14 on a .shp of almost 4 GiB (a sparse source: zeros except for the header and a few
/// records): index entries whose byte offset is at or beyond 2^31 — a valid i32 word offset —
/// in permuted order. Iteration, random access and count must follow the index.
fn beyond_2gib(ctx: &Ctx, rep: &mut Report) {
    use crate::gen::{self, Cfg};
    use crate::iomon::SparseSrc;
    use crate::rng::{tag, Rng};
    for (li, t) in [1i32, 3, 15, 28].iter().enumerate() {
        let case = format!("beyond2gib:t{}", t);
        if !ctx.want(&case) {
            continue;
        }
        let mut r = Rng::derive(ctx.seed, &[tag("c14-sparse"), *t as u64]);
        let shapes: Vec<Shape> = (0..5).map(|_| gen::shape(*t, &mut r, &Cfg::plain(2, 3))).collect();
        let (plain, _) = crate::shapes::write_all_mem(&shapes, true).expect("harness: write");
        let recs = crate::rawshp::walk(&plain);
        // byte offsets (even) around and beyond 2^31, visited by the index in this order
        let base: u64 = 1 << 31;
        let places: [u64; 5] = [base + 4096, 3 * (1u64 << 30) + 2, 1000, base, base - 2 - 2 * (li as u64)];
        let total_len: u64 = 4_294_967_294; // i32::MAX words
        let mut header = plain[..100].to_vec();
        header[24..28].copy_from_slice(&i32::MAX.to_be_bytes());
        let mut segments = vec![(0u64, header.clone())];
        let mut shx = header.clone();
        shx[24..28].copy_from_slice(&(50 + 4 * 5i32).to_be_bytes());
        for (k, rec) in recs.iter().enumerate() {
            // keep records from overlapping: the one placed just below 2^31 is short enough only
            // for points; for the others move it well below
            let at = if k == 4 && rec.end() - rec.off > 2 + 2 * li { base - 100_000 } else { places[k] };
            segments.push((at, plain[rec.off..rec.end()].to_vec()));
            shx.extend_from_slice(&((at / 2) as u32 as i32).to_be_bytes());
            shx.extend_from_slice(&rec.content_words.to_be_bytes());
        }
        rep.eval();
        rep.count("layouts_beyond_2_GiB(sparse source)", 1);
        let want: Vec<crate::dump::D> = shapes.iter().map(|s| s.d().expected_after_roundtrip()).collect();
        let res = panicmon::catch(|| -> Result<Option<String>, Error> {
            let mut rd = ShapeReader::with_shx(SparseSrc::new(total_len, segments.clone()), std::io::Cursor::new(shx.clone()))?;
            if rd.shape_count()? != 5 {
                return Ok(Some("count".into()));
            }
            let it: Vec<crate::dump::D> = rd.iter_shapes().collect::<Result<Vec<_>, _>>()?.iter().map(|s| s.d()).collect();
            if it.len() != 5 || it.iter().zip(&want).any(|(g, w)| crate::dump::first_diff(g, w).is_some()) {
                return Ok(Some("iter".into()));
            }
            for i in (0..5).rev() {
                match rd.read_nth_shape(i) {
                    Some(Ok(s)) if crate::dump::first_diff(&s.d(), &want[i]).is_none() => {}
                    _ => return Ok(Some(format!("nth({})", i))),
                }
            }
            rd.seek(1)?;
            let rest: Vec<crate::dump::D> = rd.iter_shapes().collect::<Result<Vec<_>, _>>()?.iter().map(|s| s.d()).collect();
            if rest.len() != 4 || rest.iter().zip(&want[1..]).any(|(g, w)| crate::dump::first_diff(g, w).is_some()) {
                return Ok(Some("iter-after-seek(1)".into()));
            }
            Ok(None)
        });
        let detail = |what: String| J::obj(vec![("type", J::s(gen::type_name(*t))), ("record_byte_offsets_in_index_order", J::s(format!("{:?}", places))), ("what", J::s(what))]);
        match res {
            Ok(Ok(None)) => {}
            Ok(Ok(Some(route))) => rep.violation(&format!("beyond-2GiB/{}", route), &case, detail(format!("{} does not follow the index", route))),
            Ok(Err(e)) => rep.violation("beyond-2GiB/error", &case, detail(err_class(&e))),
            Err(p) => rep.violation("beyond-2GiB/panic", &case, detail(p.class())),
        }
    }
}

pub fn run(ctx: &Ctx) -> Report {
    let dir = ctx.opt("dir").expect("harness: decode needs --opt dir=").to_string();
    let manifest = std::fs::read_to_string(format!("{}/files.jsonl", dir)).expect("harness: files.jsonl");
    let entries: Vec<&str> = manifest.lines().filter(|l| !l.trim().is_empty()).collect();
    let out: Mutex<Vec<(usize, String)>> = Mutex::new(vec![]);
    let mut rep = par(ctx, entries.len(), |idx, rep| {
        let line = entries[idx];
        let name = field(line, "file").expect("harness: file key").to_string();
        if !ctx.want(&name) {
            return;
        }
        let with_shx = field(line, "shx") == Some("true");
        let typed: i32 = field(line, "typed").and_then(|v| v.parse().ok()).unwrap_or(-1);
        let ext = field(line, "ext").unwrap_or("shp").to_string();
        let shp = std::fs::read(format!("{}/{}.{}", dir, name, ext)).expect("harness: read shp");
        let shx = if with_shx { Some(std::fs::read(format!("{}/{}.shx", dir, name)).expect("harness: read shx")) } else { None };
        let cap = shp.len() / 8 + 4;
        rep.eval();
        let idx_only = ctx.opt("routes") == Some("idx");
        let res = panicmon::catch(|| {
            let mut o: Vec<(&str, J)> = vec![("file", J::s(name.clone()))];
            if !idx_only {
            match ShapeReader::new(Src::new(shp.clone())) {
                Err(e) => o.push(("open_err", J::s(err_class(&e)))),
                Ok(rd) => {
                    let hb = rd.header().bbox;
                    o.push(("header_type", J::Int(rd.header().shape_type as i32 as i64)));
                    o.push(("header_box", J::Arr([hb.min.x, hb.min.y, hb.max.x, hb.max.y, hb.min.z, hb.max.z, hb.min.m, hb.max.m].iter().map(|v| J::hex(v.to_bits())).collect())));
                    o.push(("read", all(rd.read())));
                }
            }
            if let Ok(mut rd) = ShapeReader::new(Src::new(shp.clone())) {
                o.push(("iter", items(rd.iter_shapes(), cap)));
            }
            // a source that hands out only a few bytes per read call (pipe / socket like): from the
            // first byte of the header on
            let chunk = 1 + idx % 7;
            match ShapeReader::new(Src::chunked(shp.clone(), crate::iomon::Chunking::Fixed(chunk))) {
                Ok(mut rd) => o.push(("iter_chunked", items(rd.iter_shapes(), cap))),
                Err(e) => o.push(("iter_chunked", J::Arr(vec![J::obj(vec![("err", J::s(format!("open: {}", err_class(&e))))])]))),
            }
            }
            // the same file opened by path (no .shx next to it unless the manifest says so): the
            // path-based constructors wrap the file in their own BufReader
            if !idx_only && !with_shx {
                let path = format!("{}/{}.shp", dir, name);
                o.push(("path_read", all(shapefile::read_shapes(&path))));
                if let Ok(mut rd) = ShapeReader::from_path(&path) {
                    o.push(("path_iter", items(rd.iter_shapes(), cap)));
                }
                if typed >= 1 {
                    o.push(("path_typed", for_type!(typed, T => all(shapefile::read_shapes_as::<_, T>(&path)))));
                }
                // the complete reader on the same foreign file, next to a table of n rows (row i
                // holds i): every record, null shapes included, comes back with its own row
                if let Some(n) = field(line, "n").and_then(|v| v.parse::<usize>().ok()) {
                    let dbf_path = format!("{}/{}.dbf", dir, name);
                    let wrote = (|| -> Result<(), Error> {
                        let mut w = crate::e_c10::table_builder().build_with_file_dest(&dbf_path)?;
                        for i in 0..n {
                            w.write_record(&crate::e_c08::good_row(i))?;
                        }
                        Ok(())
                    })();
                    if wrote.is_ok() {
                        let pairs: Vec<Result<Shape, Error>> = match shapefile::read(&path) {
                            Err(e) => vec![Err(e)],
                            Ok(v) => v.into_iter().enumerate().map(|(i, (s, row))| if crate::e_c08::row_tag(&row) == Some(i) { Ok(s) } else { Err(Error::InvalidShapeRecordSize) }).collect(),
                        };
                        o.push(("path_read_pairs", items(pairs.into_iter(), cap)));
                    }
                    let _ = std::fs::remove_file(&dbf_path);
                }
            }
            if typed >= 1 {
                if let Ok(rd) = ShapeReader::new(Src::new(shp.clone())) {
                    o.push(("typed", for_type!(typed, T => all(rd.read_as::<T>()))));
                }
                if let Ok(mut rd) = ShapeReader::new(Src::new(shp.clone())) {
                    o.push(("typed_iter", for_type!(typed, T => items(rd.iter_shapes_as::<T>(), cap))));
                }
            }
            if let Some(x) = &shx {
                let src = Src::new(shp.clone());
                match ShapeReader::with_shx(src.clone(), Src::new(x.clone())) {
                    Err(e) => o.push(("open_idx_err", J::s(err_class(&e)))),
                    Ok(mut rd) => {
                        let n = rd.shape_count().unwrap_or(usize::MAX);
                        o.push(("count", J::UInt(n as u64)));
                        let seeks_before = src.seeks();
                        o.push(("iter_idx", items(rd.iter_shapes(), cap)));
                        o.push(("seeks_during_iter_idx", J::UInt((src.seeks() - seeks_before) as u64)));
                    }
                }
                // random access on a fresh reader, every index and two past the end
                if let Ok(mut rd) = ShapeReader::with_shx(Src::new(shp.clone()), Src::new(x.clone())) {
                    let n = rd.shape_count().unwrap_or(0).min(cap);
                    let mut v = vec![];
                    for i in (0..n + 2).rev() {
                        v.push(match rd.read_nth_shape(i) {
                            None => J::Null,
                            Some(Ok(s)) => s.d().to_json(),
                            Some(Err(e)) => J::obj(vec![("err", J::s(err_class(&e)))]),
                        });
                    }
                    v.reverse();
                    o.push(("nth", J::Arr(v)));
                }
                // random access in ASCENDING order on one reader (each access directly behind the
                // previous one in index order, wherever the records lie physically)
                if let Ok(mut rd) = ShapeReader::with_shx(Src::new(shp.clone()), Src::new(x.clone())) {
                    let n = rd.shape_count().unwrap_or(0).min(cap);
                    let v: Vec<Result<Shape, Error>> = (0..n).map(|i| rd.read_nth_shape(i).unwrap_or(Err(Error::MissingIndexFile))).collect();
                    o.push(("nth_ascending", items(v.into_iter(), cap)));
                }
                // the consuming read-everything call on a reader that has the index
                if let Ok(rd) = ShapeReader::with_shx(Src::new(shp.clone()), Src::new(x.clone())) {
                    o.push(("read_idx", items(rd.read().map(|v| v.into_iter().map(Ok).collect::<Vec<_>>()).unwrap_or_else(|e| vec![Err(e)]).into_iter(), cap)));
                }
                // the .shp behind a source that hands out 1..7 bytes per read call, index intact
                let chunk = 1 + idx % 7;
                if let Ok(mut rd) = ShapeReader::with_shx(Src::chunked(shp.clone(), crate::iomon::Chunking::Fixed(chunk)), Src::new(x.clone())) {
                    o.push(("iter_idx_chunked", items(rd.iter_shapes(), cap)));
                }
                // random access and iteration interleaved on ONE reader: the index alone must
                // still decide where every record is read from
                if let Ok(mut rd) = ShapeReader::with_shx(Src::new(shp.clone()), Src::new(x.clone())) {
                    let n = rd.shape_count().unwrap_or(0).min(cap);
                    if n > 0 {
                        let _ = rd.read_nth_shape(n - 1);
                        o.push(("iter_after_nth_last", items(rd.iter_shapes(), cap)));
                        let first: Vec<_> = rd.iter_shapes().take(1).map(|r| r.is_ok()).collect();
                        let _ = (first, rd.read_nth_shape(0));
                        o.push(("iter_after_partial_iter_and_nth0", items(rd.iter_shapes(), cap)));
                    }
                }
                // the same through the path-based constructor when the .shx sits next to the .shp
                if !cfg!(miri) {
                    let path = format!("{}/{}.{}", dir, name, ext);
                    let n_idx = match ShapeReader::from_path(&path) {
                        Ok(mut rd) => {
                            o.push(("path_iter_idx", items(rd.iter_shapes(), cap)));
                            rd.shape_count().unwrap_or(0)
                        }
                        Err(e) => {
                            o.push(("path_iter_idx", J::Arr(vec![J::obj(vec![("err", J::s(format!("open: {}", err_class(&e))))])])));
                            0
                        }
                    };
                    // the one-line free functions on the same pair: they, too, go by the index
                    o.push(("path_read_shapes_idx", items(shapefile::read_shapes(&path).map(|v| v.into_iter().map(Ok).collect::<Vec<_>>()).unwrap_or_else(|e| vec![Err(e)]).into_iter(), cap)));
                    // ... and the complete reader with a table of n rows (row i holds i) next to the pair
                    let dbf_path = format!("{}/{}.dbf", dir, name);
                    let wrote = (|| -> Result<(), Error> {
                        let mut w = crate::e_c10::table_builder().build_with_file_dest(&dbf_path)?;
                        for i in 0..n_idx.min(cap) {
                            w.write_record(&crate::e_c08::good_row(i))?;
                        }
                        Ok(())
                    })();
                    if wrote.is_ok() {
                        let pairs: Vec<Result<Shape, Error>> = match shapefile::read(&path) {
                            Err(e) => vec![Err(e)],
                            Ok(v) => v
                                .into_iter()
                                .enumerate()
                                .map(|(i, (s, row))| if crate::e_c08::row_tag(&row) == Some(i) { Ok(s) } else { Err(Error::InvalidShapeRecordSize) })
                                .collect(),
                        };
                        o.push(("path_read_pairs_idx", items(pairs.into_iter(), cap)));
                    }
                    let _ = std::fs::remove_file(&dbf_path);
                }
            }
            J::obj(o)
        });
        let line = match res {
            Ok(j) => j.to_string(),
            Err(p) => {
                rep.count("panics", 1);
                J::obj(vec![("file", J::s(name.clone())), ("panic", J::s(p.class()))]).to_string()
            }
        };
        out.lock().unwrap().push((idx, line));
    });
    let mut m = out.into_inner().unwrap();
    m.sort();
    let mut s = String::new();
    for (_, l) in &m {
        s.push_str(l);
        s.push('\n');
    }
    std::fs::write(format!("{}/decoded.jsonl", ctx.out), s).expect("harness: write decoded");
    rep.guard("files decoded", m.len() as u64, if ctx.only.is_some() { 1 } else { entries.len() as u64 });
    if ctx.opt("routes") == Some("idx") && !cfg!(miri) {
        beyond_2gib(ctx, &mut rep);
    }
    rep
}
