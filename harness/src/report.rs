//! Run context and the per-run report every engine fills in. The report is what the
//! Python driver (`/verif/check`) reads back: counts measured during the run, the
//! violations with their signatures, and observations left for offline adjudication.

use crate::json::J;
use std::collections::{BTreeMap, BTreeSet};
use std::sync::atomic::{AtomicUsize, Ordering};

#[derive(Clone)]
pub struct Ctx {
    pub thorough: bool,
    pub seed: u64,
    pub out: String,
    /// When set, only the case with exactly this id is executed (replay).
    pub only: Option<String>,
    pub threads: usize,
    /// free-form knobs: `--opt key=value`
    pub opts: BTreeMap<String, String>,
}

impl Ctx {
    pub fn want(&self, case: &str) -> bool {
        match &self.only {
            None => true,
            Some(c) => c == case,
        }
    }
    pub fn opt_u64(&self, key: &str, default: u64) -> u64 {
        self.opts.get(key).and_then(|v| v.parse().ok()).unwrap_or(default)
    }
    pub fn opt(&self, key: &str) -> Option<&str> {
        self.opts.get(key).map(|s| s.as_str())
    }
    pub fn pick<T>(&self, quick: T, thorough: T) -> T {
        if self.thorough {
            thorough
        } else {
            quick
        }
    }
    pub fn profile() -> &'static str {
        if cfg!(miri) {
            "miri"
        } else if cfg!(debug_assertions) {
            "checked"
        } else {
            "release"
        }
    }
}

#[derive(Clone)]
pub struct Violation {
    pub sig: String,
    pub case: String,
    pub detail: J,
}

const MAX_VIOL_PER_SIG: usize = 4;
const MAX_SAMPLES: usize = 8;
const MAX_PENDING: usize = 1_500_000;

#[derive(Default, Clone)]
pub struct Report {
    pub evaluations: u64,
    /// coarse classes (human readable) -> how many cases fell in each
    pub classes: BTreeMap<String, u64>,
    /// hashes of the fine-grained keys of the non-trivial cases (distinct_nontrivial = len)
    pub distinct: BTreeSet<u64>,
    /// distinct non-trivial cases counted directly (exhaustive sweeps, where every case of an
    /// enumerated range is distinct by construction and a hash set of 2^32 keys is pointless)
    pub distinct_counted: u64,
    pub samples: Vec<J>,
    pub counters: BTreeMap<String, u64>,
    pub viol_counts: BTreeMap<String, u64>,
    pub violations: Vec<Violation>,
    /// observations the in-process monitor cannot judge alone (e.g. ring role changes whose
    /// exact area needs arbitrary precision); judged by the offline monitor
    pub pending: Vec<J>,
    pub pending_dropped: u64,
    /// minimum-observation guards: name -> (observed, required)
    pub guards: BTreeMap<String, (u64, u64)>,
}

fn fnv(s: &str) -> u64 {
    crate::rng::tag(s)
}

impl Report {
    pub fn eval(&mut self) {
        self.evaluations += 1;
    }
    pub fn class(&mut self, name: &str) {
        *self.classes.entry(name.to_string()).or_insert(0) += 1;
    }
    /// Register the fine-grained key of a case that is non-trivial by the engine's rule.
    pub fn nontrivial(&mut self, key: &str) {
        self.distinct.insert(fnv(key));
    }
    pub fn count(&mut self, name: &str, n: u64) {
        *self.counters.entry(name.to_string()).or_insert(0) += n;
    }
    pub fn max(&mut self, name: &str, v: u64) {
        let e = self.counters.entry(name.to_string()).or_insert(0);
        if v > *e {
            *e = v;
        }
    }
    pub fn sample(&mut self, j: impl FnOnce() -> J) {
        if self.samples.len() < MAX_SAMPLES {
            self.samples.push(j());
        }
    }
    pub fn violation(&mut self, sig: &str, case: &str, detail: J) {
        let c = self.viol_counts.entry(sig.to_string()).or_insert(0);
        *c += 1;
        if *c as usize <= MAX_VIOL_PER_SIG {
            self.violations.push(Violation {
                sig: sig.to_string(),
                case: case.to_string(),
                detail,
            });
        }
    }
    pub fn pend(&mut self, j: J) {
        if self.pending.len() < MAX_PENDING {
            self.pending.push(j);
        } else {
            self.pending_dropped += 1;
        }
    }
    pub fn guard(&mut self, name: &str, observed: u64, required: u64) {
        // Miri runs are small sharded samples of the same workloads: a guard only demands
        // that the thing was observed at all there
        let required = if cfg!(miri) { required.min(1) } else { required };
        let e = self.guards.entry(name.to_string()).or_insert((0, required));
        e.0 += observed;
        e.1 = required;
    }

    pub fn merge(&mut self, o: Report) {
        self.evaluations += o.evaluations;
        for (k, v) in o.classes {
            *self.classes.entry(k).or_insert(0) += v;
        }
        self.distinct.extend(o.distinct);
        self.distinct_counted += o.distinct_counted;
        for s in o.samples {
            if self.samples.len() < MAX_SAMPLES {
                self.samples.push(s);
            }
        }
        for (k, v) in o.counters {
            if k.starts_with("max:") {
                let e = self.counters.entry(k).or_insert(0);
                if v > *e {
                    *e = v;
                }
            } else {
                *self.counters.entry(k).or_insert(0) += v;
            }
        }
        for (k, v) in o.viol_counts {
            *self.viol_counts.entry(k).or_insert(0) += v;
        }
        self.violations.extend(o.violations);
        for p in o.pending {
            self.pend(p);
        }
        self.pending_dropped += o.pending_dropped;
        for (k, (obs, req)) in o.guards {
            let e = self.guards.entry(k).or_insert((0, req));
            e.0 += obs;
            e.1 = req;
        }
    }

    pub fn to_json(&mut self, engine: &str, ctx: &Ctx, wall_s: f64) -> J {
        // deterministic order and per-signature cap after merging the workers
        self.violations.sort_by(|a, b| (&a.sig, &a.case).cmp(&(&b.sig, &b.case)));
        let mut kept: BTreeMap<String, usize> = BTreeMap::new();
        self.violations.retain(|v| {
            let c = kept.entry(v.sig.clone()).or_insert(0);
            *c += 1;
            *c <= MAX_VIOL_PER_SIG
        });
        J::obj(vec![
            ("engine", J::s(engine)),
            ("profile", J::s(Ctx::profile())),
            ("tier", J::s(if ctx.thorough { "thorough" } else { "quick" })),
            ("seed", J::UInt(ctx.seed)),
            ("wall_s", J::Float(wall_s)),
            ("evaluations", J::UInt(self.evaluations)),
            ("distinct_nontrivial", J::UInt(self.distinct.len() as u64 + self.distinct_counted)),
            (
                "classes",
                J::Obj(self.classes.iter().map(|(k, v)| (k.clone(), J::UInt(*v))).collect()),
            ),
            (
                "counters",
                J::Obj(self.counters.iter().map(|(k, v)| (k.clone(), J::UInt(*v))).collect()),
            ),
            ("samples", J::Arr(self.samples.clone())),
            (
                "violation_counts",
                J::Obj(self.viol_counts.iter().map(|(k, v)| (k.clone(), J::UInt(*v))).collect()),
            ),
            (
                "violations",
                J::Arr(
                    self.violations
                        .iter()
                        .map(|v| {
                            J::obj(vec![
                                ("sig", J::s(v.sig.clone())),
                                ("case", J::s(v.case.clone())),
                                ("detail", v.detail.clone()),
                            ])
                        })
                        .collect(),
                ),
            ),
            ("pending_count", J::UInt(self.pending.len() as u64)),
            ("pending_dropped", J::UInt(self.pending_dropped)),
            (
                "guards",
                J::Obj(
                    self.guards
                        .iter()
                        .map(|(k, (o, r))| {
                            (k.clone(), J::obj(vec![("observed", J::UInt(*o)), ("required", J::UInt(*r))]))
                        })
                        .collect(),
                ),
            ),
        ])
    }
}

/// Run `f(i, report)` for every i in 0..n on `ctx.threads` workers (work stealing by an
/// atomic counter); the per-worker reports are merged in worker order.
pub fn par<F>(ctx: &Ctx, n: usize, f: F) -> Report
where
    F: Fn(usize, &mut Report) + Sync,
{
    let threads = ctx.threads.max(1).min(n.max(1));
    // `--opt shards=N --opt shard=k`: this process only takes every N-th work item (Miri runs
    // are split over processes this way, one interpreter being single-threaded)
    let shards = ctx.opt_u64("shards", 1).max(1) as usize;
    let shard = ctx.opt_u64("shard", 0) as usize;
    if threads <= 1 || cfg!(miri) {
        let mut r = Report::default();
        for i in 0..n {
            if i % shards == shard {
                f(i, &mut r);
            }
        }
        return r;
    }
    let next = AtomicUsize::new(0);
    let mut parts: Vec<Report> = Vec::new();
    std::thread::scope(|s| {
        let hs: Vec<_> = (0..threads)
            .map(|_| {
                s.spawn(|| {
                    let mut r = Report::default();
                    loop {
                        let i = next.fetch_add(1, Ordering::Relaxed);
                        if i >= n {
                            break;
                        }
                        if i % shards != shard {
                            continue;
                        }
                        f(i, &mut r);
                    }
                    r
                })
            })
            .collect();
        for h in hs {
            parts.push(h.join().expect("worker thread panicked outside catch_unwind"));
        }
    });
    let mut total = Report::default();
    for p in parts {
        total.merge(p);
    }
    total
}
