//! C08 — shapes and attribute rows stay paired one-to-one through write and read.
//!
//! Histories of `write_shape_and_record` calls in which some calls fail (shape of another
//! type, row missing a field, row with a value of the wrong field type), through the
//! complete Writer on instrumented destinations and by path. The three files are then
//! walked independently (record count, index entries, dbf header row count, rows physically
//! present) and read back with the complete Reader; every row carries the index of the call
//! that wrote it and the shape carries it in its first X coordinate.

use crate::dump::{Dump, D};
use crate::e_c10::table_builder;
use crate::gen::{self, type_name, TYPES};
use crate::iomon::Dest;
use crate::json::J;
use crate::panicmon;
use crate::rawshp;
use crate::report::{par, Ctx, Report};
use crate::rng::{tag, Rng};
use crate::shapes::{build_from_parts, err_class};
use shapefile::dbase::{self, FieldValue, Record};
use shapefile::*;
use std::io::Cursor;

/// Letters of a history.
const OK: u8 = 0; // well-formed pair
const OTHER_TYPE: u8 = 1; // shape of another type (rejected before anything is written)
const MISSING_FIELD: u8 = 2; // row lacking the NAME field
const WRONG_TYPE: u8 = 3; // row whose IDX holds a character value

fn letter_str(l: u8) -> &'static str {
    ["ok", "other-type", "row-missing-field", "row-wrong-type"][l as usize]
}
fn word_str(w: &[u8]) -> String {
    w.iter().map(|l| letter_str(*l)).collect::<Vec<_>>().join(" ")
}

/// A shape of type t whose first vertex has x = call index (so the pair can be recognised).
fn tagged_shape(t: i32, call: usize, r: &mut Rng) -> Shape {
    let f = |v: f64| v.to_bits();
    let nparts = if gen::is_point(t) || gen::is_multipoint(t) { 1 } else { 1 + call % 2 };
    let input: Vec<(i32, Vec<[u64; 4]>)> = (0..nparts)
        .map(|p| {
            // the 97th call of a long history carries a record of more than 2^17 bytes (9000+ vertices)
            let n = if gen::is_point(t) { 1 } else if call % 97 == 96 && p == 0 { 9000 + call } else { 2 + (call + p) % 3 };
            let pts = (0..n).map(|k| [f(if p == 0 && k == 0 { call as f64 } else { 1_000_000.0 + r.below(1000) as f64 }), f(r.below(50) as f64), f(k as f64), f(1.0 + k as f64)]).collect();
            (if t == 31 { 0 } else { 0 }, pts)
        })
        .collect();
    // strips keep the vertex order for multipatch; polygon rings may be reversed by the
    // constructor, so the tag is looked up as the minimum x below 1000
    build_from_parts(t, &input, false)
}

fn shape_tag(d: &D) -> Option<usize> {
    d.parts.iter().flatten().map(|v| f64::from_bits(v[0])).filter(|x| *x < 1_000_000.0).map(|x| x as usize).next()
}

pub fn good_row(call: usize) -> Record {
    let mut r = Record::default();
    r.insert("IDX".to_string(), FieldValue::Numeric(Some(call as f64)));
    r.insert("NAME".to_string(), FieldValue::Character(Some(format!("row{}", call))));
    r
}

fn row_for(letter: u8, call: usize) -> Record {
    let mut r = good_row(call);
    match letter {
        MISSING_FIELD => {
            r.remove("NAME");
        }
        WRONG_TYPE => {
            r.insert("IDX".to_string(), FieldValue::Character(Some("not a number".to_string())));
        }
        _ => {}
    }
    r
}

pub fn row_tag(r: &Record) -> Option<usize> {
    match r.get("IDX") {
        Some(FieldValue::Numeric(Some(v))) => Some(*v as usize),
        _ => None,
    }
}

struct Counts {
    shp_records: usize,
    shx_entries: usize,
    dbf_header_rows: usize,
    dbf_physical_rows: Option<usize>,
}

fn count_files(shp: &[u8], shx: &[u8], dbf: &[u8]) -> Counts {
    let shp_records = rawshp::walk(shp).len();
    let shx_entries = if shx.len() >= 100 { (shx.len() - 100) / 8 } else { 0 };
    let (mut hdr_rows, mut phys) = (0usize, None);
    if dbf.len() >= 12 {
        hdr_rows = u32::from_le_bytes([dbf[4], dbf[5], dbf[6], dbf[7]]) as usize;
        let header_size = u16::from_le_bytes([dbf[8], dbf[9]]) as usize;
        let record_size = u16::from_le_bytes([dbf[10], dbf[11]]) as usize;
        if record_size > 0 && dbf.len() >= header_size + 1 {
            let body = dbf.len() - header_size - 1; // minus the 0x1A terminator
            phys = if body % record_size == 0 { Some(body / record_size) } else { None };
        }
    } else if dbf.is_empty() {
        phys = Some(0);
    }
    Counts { shp_records, shx_entries, dbf_header_rows: hdr_rows, dbf_physical_rows: phys }
}

type Pairs = Result<Vec<(Option<usize>, Option<usize>)>, String>;

fn pairs_of(v: Result<Vec<(Shape, Record)>, Error>) -> Pairs {
    match v {
        Ok(v) => Ok(v.iter().map(|(s, r)| (shape_tag(&s.d()), row_tag(r))).collect()),
        Err(e) => Err(err_class(&e)),
    }
}

struct Outcome {
    results: Vec<bool>,
    shp: Vec<u8>,
    shx: Vec<u8>,
    dbf: Vec<u8>,
}

fn write_history<W: std::io::Write + std::io::Seek>(mut w: Writer<W>, word: &[u8], t: i32, other: i32, seed: u64) -> Vec<bool> {
    let mut results = vec![];
    for (call, &l) in word.iter().enumerate() {
        let mut r = Rng::derive(seed, &[tag("c08-shape"), t as u64, call as u64]);
        let ty = if l == OTHER_TYPE { other } else { t };
        let s = tagged_shape(ty, call, &mut r);
        let row = row_for(l, call);
        let res = with_concrete!(&s, x => w.write_shape_and_record(x, &row));
        results.push(res.is_ok());
    }
    results
}

fn judge(t: i32, word: &[u8], route: &str, out: &Outcome, read: &[(&str, Pairs)], case: &str, rep: &mut Report) {
    let tname = type_name(t);
    let detail = |what: String| {
        J::obj(vec![
            ("type", J::s(tname)),
            ("history", J::s(word_str(word))),
            ("results", J::Arr(out.results.iter().map(|b| J::s(if *b { "Ok" } else { "Err" })).collect())),
            ("route", J::s(route)),
            ("what", J::s(what)),
        ])
    };
    // the first call always offers a shape of type t (words starting with a foreign shape are
    // not enumerated), so the file's type is t: well-formed pairs must be accepted, a shape of
    // another type and a bad row must be rejected
    for (i, (&l, &ok)) in word.iter().zip(&out.results).enumerate() {
        if ok != (l == OK) {
            rep.violation(&format!("result:{}", letter_str(l)), case, detail(format!("call {} ({}) returned {}", i, letter_str(l), if ok { "Ok" } else { "Err" })));
        }
    }
    let accepted: Vec<usize> = out.results.iter().enumerate().filter(|(_, ok)| **ok).map(|(i, _)| i).collect();
    let row_rejected = word.iter().zip(&out.results).any(|(&l, &ok)| !ok && (l == MISSING_FIELD || l == WRONG_TYPE));
    let kind = if row_rejected {
        "row-rejected-after-shape-written"
    } else if out.results.iter().any(|ok| !ok) {
        "shape-rejected"
    } else {
        "all-calls-ok"
    };
    let c = count_files(&out.shp, &out.shx, &out.dbf);
    rep.count("files_counted", 1);
    let n = accepted.len();
    let counts_equal = c.shp_records == c.shx_entries && c.shx_entries == c.dbf_header_rows && c.dbf_physical_rows == Some(c.dbf_header_rows);
    if !counts_equal {
        rep.violation(
            &format!("counts:{}", kind),
            case,
            detail(format!("shp records {}, shx entries {}, dbf header rows {}, dbf rows physically present {:?}; calls that returned Ok: {}", c.shp_records, c.shx_entries, c.dbf_header_rows, c.dbf_physical_rows, n)),
        );
        // ... as a whole. What was accepted BEFORE the first call whose row was refused must still be
        // there, pair by pair: the refused call may leave its own debris, it may not take them along.
        if let Some(first_bad) = word.iter().zip(&out.results).position(|(&l, &ok)| !ok && (l == MISSING_FIELD || l == WRONG_TYPE)) {
            let before: Vec<(Option<usize>, Option<usize>)> = accepted.iter().filter(|&&i| i < first_bad).map(|&i| (Some(i), Some(i))).collect();
            if let Some((_, Ok(p))) = read.iter().find(|(n, _)| *n == "pairs up to the first error") {
                rep.count("prefixes_before_a_refused_row_compared", 1);
                if p.len() < before.len() || p[..before.len()] != before[..] {
                    rep.violation("pairing:pairs-accepted-before-a-refused-row-are-lost", case, detail(format!("{} pairs were accepted before call {} was refused; the reader yields {:?}", before.len(), first_bad, p)));
                }
            }
        }
        return; // pairing is meaningless when the files disagree on the number of entries
    }
    if c.shp_records != n {
        rep.violation(&format!("counts-vs-accepted:{}", kind), case, detail(format!("files hold {} entries, {} calls returned Ok", c.shp_records, n)));
        return;
    }
    // the reader returns the accepted pairs, in order, shape i with row i
    let want_all: Vec<(Option<usize>, Option<usize>)> = accepted.iter().map(|&i| (Some(i), Some(i))).collect();
    for (rname, got) in read {
        rep.count("read_backs_compared", 1);
        // the subsequence an adaptor route must return
        let want: Vec<(Option<usize>, Option<usize>)> = match *rname {
            "iter.skip(1)" => want_all.iter().skip(1).cloned().collect(),
            "iter.step_by(2)" => want_all.iter().step_by(2).cloned().collect(),
            "iter.nth(2)" => want_all.iter().skip(2).take(1).cloned().collect(),
            "iter_as.skip(2)" => want_all.iter().skip(2).cloned().collect(),
            "iter.last()" => want_all.iter().last().cloned().into_iter().collect(),
            "iter.count()" => vec![(None, None); want_all.len()],
            "pairs up to the first error" => want_all.clone(),
            _ => want_all.clone(),
        };
        // a reader used twice may hand out the whole file or what was left: C08 only demands that
        // whatever comes back is in order and pairs shape i with row i (C15 decides which)
        rep.count("read_backs_of_a_reader_used_more_than_once", if rname.ends_with("then read()") { 1 } else { 0 });
        match got {
            Err(e) => rep.violation(&format!("pairing:{}:error", rname), case, detail(format!("{} failed: {}", rname, e))),
            Ok(p) => {
                // a reader used more than once may hand out the whole file or a tail of it: any
                // contiguous tail of the written pairs keeps shape i with row i
                if rname.ends_with("then read()") && p.len() <= want_all.len() && *p == want_all[want_all.len() - p.len()..] {
                    continue;
                }
                if *p != want {
                    rep.violation(&format!("pairing:{}", rname), case, detail(format!("{} returned (shape tag, row tag) = {:?}, written {:?}", rname, p, want)));
                }
            }
        }
    }
}

/// The consuming bulk route: all pairs of an all-success history in one call.
fn write_bulk<W: std::io::Write + std::io::Seek>(w: Writer<W>, n: usize, t: i32, seed: u64) -> Vec<bool> {
    write_bulk_after(w, n, 0, t, seed)
}

/// The first `single` pairs through write_shape_and_record, the rest in one consuming bulk call.
fn write_bulk_after<W: std::io::Write + std::io::Seek>(mut w: Writer<W>, n: usize, single: usize, t: i32, seed: u64) -> Vec<bool> {
    let shapes: Vec<Shape> = (0..n).map(|call| tagged_shape(t, call, &mut Rng::derive(seed, &[tag("c08-shape"), t as u64, call as u64]))).collect();
    let rows: Vec<Record> = (0..n).map(good_row).collect();
    let mut results = vec![];
    for call in 0..single.min(n) {
        results.push(with_concrete!(&shapes[call], x => w.write_shape_and_record(x, &rows[call])).is_ok());
    }
    let ok = for_type!(t, T => {
        use std::convert::TryFrom;
        let typed: Vec<T> = shapes[single.min(n)..].iter().map(|s| T::try_from(crate::shapes::clone_shape(s)).ok().expect("harness: type table")).collect();
        w.write_shapes_and_records(typed.iter().zip(rows[single.min(n)..].iter())).is_ok()
    });
    results.extend(std::iter::repeat(ok).take(n - single.min(n)));
    results
}

fn run_cursor(t: i32, other: i32, word: &[u8], seed: u64, case: &str, rep: &mut Report) {
    let (a, b, c) = (Dest::new(), Dest::new(), Dest::new());
    // all-success histories alternate between the per-pair call and the consuming bulk route
    let bulk = word.iter().all(|l| *l == OK) && (word.len() % 2 == 0 || word.len() % 64 == 1) && !word.is_empty();
    if bulk {
        rep.count("histories_written_through_write_shapes_and_records(bulk)", 1);
    }
    let res = panicmon::catch(|| {
        let w = Writer::new(ShapeWriter::with_shx(a.clone(), b.clone()), table_builder().build_with_dest(c.clone()));
        if bulk {
            // every fourth bulk history: the first pairs one by one, the rest in the bulk call
            write_bulk_after(w, word.len(), if word.len() % 8 == 4 { word.len() / 2 } else { 0 }, t, seed)
        } else {
            write_history(w, word, t, other, seed)
        }
    });
    let results = match res {
        Ok(r) => r,
        Err(p) => return rep.violation("panic:write", case, J::obj(vec![("history", J::s(word_str(word))), ("panic", J::s(p.class()))])),
    };
    let out = Outcome { results, shp: a.data(), shx: b.data(), dbf: c.data() };
    let read = panicmon::catch(|| {
        let mk = || -> Result<Reader<Cursor<Vec<u8>>, Cursor<Vec<u8>>>, Error> {
            Ok(Reader::new(ShapeReader::with_shx(Cursor::new(out.shp.clone()), Cursor::new(out.shx.clone()))?, dbase::Reader::new(Cursor::new(out.dbf.clone()))?))
        };
        let r1 = pairs_of(mk().and_then(|mut r| r.read()));
        let r2 = pairs_of(mk().and_then(|mut r| r.iter_shapes_and_records().collect::<Result<Vec<_>, Error>>()));
        // std adaptors over the pair iterator (they use nth / fold / size_hint of the iterator)
        let r3 = pairs_of(mk().and_then(|mut r| r.iter_shapes_and_records().skip(1).collect::<Result<Vec<_>, Error>>()));
        let r4 = pairs_of(mk().and_then(|mut r| r.iter_shapes_and_records().step_by(2).collect::<Result<Vec<_>, Error>>()));
        let r5 = pairs_of(mk().and_then(|mut r| r.iter_shapes_and_records().nth(2).into_iter().collect::<Result<Vec<_>, Error>>()));
        let r6 = pairs_of(mk().and_then(|mut r| r.iter_shapes_and_records_as::<Shape, Record>().skip(2).collect::<Result<Vec<_>, Error>>()));
        let r_last = pairs_of(mk().and_then(|mut r| r.iter_shapes_and_records().last().into_iter().collect::<Result<Vec<_>, Error>>()));
        let r_count = mk().map(|mut r| r.iter_shapes_and_records().count()).map_err(|e| err_class(&e));
        // the complete reader WITHOUT index, and one reader used twice (a pair consumed through the
        // iterator, then read()): whatever comes back pairs shape i with row i
        let mkn = || -> Result<Reader<Cursor<Vec<u8>>, Cursor<Vec<u8>>>, Error> { Ok(Reader::new(ShapeReader::new(Cursor::new(out.shp.clone()))?, dbase::Reader::new(Cursor::new(out.dbf.clone()))?)) };
        let r7 = pairs_of(mkn().and_then(|mut r| r.read()));
        let r8 = pairs_of(mkn().and_then(|mut r| r.iter_shapes_and_records().collect::<Result<Vec<_>, Error>>()));
        let twice = |mut r: Reader<Cursor<Vec<u8>>, Cursor<Vec<u8>>>| -> Result<Vec<(Shape, Record)>, Error> {
            if let Some(x) = r.iter_shapes_and_records().next() {
                x?;
            }
            r.read()
        };
        let r9 = pairs_of(mkn().and_then(twice));
        let r10 = pairs_of(mk().and_then(twice));
        // seek(k), one pair through the iterator, seek(k) again, then everything
        let seek_twice = |mut r: Reader<Cursor<Vec<u8>>, Cursor<Vec<u8>>>, k: usize| -> Result<Vec<(Shape, Record)>, Error> {
            r.seek(k)?;
            if let Some(x) = r.iter_shapes_and_records().next() {
                x?;
            }
            r.seek(k)?;
            r.read()
        };
        let r11 = pairs_of(mk().and_then(|r| seek_twice(r, 1)));
        let r12 = pairs_of(mk().and_then(|r| seek_twice(r, 0)));
        // the pairs up to the first error, whatever comes after them
        let r_prefix = pairs_of(mk().map(|mut r| {
            let mut v = vec![];
            for x in r.iter_shapes_and_records() {
                match x {
                    Ok(p) => v.push(p),
                    Err(_) => break,
                }
                if v.len() > 200_000 {
                    break;
                }
            }
            v
        }));
        let r13 = pairs_of(mk().and_then(|r| seek_twice(r, 2)));
        // the complete reader without index: seek(k) is refused (whatever it answers is not judged
        // here), and what is read afterwards still pairs shape i with row i
        let seek_noidx = |mut r: Reader<Cursor<Vec<u8>>, Cursor<Vec<u8>>>, k: usize| -> Result<Vec<(Shape, Record)>, Error> {
            let _ = r.seek(k);
            r.read()
        };
        let r15 = pairs_of(mkn().and_then(|r| seek_noidx(r, 1)));
        let r16 = pairs_of(mkn().and_then(|r| seek_noidx(r, 3)));
        let r14 = pairs_of(mk().and_then(|r| seek_twice(r, 5)));
        vec![
            ("Reader::read", r1),
            ("Reader::iter_shapes_and_records", r2),
            ("iter.skip(1)", r3),
            ("iter.step_by(2)", r4),
            ("iter.nth(2)", r5),
            ("iter_as.skip(2)", r6),
            ("iter.last()", r_last),
            ("iter.count()", r_count.map(|c| vec![(None, None); c])),
            ("no-index:Reader::read", r7),
            ("no-index:iter_shapes_and_records", r8),
            ("no-index:one pair iterated, then read()", r9),
            ("one pair iterated, then read()", r10),
            ("seek(1), one pair, seek(1), then read()", r11),
            ("seek(0), one pair, seek(0), then read()", r12),
            ("seek(2), one pair, seek(2), then read()", r13),
            ("seek(5), one pair, seek(5), then read()", r14),
            ("pairs up to the first error", r_prefix),
            ("no-index:seek(1) answered, then read()", r15),
            ("no-index:seek(3) answered, then read()", r16),
        ]
    });
    match read {
        Ok(read) => judge(t, word, "cursor", &out, &read, case, rep),
        Err(p) => rep.violation("panic:read", case, J::obj(vec![("history", J::s(word_str(word))), ("panic", J::s(p.class()))])),
    }
}

fn run_path(t: i32, other: i32, word: &[u8], seed: u64, dir: &str, case: &str, rep: &mut Report) {
    // file-name styles: plain, dots inside the stem, spaces / non-ASCII (the three files of a
    // data set share the stem: <stem>.shp, <stem>.shx, <stem>.dbf)
    let plain = case.replace(':', "_");
    let stem = match word.len() % 3 {
        1 => format!("{}.2024.v2", plain),
        2 => format!("{} \u{e9}", plain),
        _ => plain,
    };
    let base = format!("{}/{}", dir, stem);
    // every fourth data set is addressed as <stem>.SHP (its companions are <stem>.shx / <stem>.dbf)
    let upper = word.len() % 4 == 3;
    let path = format!("{}.{}", base, if upper { "SHP" } else { "shp" });
    let bulk = word.iter().all(|l| *l == OK) && word.len() % 3 == 0 && !word.is_empty();
    let res = panicmon::catch(|| -> Result<Vec<bool>, Error> {
        let w = Writer::from_path(&path, table_builder())?;
        Ok(if bulk { write_bulk(w, word.len(), t, seed) } else { write_history(w, word, t, other, seed) })
    });
    let results = match res {
        Ok(Ok(r)) => r,
        Ok(Err(e)) => return rep.violation("error:from_path", case, J::s(err_class(&e))),
        Err(p) => return rep.violation("panic:write", case, J::s(p.class())),
    };
    let rd = |ext: &str| std::fs::read(format!("{}.{}", base, ext)).unwrap_or_default();
    let out = Outcome { results, shp: rd(if upper { "SHP" } else { "shp" }), shx: rd("shx"), dbf: rd("dbf") };
    let read = panicmon::catch(|| {
        let r1 = pairs_of(Reader::from_path(&path).and_then(|mut r| r.read()));
        let r2 = pairs_of(shapefile::read(&path));
        vec![("Reader::from_path.read", r1), ("shapefile::read(path)", r2)]
    });
    // a second shapefile with the table structure taken from the first one
    // (Reader::into_table_info -> Writer::from_path_with_info) must come out identical
    if word.iter().all(|l| *l == OK || *l == OTHER_TYPE) {
        let base2 = format!("{}_copy", base);
        let path2 = format!("{}.shp", base2);
        let second = panicmon::catch(|| -> Result<Vec<bool>, Error> {
            let info = Reader::from_path(&path)?.into_table_info();
            let w = Writer::from_path_with_info(&path2, info)?;
            Ok(write_history(w, word, t, other, seed))
        });
        let rd2 = |ext: &str| std::fs::read(format!("{}.{}", base2, ext)).unwrap_or_default();
        rep.count("files_rewritten_through_from_path_with_info", 1);
        match second {
            Ok(Ok(r2)) => {
                let same = r2 == out.results && rd2("shp") == out.shp && rd2("shx") == out.shx && crate::e_c10::mask_dbf(rd2("dbf")) == crate::e_c10::mask_dbf(out.dbf.clone());
                if !same {
                    rep.violation("pairing:from_path_with_info", case, J::obj(vec![("type", J::s(type_name(t))), ("history", J::s(word_str(word))), ("what", J::s("the shapefile rewritten with the table info of the first differs from it"))]));
                }
            }
            Ok(Err(e)) => rep.violation("pairing:from_path_with_info:error", case, J::s(err_class(&e))),
            Err(p) => rep.violation("panic:from_path_with_info", case, J::s(p.class())),
        }
        for ext in ["shp", "shx", "dbf"] {
            let _ = std::fs::remove_file(format!("{}.{}", base2, ext));
        }
    }
    for ext in ["shp", "SHP", "shx", "dbf"] {
        let _ = std::fs::remove_file(format!("{}.{}", base, ext));
    }
    match read {
        Ok(read) => judge(t, word, "path", &out, &read, case, rep),
        Err(p) => rep.violation("panic:read", case, J::s(p.class())),
    }
}

fn all_words(max_len: usize) -> Vec<Vec<u8>> {
    let mut all: Vec<Vec<u8>> = vec![vec![]];
    let mut frontier: Vec<Vec<u8>> = vec![vec![]];
    for _ in 0..max_len {
        let mut next = vec![];
        for w in &frontier {
            for l in [OK, OTHER_TYPE, MISSING_FIELD, WRONG_TYPE] {
                let mut x = w.clone();
                x.push(l);
                next.push(x);
            }
        }
        all.extend(next.iter().cloned());
        frontier = next;
    }
    // a leading foreign shape is not a failing call (it would merely fix another file type)
    all.retain(|w| w.first() != Some(&OTHER_TYPE));
    all
}

pub fn run(ctx: &Ctx) -> Report {
    let max_len = if cfg!(miri) { 2 } else { ctx.pick(5, 7) };
    let mut words = all_words(max_len);
    // all words over {well-formed pair, shape of another type} up to a larger bound: these are
    // the histories in which the files must stay consistent on the unrepaired tree as well
    if !cfg!(miri) {
        let two = ctx.pick(9, 12);
        for len in (max_len + 1)..=two {
            for code in 0..(1u32 << (len - 1)) {
                let mut w = vec![OK];
                for b in 0..len - 1 {
                    w.push(if code >> b & 1 == 1 { OTHER_TYPE } else { OK });
                }
                words.push(w);
            }
        }
    }
    // longer all-success and random histories
    if !cfg!(miri) {
        for n in [8usize, 12, 20, 40, 65, 66, 129, 130] {
            words.push(vec![OK; n]);
        }
        // numbers of pairs straddling powers of two (caps and buffer sizes change behaviour there)
        for n in gen::threshold_sizes(false).into_iter().filter(|n| ctx.thorough || n % 2 == 1) {
            words.push(vec![OK; n]);
        }
        let mut r = Rng::derive(ctx.seed, &[tag("c08-long")]);
        for _ in 0..ctx.pick(40, 400) {
            let n = r.usize_in(8, 24);
            words.push((0..n).map(|i| if i == 0 || r.chance(0.7) { OK } else { r.below(4) as u8 }).collect());
        }
    }
    let dir = format!("{}/files", ctx.out);
    if !cfg!(miri) {
        std::fs::create_dir_all(&dir).expect("harness: mkdir");
    }
    let types: Vec<i32> = if cfg!(miri) { vec![1, 25] } else { TYPES.to_vec() };
    let blocks = 8usize;
    let items: Vec<(i32, usize)> = types.iter().flat_map(|&t| (0..blocks).map(move |b| (t, b))).collect();
    let mut rep = par(ctx, items.len(), |idx, rep| {
        let (t, block) = items[idx];
        let other = TYPES[(TYPES.iter().position(|x| *x == t).unwrap() + 5) % TYPES.len()];
        for (wi, word) in words.iter().enumerate() {
            if wi % blocks != block {
                continue;
            }
            let case = format!("c08:t{}:w{}:cursor", t, wi);
            if ctx.want(&case) {
                rep.eval();
                rep.nontrivial(&case);
                rep.class(if word.iter().all(|l| *l == OK) { "all-success history" } else if word.iter().any(|l| *l >= MISSING_FIELD) { "history with a rejected row" } else { "history with a rejected shape only" });
                run_cursor(t, other, word, ctx.seed, &case, rep);
            }
            if word.len() > 1000 && !matches!(t, 1 | 23) {
                continue; // the large histories run for two types
            }
            if !cfg!(miri) && (wi % ctx.pick(13, 5) == 1 || word.len() > 1000 || word.is_empty()) {
                let case = format!("c08:t{}:w{}:path", t, wi);
                if ctx.want(&case) {
                    rep.eval();
                    rep.nontrivial(&case);
                    rep.class("by path (Writer::from_path, Reader::from_path, shapefile::read)");
                    run_path(t, other, word, ctx.seed, &dir, &case, rep);
                }
            }
            if wi % 211 == 3 {
                rep.sample(|| J::obj(vec![("type", J::s(type_name(t))), ("history", J::s(word_str(word)))]));
            }
        }
    });
    if ctx.only.is_none() {
        let rb = rep.counters.get("read_backs_compared").copied().unwrap_or(0);
        rep.guard("read-backs compared pair by pair", rb, if cfg!(miri) { 2 } else { 2000 });
    }
    rep.count("histories_per_type", words.len() as u64);
    if !cfg!(miri) {
        let _ = std::fs::remove_dir_all(&dir);
    }
    rep
}
