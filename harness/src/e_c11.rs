//! C11 — a crash at any point of writing never makes a reader see a wrong shape.
//!
//! Crash-point enumeration: the writer runs once on instrumented destinations; every prefix
//! of the .shp op log (optionally with a byte-level cut inside the next write) is combined
//! with every prefix of the .shx op log; a reader is opened on each image (pair).
//! Second class ("live"): one destination dies for good at its k-th operation while the other
//! keeps working, the caller stops at the first error and drops the writer; what both hold then
//! is read the same way (the operations issued after the death differ from the undisturbed log).

use crate::dump::{first_diff, Dump, D};
use crate::gen::{self, type_name, Cfg, TYPES};
use crate::iomon::{crash_points, image, Dest, Op};
use crate::json::J;
use crate::panicmon;
use crate::report::{par, Ctx, Report};
use crate::rng::{tag, Rng};
use crate::shapes::write_one;
use shapefile::*;
use std::io::Cursor;

struct Workload {
    t: i32,
    placement: usize,
    want: Vec<D>,
    shp_ops: Vec<(usize, Op)>,
    shx_ops: Vec<(usize, Op)>,
    /// (number of shp ops issued when a finalize completed, shapes written by then)
    commits: Vec<(usize, usize)>,
    /// for the phase label: epoch -> what the call was
    calls: Vec<&'static str>,
}

const PLACEMENTS: [&str; 6] = ["no-finalize", "finalize-after-each-write", "finalize-in-the-middle", "finalize-first", "finalize-twice-at-end", "all-shapes-through-one-write_shapes-call"];

fn record(t: i32, placement: usize, shapes: &[Shape]) -> Workload {
    let shp = Dest::new();
    let shx = Dest::new();
    let mut commits = vec![];
    let mut calls: Vec<&'static str> = vec!["-"];
    {
        let mut w = ShapeWriter::with_shx(shp.clone(), shx.clone());
        let mut epoch = 0;
        let mut fin = |w: &mut ShapeWriter<Dest>, written: usize, calls: &mut Vec<&'static str>, epoch: &mut usize| {
            *epoch += 1;
            shp.set_epoch(*epoch);
            shx.set_epoch(*epoch);
            calls.push("finalize");
            w.finalize().expect("harness: finalize on a healthy destination failed");
            commits.push((shp.n_ops(), written));
        };
        if placement == 3 {
            fin(&mut w, 0, &mut calls, &mut epoch);
        }
        if placement == 5 {
            // the consuming bulk route: one call (its own finalize and the drop run inside it)
            epoch += 1;
            shp.set_epoch(epoch);
            shx.set_epoch(epoch);
            calls.push("write_shapes");
            crate::e_c09::write_tail(w, &shapes.iter().collect::<Vec<&Shape>>()).expect("harness: bulk write on a healthy destination failed");
            commits.push((shp.n_ops(), shapes.len()));
            return Workload {
                t,
                placement,
                want: shapes.iter().map(|s| s.d().expected_after_roundtrip()).collect(),
                shp_ops: shp.ops(),
                shx_ops: shx.ops(),
                commits,
                calls,
            };
        }
        for (i, s) in shapes.iter().enumerate() {
            epoch += 1;
            shp.set_epoch(epoch);
            shx.set_epoch(epoch);
            calls.push("write_shape");
            write_one(&mut w, s).expect("harness: write on a healthy destination failed");
            if placement == 1 || (placement == 2 && i == shapes.len() / 2) {
                fin(&mut w, i + 1, &mut calls, &mut epoch);
            }
        }
        if placement == 4 {
            fin(&mut w, shapes.len(), &mut calls, &mut epoch);
            fin(&mut w, shapes.len(), &mut calls, &mut epoch);
        }
        epoch += 1;
        shp.set_epoch(epoch);
        shx.set_epoch(epoch);
        calls.push("drop");
    }
    Workload {
        t,
        placement,
        want: shapes.iter().map(|s| s.d().expected_after_roundtrip()).collect(),
        shp_ops: shp.ops(),
        shx_ops: shx.ops(),
        commits,
        calls,
    }
}

/// One destination dies for good at its k-th operation while the other one keeps working
/// ("writing stops ... independently"); the caller stops at the first call that reports an error
/// and lets the writer go (optionally after one more explicit finalize).
struct Live {
    shp: Vec<u8>,
    shx: Vec<u8>,
    /// shapes whose write returned Ok before the last finalize (explicit or in drop) whose
    /// .shp part ran to its flush without a failed operation
    floor: usize,
    ok_writes: usize,
    fired_in: Option<&'static str>,
}

fn live(placement: usize, shapes: &[Shape], shx_dies: bool, k: usize, explicit_finalize: bool) -> Live {
    let (shp, shx) = if shx_dies { (Dest::new(), Dest::with_fault(k, true)) } else { (Dest::with_fault(k, true), Dest::new()) };
    let mut calls: Vec<&'static str> = vec!["-"];
    // (epoch, writes that had returned Ok when the call started)
    let mut finalizes: Vec<(usize, usize)> = vec![];
    let mut ok_writes = 0;
    let mut epoch = 0;
    {
        let mut w = ShapeWriter::with_shx(shp.clone(), shx.clone());
        let mut stopped = false;
        let call = |name: &'static str, calls: &mut Vec<&'static str>, epoch: &mut usize| {
            *epoch += 1;
            shp.set_epoch(*epoch);
            shx.set_epoch(*epoch);
            calls.push(name);
        };
        if placement == 3 {
            call("finalize", &mut calls, &mut epoch);
            finalizes.push((epoch, ok_writes));
            stopped = w.finalize().is_err();
        }
        for (i, s) in shapes.iter().enumerate() {
            if stopped {
                break;
            }
            call("write_shape", &mut calls, &mut epoch);
            if write_one(&mut w, s).is_err() {
                break;
            }
            ok_writes += 1;
            if placement == 1 || (placement == 2 && i == shapes.len() / 2) {
                call("finalize", &mut calls, &mut epoch);
                finalizes.push((epoch, ok_writes));
                stopped = w.finalize().is_err();
            }
        }
        if explicit_finalize || placement == 4 {
            call("finalize", &mut calls, &mut epoch);
            finalizes.push((epoch, ok_writes));
            let _ = w.finalize();
        }
        call("drop", &mut calls, &mut epoch);
        finalizes.push((epoch, ok_writes));
    }
    let mut floor = 0;
    for (e, n) in &finalizes {
        let ops = shp.ops_in_epoch(*e);
        let clean = !ops.is_empty() && !ops.iter().any(|o| matches!(o, Op::Failed(_)));
        let header = ops.iter().any(|o| matches!(o, Op::Write(p, _) if *p < 100));
        let flushed_last = ops.iter().rposition(|o| matches!(o, Op::Flush)).map(|f| !ops[f..].iter().any(|o| matches!(o, Op::Write(..)))).unwrap_or(false);
        if clean && header && flushed_last {
            floor = floor.max(*n);
        }
    }
    let dying = if shx_dies { &shx } else { &shp };
    let fired_in = dying.fault_epoch().map(|e| calls.get(e).copied().unwrap_or("?"));
    Live { shp: shp.data(), shx: shx.data(), floor, ok_writes, fired_in }
}

fn phase(w: &Workload, ops: &[(usize, Op)], n_ops: usize) -> String {
    // the call during which the crash happened, and whether the cut op rewrites the header
    match ops.get(n_ops) {
        None => "after-last-op".to_string(),
        Some((e, op)) => {
            let call = w.calls.get(*e).copied().unwrap_or("?");
            let what = match op {
                Op::Write(p, _) if *p < 100 => "header",
                Op::Write(_, _) => "record",
                Op::Seek(_) => "seek",
                Op::Flush => "flush",
                Op::Failed(_) => "failed",
            };
            format!("{}:{}", call, what)
        }
    }
}

enum Seen {
    OpenErr,
    Items(Vec<Result<D, ()>>),
}

fn read_plain(img: &[u8], cap: usize) -> Seen {
    drain_plain(ShapeReader::new(Cursor::new(img.to_vec())), cap)
}

fn drain_plain<T: std::io::Read + std::io::Seek>(rd: Result<ShapeReader<T>, Error>, cap: usize) -> Seen {
    match rd {
        Err(_) => Seen::OpenErr,
        Ok(mut rd) => {
            let mut v = vec![];
            for x in rd.iter_shapes() {
                match x {
                    Ok(s) => v.push(Ok(s.d())),
                    Err(_) => {
                        v.push(Err(()));
                        break;
                    }
                }
                if v.len() > cap {
                    break;
                }
            }
            Seen::Items(v)
        }
    }
}

fn read_indexed(shp: &[u8], shx: &[u8], cap: usize) -> (Seen, Vec<(usize, D)>) {
    match ShapeReader::with_shx(Cursor::new(shp.to_vec()), Cursor::new(shx.to_vec())) {
        Err(_) => (Seen::OpenErr, vec![]),
        Ok(mut rd) => {
            let mut v = vec![];
            for x in rd.iter_shapes() {
                match x {
                    Ok(s) => v.push(Ok(s.d())),
                    Err(_) => {
                        v.push(Err(()));
                        break;
                    }
                }
                if v.len() > cap {
                    break;
                }
            }
            let n = rd.shape_count().unwrap_or(0).min(cap + 1);
            let mut nth = vec![];
            for i in 0..n {
                if let Some(Ok(s)) = rd.read_nth_shape(i) {
                    nth.push((i, s.d()));
                }
            }
            (Seen::Items(v), nth)
        }
    }
}

/// Ok items (up to the first error) must be want[0..k] in order.
fn prefix_ok(items: &[Result<D, ()>], want: &[D]) -> Result<usize, String> {
    let mut k = 0;
    for it in items {
        match it {
            Err(()) => break,
            Ok(g) => {
                match want.get(k) {
                    None => return Err("shape-that-was-never-written".into()),
                    Some(w) => {
                        if let Some(f) = first_diff(g, w) {
                            return Err(format!("wrong-shape.{}", f));
                        }
                    }
                }
                k += 1;
            }
        }
    }
    Ok(k)
}

pub fn run(ctx: &Ctx) -> Report {
    let types: Vec<i32> = if cfg!(miri) { vec![1, 23] } else { TYPES.to_vec() };
    let n_random = if cfg!(miri) { 0 } else { ctx.pick(0, 6) };
    // workloads: (type, placement, variant)
    let mut items: Vec<(i32, usize, usize)> = vec![];
    for &t in &types {
        for p in 0..PLACEMENTS.len() {
            if cfg!(miri) && p > 2 {
                continue;
            }
            items.push((t, p, 0));
            for v in 0..n_random {
                items.push((t, p, v + 1));
            }
        }
    }
    // workloads with one LARGE shape (more than 1024 points in its last part) between small ones
    if !cfg!(miri) {
        for &t in &[3, 5, 28, 23, 15, 18] {
            for p in [0usize, 1] {
                items.push((t, p, 100));
            }
        }
    }
    // byte-level cuts: everywhere in the thorough tier; for three types in the quick tier
    let bytes_for = |_t: i32, _variant: usize| -> bool { !cfg!(miri) }; // byte-level cuts for every type in both tiers (the tiers differ in the pair stride and the number of workloads)
    let mut rep = par(ctx, items.len(), |idx, rep| {
        let (t, placement, variant) = items[idx];
        let mut r = Rng::derive(ctx.seed, &[tag("c11"), t as u64, placement as u64, variant as u64]);
        let c = Cfg::hostile(0.1, 2, 3);
        let n = if cfg!(miri) { 2 } else { r.usize_in(3, 5) };
        let shapes: Vec<Shape> = if variant >= 100 {
            let small = Cfg::plain(2, 3);
            let big = 1040 + 3 * placement;
            let large = if gen::is_multipoint(t) {
                gen::shape_exact(t, &mut r, &small, 1, big)
            } else {
                let a = gen::shape_exact(t, &mut r, &small, 1, 3).d();
                let b = gen::shape_exact(t, &mut r, &small, 1, big).d();
                crate::shapes::build_from_parts(t, &[(0, a.parts[0].clone()), (if t == 3 { 0 } else { 1 }, b.parts[0].clone())], false)
            };
            rep.count("workloads_with_a_large_shape", 1);
            vec![gen::shape(t, &mut r, &small), large, gen::shape(t, &mut r, &small)]
        } else {
            (0..n).map(|_| gen::shape(t, &mut r, &c)).collect()
        };
        let n = shapes.len();
        let w = record(t, placement, &shapes);
        let byte_level = bytes_for(t, variant);
        let shp_points = crash_points(&w.shp_ops, byte_level);
        let shx_points = crash_points(&w.shx_ops, byte_level);
        // with byte-level cuts the pair space is large: every shp image x every 3rd shx image
        // (offset rotating with the shp index so that all shx images are met), all pairs otherwise
        let stride = if variant >= 100 { 7 } else if byte_level && !ctx.thorough { 5 } else if byte_level { 2 } else { 1 };
        let shx_images: Vec<Vec<u8>> = shx_points.iter().map(|&(o, k)| image(&w.shx_ops, o, k)).collect();
        let cap = n + 2;
        for (pi, &(o, k)) in shp_points.iter().enumerate() {
            let case = format!("c11:t{}:p{}:v{}:shp{}.{}", t, placement, variant, o, k);
            if ctx.only.is_some() && !ctx.only.as_ref().unwrap().starts_with(&case) {
                continue;
            }
            let img = image(&w.shp_ops, o, k);
            let ph = phase(&w, &w.shp_ops, o);
            // committed floor: shapes written before the last finalize whose shp ops are all inside the prefix
            let floor = w.commits.iter().filter(|(nops, _)| *nops <= o).map(|c| c.1).max().unwrap_or(0);
            let detail = |what: String, route: &str, shx_point: Option<(usize, usize)>| {
                J::obj(vec![
                    ("type", J::s(type_name(t))),
                    ("finalize_placement", J::s(PLACEMENTS[placement])),
                    ("shapes_written", J::UInt(n as u64)),
                    ("shp_ops_applied", J::UInt(o as u64)),
                    ("bytes_of_next_write_applied", J::UInt(k as u64)),
                    ("phase", J::s(ph.clone())),
                    ("committed_by_completed_finalize", J::UInt(floor as u64)),
                    ("route", J::s(route)),
                    ("shx_crash_point", shx_point.map(|(a, b)| J::s(format!("{}.{}", a, b))).unwrap_or(J::Null)),
                    ("what", J::s(what)),
                    ("shp_image_hex", J::bytes_hex(&img)),
                ])
            };
            // ---- reader without index
            rep.eval();
            rep.count("shp_images", 1);
            rep.class(&format!("no-index:{}", ph));
            rep.nontrivial(&case);
            match panicmon::catch(|| read_plain(&img, cap)) {
                Err(p) => rep.violation(&format!("{}/no-index/panic", ph), &case, detail(p.class(), "ShapeReader::new", None)),
                Ok(Seen::OpenErr) => {
                    if floor > 0 {
                        rep.violation(&format!("{}/no-index/lost-committed", ph), &case, detail("open failed although a finalize had completed".into(), "ShapeReader::new", None));
                    }
                }
                Ok(Seen::Items(items)) => match prefix_ok(&items, &w.want) {
                    Err(e) => rep.violation(&format!("{}/no-index/{}", ph, e.split('.').next().unwrap()), &case, detail(e, "ShapeReader::new", None)),
                    Ok(got) => {
                        if got < floor {
                            rep.violation(&format!("{}/no-index/lost-committed", ph), &case, detail(format!("{} shapes readable, {} were committed", got, floor), "ShapeReader::new", None));
                        }
                        if floor > 0 {
                            rep.count("images_with_a_committed_floor", 1);
                        }
                    }
                },
            }
            // ---- the same image as a file opened by path (no .shx next to it): a sample of the
            // images, and every second one that holds committed shapes
            if !cfg!(miri) && (pi % 8 == 3 || (floor > 0 && pi % 2 == 1)) {
                let dir = format!("{}/files", ctx.out);
                let path = format!("{}/{}.shp", dir, case.replace(':', "_").replace('.', "-"));
                if std::fs::create_dir_all(&dir).is_ok() && std::fs::write(&path, &img).is_ok() {
                    rep.count("shp_images_opened_by_path", 1);
                    let seen = panicmon::catch(|| drain_plain(ShapeReader::from_path(&path), cap));
                    let _ = std::fs::remove_file(&path);
                    match seen {
                        Err(p) => rep.violation(&format!("{}/by-path/panic", ph), &case, detail(p.class(), "ShapeReader::from_path", None)),
                        Ok(Seen::OpenErr) => {
                            if floor > 0 {
                                rep.violation(&format!("{}/by-path/lost-committed", ph), &case, detail("open failed although a finalize had completed".into(), "ShapeReader::from_path", None));
                            }
                        }
                        Ok(Seen::Items(items)) => match prefix_ok(&items, &w.want) {
                            Err(e) => rep.violation(&format!("{}/by-path/{}", ph, e.split('.').next().unwrap()), &case, detail(e, "ShapeReader::from_path", None)),
                            Ok(got) => {
                                if got < floor {
                                    rep.violation(&format!("{}/by-path/lost-committed", ph), &case, detail(format!("{} shapes readable, {} were committed", got, floor), "ShapeReader::from_path", None));
                                }
                            }
                        },
                    }
                }
            }
            // ---- reader with index: pairs of crash points
            for (xi, ximg) in shx_images.iter().enumerate() {
                if stride > 1 && (xi + pi) % stride != 0 {
                    continue;
                }
                let xcase = format!("{}:shx{}.{}", case, shx_points[xi].0, shx_points[xi].1);
                if !ctx.want(&xcase) && ctx.only.is_some() {
                    continue;
                }
                rep.eval();
                rep.count("image_pairs", 1);
                match panicmon::catch(|| read_indexed(&img, ximg, cap)) {
                    Err(p) => rep.violation(&format!("{}/index/panic", ph), &xcase, detail(p.class(), "ShapeReader::with_shx", Some(shx_points[xi]))),
                    Ok((Seen::OpenErr, _)) => rep.count("pairs_rejected_at_open", 1),
                    Ok((Seen::Items(items), nth)) => {
                        if let Err(e) = prefix_ok(&items, &w.want) {
                            rep.violation(&format!("{}/index/{}", ph, e.split('.').next().unwrap()), &xcase, detail(format!("iteration: {}; shx_image_hex {}", e, J::bytes_hex(ximg).to_string()), "ShapeReader::with_shx", Some(shx_points[xi])));
                        }
                        for (i, g) in &nth {
                            let ok = w.want.get(*i).map(|x| first_diff(g, x).is_none()).unwrap_or(false);
                            if !ok {
                                rep.violation(&format!("{}/index-nth/wrong-shape", ph), &xcase, detail(format!("read_nth_shape({}) returned a shape that is not record {}; shx_image_hex {}", i, i, J::bytes_hex(ximg).to_string()), "read_nth_shape", Some(shx_points[xi])));
                                break;
                            }
                        }
                        if !items.is_empty() {
                            rep.count("pairs_yielding_items", 1);
                        }
                    }
                }
            }
        }
        // ---- one destination dies for good while the other keeps working, then the writer goes
        if variant < 100 && ctx.only.as_ref().map(|o| o.contains(":live:")).unwrap_or(true) {
            for shx_dies in [true, false] {
                let n_ops = if shx_dies { w.shx_ops.len() } else { w.shp_ops.len() };
                let kstep = if cfg!(miri) { 5 } else { 1 };
                for k in (0..n_ops + 2).step_by(kstep) {
                    for explicit in [false, true] {
                        let side = if shx_dies { "shx-dies" } else { "shp-dies" };
                        let case = format!("c11:t{}:p{}:v{}:live:{}:k{}:x{}", t, placement, variant, side, k, explicit as u8);
                        if !ctx.want(&case) {
                            continue;
                        }
                        let l = match panicmon::catch(|| live(placement, &shapes, shx_dies, k, explicit)) {
                            Ok(l) => l,
                            Err(p) => {
                                rep.eval();
                                rep.violation(&format!("live:{}/writer/panic", side), &case, J::obj(vec![("type", J::s(type_name(t))), ("what", J::s(p.class()))]));
                                continue;
                            }
                        };
                        rep.eval();
                        rep.count("live_runs", 1);
                        let ph = l.fired_in.unwrap_or("never");
                        rep.class(&format!("live:{}:{}", side, ph));
                        if l.floor > 0 {
                            rep.count("live_runs_with_a_committed_floor", 1);
                        }
                        let detail = |what: String, route: &str| {
                            J::obj(vec![
                                ("type", J::s(type_name(t))),
                                ("finalize_placement", J::s(PLACEMENTS[placement])),
                                ("shapes_offered", J::UInt(n as u64)),
                                ("writes_that_returned_ok", J::UInt(l.ok_writes as u64)),
                                ("dying_destination", J::s(side)),
                                ("dies_at_its_operation", J::UInt(k as u64)),
                                ("call_during_which_it_died", J::s(ph)),
                                ("explicit_finalize_before_drop", J::Bool(explicit)),
                                ("committed_by_a_finalize_that_completed_on_the_shp", J::UInt(l.floor as u64)),
                                ("route", J::s(route)),
                                ("what", J::s(what)),
                                ("shp_hex", J::bytes_hex(&l.shp)),
                                ("shx_hex", J::bytes_hex(&l.shx)),
                            ])
                        };
                        match panicmon::catch(|| read_plain(&l.shp, cap)) {
                            Err(p) => rep.violation(&format!("live:{}:{}/no-index/panic", side, ph), &case, detail(p.class(), "ShapeReader::new")),
                            Ok(Seen::OpenErr) => {
                                if l.floor > 0 {
                                    rep.violation(&format!("live:{}:{}/no-index/lost-committed", side, ph), &case, detail("open failed although a finalize had completed on the .shp".into(), "ShapeReader::new"));
                                }
                            }
                            Ok(Seen::Items(items)) => match prefix_ok(&items, &w.want) {
                                Err(e) => rep.violation(&format!("live:{}:{}/no-index/{}", side, ph, e.split('.').next().unwrap()), &case, detail(e, "ShapeReader::new")),
                                Ok(got) => {
                                    if got < l.floor {
                                        rep.violation(&format!("live:{}:{}/no-index/lost-committed", side, ph), &case, detail(format!("{} shapes readable, {} were committed", got, l.floor), "ShapeReader::new"));
                                    }
                                }
                            },
                        }
                        match panicmon::catch(|| read_indexed(&l.shp, &l.shx, cap)) {
                            Err(p) => rep.violation(&format!("live:{}:{}/index/panic", side, ph), &case, detail(p.class(), "ShapeReader::with_shx")),
                            Ok((Seen::OpenErr, _)) => {}
                            Ok((Seen::Items(items), nth)) => {
                                if let Err(e) = prefix_ok(&items, &w.want) {
                                    rep.violation(&format!("live:{}:{}/index/{}", side, ph, e.split('.').next().unwrap()), &case, detail(e, "ShapeReader::with_shx"));
                                }
                                for (i, g) in &nth {
                                    if !w.want.get(*i).map(|x| first_diff(g, x).is_none()).unwrap_or(false) {
                                        rep.violation(&format!("live:{}:{}/index-nth/wrong-shape", side, ph), &case, detail(format!("read_nth_shape({}) is not record {}", i, i), "read_nth_shape"));
                                        break;
                                    }
                                }
                            }
                        }
                    }
                }
            }
        }
        rep.sample(|| {
            J::obj(vec![
                ("type", J::s(type_name(t))),
                ("finalize_placement", J::s(PLACEMENTS[placement])),
                ("shapes", J::UInt(n as u64)),
                ("shp_ops", J::UInt(w.shp_ops.len() as u64)),
                ("shx_ops", J::UInt(w.shx_ops.len() as u64)),
                ("shp_crash_points", J::UInt(shp_points.len() as u64)),
                ("shx_crash_points", J::UInt(shx_points.len() as u64)),
                ("byte_level_cuts", J::Bool(byte_level)),
            ])
        });
    });
    if ctx.only.is_none() {
        for (k, req) in [("shp_images", 1000u64), ("image_pairs", 10000), ("images_with_a_committed_floor", 100), ("pairs_yielding_items", 100), ("live_runs", 1000), ("live_runs_with_a_committed_floor", 100)] {
            let v = rep.counters.get(k).copied().unwrap_or(0);
            rep.guard(k, v, if cfg!(miri) { 1 } else { req });
        }
    }
    rep
}
