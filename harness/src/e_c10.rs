//! C10 — a writer holds one shape type; a rejected write changes nothing.
//!
//! All ordered pairs of distinct types (T, U) x all bounded words over {W_T, W_U, F}
//! containing at least one write of each kind, through `ShapeWriter` (with index) and the
//! complete `Writer` (shp + shx + dbf). Monitor: error fields of the rejected call, no
//! operation on any destination stamped with the epoch of a rejected call, final bytes equal
//! to those of the history with the rejected calls deleted.

use crate::gen::{self, type_name, Cfg, TYPES};
use crate::iomon::Dest;
use crate::json::J;
use crate::panicmon;
use crate::report::{par, Ctx, Report};
use crate::rng::{tag, Rng};
use crate::shapes::{err_class, write_one};
use shapefile::dbase::{self, FieldName, FieldValue, Record, TableWriterBuilder};
use shapefile::*;
use std::convert::TryFrom;

const WT: u8 = 0;
const WU: u8 = 1;
const F: u8 = 2;

/// A shape type defined OUTSIDE the crate (the traits are public) that reports
/// ShapeType::NullShape: offered to a writer that already holds a type it must be rejected
/// like any other foreign type.
pub struct UserNull;
impl HasShapeType for UserNull {
    fn shapetype() -> ShapeType {
        ShapeType::NullShape
    }
}
impl shapefile::record::WritableShape for UserNull {
    fn size_in_bytes(&self) -> usize {
        0
    }
    fn write_to<T: std::io::Write>(&self, _dest: &mut T) -> Result<(), Error> {
        Ok(())
    }
}
impl shapefile::record::EsriShape for UserNull {
    fn x_range(&self) -> [f64; 2] {
        [7.0, 7.0]
    }
    fn y_range(&self) -> [f64; 2] {
        [7.0, 7.0]
    }
}

/// After one accepted shape of type `t`: offering `UserNull` must fail with the mismatch error
/// naming (t, NullShape), issue no I/O, and leave the final bytes as if it had not happened.
fn user_null_probe(t: i32, st: &Shape, complete: bool) -> Option<String> {
    let (a, b, c) = (Dest::new(), Dest::new(), Dest::new());
    let (a2, b2, c2) = (Dest::new(), Dest::new(), Dest::new());
    let check = |res: Result<(), Error>| -> Option<String> {
        match res {
            Err(Error::MismatchShapeType { requested, actual }) if requested as i32 == t && actual as i32 == 0 => None,
            Err(e) => Some(format!("result {}", err_class(&e))),
            Ok(()) => Some("a shape reporting NullShape was accepted by a writer holding another type".into()),
        }
    };
    let mut bad = None;
    if complete {
        {
            let mut w = Writer::new(ShapeWriter::with_shx(a.clone(), b.clone()), table_builder().build_with_dest(c.clone()));
            write_pair(&mut w, st, &row(0)).ok()?;
            for d in [&a, &b, &c] {
                d.set_epoch(77);
            }
            bad = bad.or(check(w.write_shape_and_record(&UserNull, &row(1))));
            for d in [&a, &b, &c] {
                d.set_epoch(78);
            }
            write_pair(&mut w, st, &row(2)).ok()?;
        }
        {
            let mut w = Writer::new(ShapeWriter::with_shx(a2.clone(), b2.clone()), table_builder().build_with_dest(c2.clone()));
            write_pair(&mut w, st, &row(0)).ok()?;
            write_pair(&mut w, st, &row(2)).ok()?;
        }
    } else {
        {
            let mut w = ShapeWriter::with_shx(a.clone(), b.clone());
            write_one(&mut w, st).ok()?;
            a.set_epoch(77);
            b.set_epoch(77);
            bad = bad.or(check(w.write_shape(&UserNull)));
            a.set_epoch(78);
            b.set_epoch(78);
            write_one(&mut w, st).ok()?;
        }
        {
            let mut w = ShapeWriter::with_shx(a2.clone(), b2.clone());
            write_one(&mut w, st).ok()?;
            write_one(&mut w, st).ok()?;
        }
    }
    if bad.is_none() && [&a, &b, &c].iter().any(|d| !d.ops_in_epoch(77).is_empty()) {
        bad = Some("I/O during the rejected call".into());
    }
    if bad.is_none() && (a.data() != a2.data() || b.data() != b2.data() || mask_dbf(c.data()) != mask_dbf(c2.data())) {
        bad = Some("final bytes differ from the history without the rejected call".into());
    }
    bad
}

/// Histories the word enumeration does not contain: an index-less writer, a long accepted
/// prefix, a THIRD type offered after a second one was refused, and a first shape whose type is
/// NullShape (a user-defined one: the library's own null shape is not writable). Each history
/// is a list of (shape, accepted?) and is compared with the same history without the refused calls.
fn extra_histories(t: i32, u: i32, v: i32, st: &Shape, su: &Shape, sv: &Shape, big: &Shape, su_special: &Shape, dir: Option<&str>) -> Vec<(String, String)> {
    #[derive(Clone, Copy)]
    enum Call<'a> {
        W(&'a Shape, i32),
        Null,
        F,
    }
    let mut bad: Vec<(String, String)> = vec![];
    let run = |calls: &[(Call, bool)], with_index: bool, file_type: i32, bad: &mut Vec<(String, String)>, name: &str| -> Vec<Vec<u8>> {
        let (a, b) = (Dest::new(), Dest::new());
        {
            let mut w = if with_index { ShapeWriter::with_shx(a.clone(), b.clone()) } else { ShapeWriter::new(a.clone()) };
            for (i, (c, accepted)) in calls.iter().enumerate() {
                a.set_epoch(i + 1);
                b.set_epoch(i + 1);
                let (res, offered) = match c {
                    Call::W(s, ty) => (write_one(&mut w, s), *ty),
                    Call::Null => (w.write_shape(&UserNull), 0),
                    Call::F => (w.finalize(), -1),
                };
                if *accepted {
                    if let Err(e) = res {
                        bad.push((format!("{}/accepted-call-failed", name), format!("call {}: {}", i, err_class(&e))));
                    }
                } else {
                    match res {
                        Err(Error::MismatchShapeType { requested, actual }) if requested as i32 == file_type && actual as i32 == offered => {}
                        Err(Error::MismatchShapeType { requested, actual }) => bad.push((format!("{}/result", name), format!("call {} named ({}, {}), the file type is {} and the offered type {}", i, requested, actual, type_name(file_type), type_name(offered)))),
                        Err(e) => bad.push((format!("{}/result", name), format!("call {}: {}", i, err_class(&e)))),
                        Ok(()) => bad.push((format!("{}/result", name), format!("call {}: a shape of type {} was accepted by a writer holding {}", i, type_name(offered), type_name(file_type)))),
                    }
                    if !a.ops_in_epoch(i + 1).is_empty() || !b.ops_in_epoch(i + 1).is_empty() {
                        bad.push((format!("{}/io-during-reject", name), format!("call {}", i)));
                    }
                }
            }
            a.set_epoch(9999);
            b.set_epoch(9999);
        }
        vec![a.data(), b.data()]
    };
    let w = |s, ty| Call::W(s, ty);
    let histories: Vec<(&str, bool, i32, Vec<(Call, bool)>)> = vec![
        ("index-less-writer", false, t, vec![(w(st, t), true), (w(su, u), false), (w(st, t), true), (Call::F, true), (w(sv, v), false), (w(st, t), true)]),
        ("long-accepted-prefix", true, t, (0..7).map(|_| (w(st, t), true)).chain([(w(su, u), false), (w(sv, v), false), (w(st, t), true), (w(st, t), true)]).collect()),
        ("third-type", true, t, vec![(w(st, t), true), (w(su, u), false), (w(sv, v), false), (w(su, u), false), (w(st, t), true)]),
        ("first-type-NullShape", true, 0, vec![(Call::Null, true), (w(st, t), false), (Call::Null, true), (Call::F, true), (w(su, u), false)]),
        ("first-type-NullShape/index-less", false, 0, vec![(Call::Null, true), (w(st, t), false), (Call::Null, true)]),
        // the files have grown well beyond 8 KiB / 64 KiB when the refusal comes
        ("large-file", true, t, vec![(w(big, t), true), (w(big, t), true), (w(su, u), false), (w(big, t), true), (Call::F, true), (w(sv, v), false), (w(big, t), true), (w(big, t), true), (w(big, t), true), (w(su, u), false), (w(st, t), true)]),
        // the refused shape carries infinities / huge values / NaN measures
        ("refused-shape-with-special-values", true, t, vec![(w(st, t), true), (w(su_special, u), false), (w(st, t), true), (Call::F, true), (w(su_special, u), false)]),
    ];
    for (name, with_index, file_type, calls) in histories {
        let got = run(&calls, with_index, file_type, &mut bad, name);
        let kept: Vec<(Call, bool)> = calls.iter().filter(|(_, acc)| *acc).cloned().collect();
        let mut ignore = vec![];
        let want = run(&kept, with_index, file_type, &mut ignore, name);
        if got != want {
            bad.push((format!("{}/final-bytes", name), "the files differ from those of the same history without the refused calls".to_string()));
        }
    }
    // ---- the path-created writer: same history on disk
    if let Some(dir) = dir {
        let run_path = |name: &str, calls: &[(&Shape, bool)]| -> Option<(Vec<u8>, Vec<u8>)> {
            let base = format!("{}/c10_{}_{}_{}_{}", dir, t, u, v, name);
            let path = format!("{}.shp", base);
            {
                let mut w = ShapeWriter::from_path(&path).ok()?;
                for (s, _) in calls {
                    let _ = write_one(&mut w, s);
                }
            }
            let out = (std::fs::read(&path).ok()?, std::fs::read(format!("{}.shx", base)).ok()?);
            let _ = std::fs::remove_file(&path);
            let _ = std::fs::remove_file(format!("{}.shx", base));
            Some(out)
        };
        let calls: Vec<(&Shape, bool)> = vec![(st, true), (su, false), (st, true), (sv, false), (st, true)];
        let kept: Vec<(&Shape, bool)> = calls.iter().filter(|c| c.1).cloned().collect();
        match (run_path("a", &calls), run_path("b", &kept)) {
            (Some(x), Some(y)) => {
                if x != y {
                    bad.push(("from_path/final-bytes".to_string(), "the files differ from those of the same history without the refused calls".to_string()));
                }
            }
            _ => bad.push(("from_path/io".to_string(), "harness could not write the files".to_string())),
        }
    }
    // ---- a ShapeWriter that already holds its type, handed to Writer::new: a pair whose shape is
    //      refused leaves no row behind, the next pair of the file's type is accepted
    {
        let run_w = |with_refused: bool| -> Result<Vec<Vec<u8>>, String> {
            let (a, b, c) = (Dest::new(), Dest::new(), Dest::new());
            {
                let mut sw = ShapeWriter::with_shx(a.clone(), b.clone());
                write_one(&mut sw, st).map_err(|e| err_class(&e))?;
                // (the table gets a row for that first shape through its own writer below: the set stays aligned)
                let mut w = Writer::new(sw, table_builder().build_with_dest(c.clone()));
                if with_refused {
                    match write_pair(&mut w, su, &row(1)) {
                        Err(Error::MismatchShapeType { requested, actual }) if requested as i32 == t && actual as i32 == u => {}
                        other => return Err(format!("refused pair returned {:?}", other.err().map(|e| err_class(&e)))),
                    }
                }
                write_pair(&mut w, st, &row(2)).map_err(|e| format!("pair of the file's type refused: {}", err_class(&e)))?;
            }
            Ok(vec![a.data(), b.data(), mask_dbf(c.data())])
        };
        match (run_w(true), run_w(false)) {
            (Ok(x), Ok(y)) => {
                if x != y {
                    bad.push(("pre-typed-ShapeWriter-in-Writer/final-bytes".to_string(), "the three files differ from those of the same history without the refused pair".to_string()));
                }
            }
            (Err(e), _) | (_, Err(e)) => bad.push(("pre-typed-ShapeWriter-in-Writer/result".to_string(), e)),
        }
    }
    bad
}

fn word_str(w: &[u8]) -> String {
    w.iter().map(|l| ["W_T", "W_U", "F"][*l as usize]).collect::<Vec<_>>().join(" ")
}

pub fn table_builder() -> TableWriterBuilder {
    TableWriterBuilder::new()
        .add_numeric_field(FieldName::try_from("IDX").unwrap(), 10, 0)
        .add_character_field(FieldName::try_from("NAME").unwrap(), 12)
}

pub fn row(i: usize) -> Record {
    let mut r = Record::default();
    r.insert("IDX".to_string(), FieldValue::Numeric(Some(i as f64)));
    r.insert("NAME".to_string(), FieldValue::Character(Some(format!("row{}", i))));
    r
}

/// dbf bytes with the last-update date (header bytes 1..4) masked.
pub fn mask_dbf(mut b: Vec<u8>) -> Vec<u8> {
    for x in b.iter_mut().skip(1).take(3) {
        *x = 0;
    }
    b
}

fn write_pair<W: std::io::Write + std::io::Seek>(w: &mut Writer<W>, s: &Shape, r: &Record) -> Result<(), Error> {
    with_concrete!(s, x => w.write_shape_and_record(x, r))
}

#[derive(Default)]
struct Obs {
    bad: Vec<(&'static str, J)>,
    rejected: u64,
}

/// Run `word` with shapes st (type T) / su (type U). Returns the final bytes and what the
/// monitor saw. `complete`: use the complete Writer (F letters are skipped: it has no finalize).
fn run_word(word: &[u8], st: &Shape, su: &Shape, t: i32, u: i32, complete: bool, bulk_tail: bool) -> (Vec<Vec<u8>>, Obs, Vec<u8>) {
    let (a, b, c) = (Dest::new(), Dest::new(), Dest::new());
    let mut obs = Obs::default();
    let mut kept: Vec<u8> = vec![]; // the history with the rejected calls removed (letters relative to the file type)
    let first_write = word.iter().find(|&&l| l != F).copied();
    let (file_t, other_t) = if first_write == Some(WU) { (u, t) } else { (t, u) };
    let check_reject = |res: Result<(), Error>, epoch: usize, obs: &mut Obs| {
        obs.rejected += 1;
        match res {
            Err(Error::MismatchShapeType { requested, actual }) => {
                if requested as i32 != file_t || actual as i32 != other_t {
                    obs.bad.push(("result", J::obj(vec![("requested", J::s(format!("{}", requested))), ("actual", J::s(format!("{}", actual))), ("file_type", J::s(type_name(file_t))), ("offered", J::s(type_name(other_t)))])));
                }
            }
            Err(e) => obs.bad.push(("result", J::s(err_class(&e)))),
            Ok(()) => obs.bad.push(("result", J::s("Ok(()) for a shape of another type"))),
        }
        for (name, d) in [("shp", &a), ("shx", &b), ("dbf", &c)] {
            let ops = d.ops_in_epoch(epoch);
            if !ops.is_empty() {
                obs.bad.push(("io-during-reject", J::obj(vec![("destination", J::s(name)), ("ops", J::UInt(ops.len() as u64))])));
            }
        }
    };
    if complete {
        let sw = ShapeWriter::with_shx(a.clone(), b.clone());
        let tw = table_builder().build_with_dest(c.clone());
        let mut w = Writer::new(sw, tw);
        let mut accepted_any = false;
        for (i, &l) in word.iter().enumerate() {
            let epoch = i + 1;
            for d in [&a, &b, &c] {
                d.set_epoch(epoch);
            }
            if l == F {
                continue;
            }
            let is_file_type = (l == WT) == (file_t == t);
            let s = if l == WT { st } else { su };
            let res = write_pair(&mut w, s, &row(i));
            if !accepted_any || is_file_type {
                if let Err(e) = res {
                    obs.bad.push(("accepted-write-failed", J::s(err_class(&e))));
                }
                accepted_any = true;
                kept.push(l);
            } else {
                check_reject(res, epoch, &mut obs);
            }
        }
        for d in [&a, &b, &c] {
            d.set_epoch(9999);
        }
        if bulk_tail {
            // the bulk route consumes the writer: offering pairs of the foreign type must fail
            // and leave nothing behind (its own drop runs inside the call, so the monitor
            // compares the final bytes rather than the epoch)
            let foreign = if file_t == t { su } else { st };
            let r0 = row(900);
            let r1 = row(901);
            let res = with_concrete!(foreign, x => w.write_shapes_and_records(vec![(x, &r0), (x, &r1)]));
            obs.rejected += 1;
            match res {
                Err(Error::MismatchShapeType { requested, actual }) if requested as i32 == file_t && actual as i32 == other_t => {}
                Err(e) => obs.bad.push(("bulk-result", J::s(err_class(&e)))),
                Ok(()) => obs.bad.push(("bulk-result", J::s("Ok(()) for pairs of another shape type"))),
            }
            return (vec![a.data(), b.data(), mask_dbf(c.data())], obs, kept);
        }
    } else {
        let mut w = ShapeWriter::with_shx(a.clone(), b.clone());
        let mut accepted_any = false;
        for (i, &l) in word.iter().enumerate() {
            let epoch = i + 1;
            a.set_epoch(epoch);
            b.set_epoch(epoch);
            if l == F {
                if let Err(e) = w.finalize() {
                    obs.bad.push(("finalize-failed", J::s(err_class(&e))));
                }
                kept.push(F);
                continue;
            }
            let is_file_type = (l == WT) == (file_t == t);
            let s = if l == WT { st } else { su };
            let res = write_one(&mut w, s);
            if !accepted_any || is_file_type {
                if let Err(e) = res {
                    obs.bad.push(("accepted-write-failed", J::s(err_class(&e))));
                }
                accepted_any = true;
                kept.push(l);
            } else {
                check_reject(res, epoch, &mut obs);
            }
        }
        a.set_epoch(9999);
        b.set_epoch(9999);
        if bulk_tail {
            let foreign = if file_t == t { su } else { st };
            let res = with_concrete!(foreign, x => w.write_shapes(vec![x, x]));
            obs.rejected += 1;
            match res {
                Err(Error::MismatchShapeType { requested, actual }) if requested as i32 == file_t && actual as i32 == other_t => {}
                Err(e) => obs.bad.push(("bulk-result", J::s(err_class(&e)))),
                Ok(()) => obs.bad.push(("bulk-result", J::s("Ok(()) for shapes of another type"))),
            }
            return (vec![a.data(), b.data(), mask_dbf(c.data())], obs, kept);
        }
    }
    (vec![a.data(), b.data(), mask_dbf(c.data())], obs, kept)
}

/// The same history with the rejected calls deleted (only file-type writes and finalizes).
fn run_filtered(word: &[u8], kept: &[u8], st: &Shape, su: &Shape, complete: bool) -> Vec<Vec<u8>> {
    let (a, b, c) = (Dest::new(), Dest::new(), Dest::new());
    if complete {
        let mut w = Writer::new(ShapeWriter::with_shx(a.clone(), b.clone()), table_builder().build_with_dest(c.clone()));
        // rows keep the index of the call they came from
        for (i, &l) in word.iter().enumerate() {
            if l != F && is_kept(word, i) {
                let s = if l == WT { st } else { su };
                write_pair(&mut w, s, &row(i)).expect("harness: filtered history failed");
            }
        }
    } else {
        let mut w = ShapeWriter::with_shx(a.clone(), b.clone());
        for &l in kept {
            match l {
                F => w.finalize().expect("harness: filtered finalize failed"),
                _ => write_one(&mut w, if l == WT { st } else { su }).expect("harness: filtered write failed"),
            }
        }
    }
    vec![a.data(), b.data(), mask_dbf(c.data())]
}

/// Whether call i of `word` is an accepted (kept) call: the first write and every later
/// write of the same letter.
fn is_kept(word: &[u8], i: usize) -> bool {
    let first = word.iter().find(|&&l| l != F).copied();
    word[i] == F || Some(word[i]) == first
}

fn all_words(max_len: usize) -> Vec<Vec<u8>> {
    let mut words: Vec<Vec<u8>> = vec![];
    let mut frontier: Vec<Vec<u8>> = vec![vec![]];
    for _ in 0..max_len {
        let mut next = vec![];
        for w in &frontier {
            for l in [WT, WU, F] {
                let mut x = w.clone();
                x.push(l);
                next.push(x);
            }
        }
        words.extend(next.iter().cloned());
        frontier = next;
    }
    // only words in which some write is rejected: both letters occur
    words.into_iter().filter(|w| w.contains(&WT) && w.contains(&WU)).collect()
}

pub fn run(ctx: &Ctx) -> Report {
    let max_len = if cfg!(miri) { 3 } else { ctx.pick(5, 8) };
    let words = all_words(max_len);
    let types: Vec<i32> = if cfg!(miri) { vec![1, 15, 31, 28] } else { TYPES.to_vec() };
    let pairs: Vec<(i32, i32)> = types.iter().flat_map(|&t| types.iter().filter(move |&&u| u != t).map(move |&u| (t, u))).collect();
    let mut rep = par(ctx, pairs.len() * 2, |idx, rep| {
        let (t, u) = pairs[idx / 2];
        let complete = idx % 2 == 1;
        let mut r = Rng::derive(ctx.seed, &[tag("c10"), t as u64, u as u64]);
        let c = Cfg::plain(2, 3);
        let st = gen::shape(t, &mut r, &c);
        let su = gen::shape(u, &mut r, &c);
        if u == types[(types.iter().position(|x| *x == t).unwrap() + 1) % types.len()] {
            // once per (T, writer kind): the user-defined NullShape-typed shape
            let case = format!("c10:T{}:user-null:{}", t, if complete { "writer" } else { "shapewriter" });
            if ctx.want(&case) {
                rep.eval();
                rep.count("user_defined_nullshape_offers", 1);
                match panicmon::catch(|| user_null_probe(t, &st, complete)) {
                    Ok(None) => {}
                    Ok(Some(what)) => rep.violation(&format!("({},NullShape)/user-defined-shape", type_name(t)), &case, J::s(what)),
                    Err(p) => rep.violation(&format!("({},NullShape)/panic", type_name(t)), &case, J::s(p.class())),
                }
            }
        }
        if !complete {
            // histories outside the word enumeration (third type V, index-less writer, long prefix, NullShape first)
            let v = types[(types.iter().position(|x| *x == u).unwrap() + 3) % types.len()];
            let v = if v == t { types[(types.iter().position(|x| *x == v).unwrap() + 1) % types.len()] } else { v };
            let v = if v == u { types[(types.iter().position(|x| *x == v).unwrap() + 1) % types.len()] } else { v };
            let sv = gen::shape(v, &mut r, &c);
            let case = format!("c10:T{}:U{}:V{}:extra", t, u, v);
            if ctx.want(&case) && v != t && v != u {
                rep.eval();
                rep.count("extra_histories(index-less writer, long prefix, third type, NullShape first, large file, special refused shape, from_path, pre-typed writer)", 9);
                let big = if gen::is_point(t) { crate::shapes::clone_shape(&st) } else { gen::shape_exact(t, &mut r, &Cfg::plain(1, 2), 2, 1500) };
                let su_special = gen::shape(u, &mut r, &Cfg::hostile(1.0, 2, 3));
                let dir = if cfg!(miri) { None } else { Some(ctx.out.clone()) };
                match panicmon::catch(|| extra_histories(t, u, v, &st, &su, &sv, &big, &su_special, dir.as_deref())) {
                    Err(p) => rep.violation(&format!("({},{})/extra/panic", type_name(t), type_name(u)), &case, J::s(p.class())),
                    Ok(bad) => {
                        for (sig, what) in bad {
                            rep.violation(&format!("extra/{}", sig), &case, J::obj(vec![("first_type_T", J::s(type_name(t))), ("second_type_U", J::s(type_name(u))), ("third_type_V", J::s(type_name(v))), ("what", J::s(what))]));
                        }
                    }
                }
            }
        }
        for (wi, word) in words.iter().enumerate() {
            if complete && word.contains(&F) {
                continue; // the complete writer has no finalize: its alphabet is {W_T, W_U}
            }
            for bulk_tail in [false, true] {
            let case = format!("c10:T{}:U{}:{}:w{}{}", t, u, if complete { "writer" } else { "shapewriter" }, wi, if bulk_tail { ":bulk" } else { "" });
            if !ctx.want(&case) {
                continue;
            }
            if bulk_tail {
                rep.count("bulk_route_rejections(write_shapes / write_shapes_and_records)", 1);
            }
            rep.eval();
            rep.class(if complete { "Writer(shp+shx+dbf)" } else { "ShapeWriter(shp+shx)" });
            rep.nontrivial(&case);
            let out = panicmon::catch(|| {
                let (bytes, obs, kept) = run_word(word, &st, &su, t, u, complete, bulk_tail);
                let filtered = run_filtered(word, &kept, &st, &su, complete);
                (bytes, obs, filtered)
            });
            let leading_f = word.first() == Some(&F);
            let first_write = word.iter().find(|&&l| l != F).copied();
            let (ft, ot) = if first_write == Some(WU) { (u, t) } else { (t, u) };
            let detail = |what: J| {
                J::obj(vec![
                    ("first_type_T", J::s(type_name(t))),
                    ("other_type_U", J::s(type_name(u))),
                    ("word", J::s(word_str(word))),
                    ("writer", J::s(if complete { "Writer" } else { "ShapeWriter" })),
                    ("what", what),
                ])
            };
            match out {
                Err(p) => rep.violation(&format!("({},{})/panic", type_name(ft), type_name(ot)), &case, detail(J::s(p.class()))),
                Ok((bytes, obs, filtered)) => {
                    rep.count("rejected_writes_observed", obs.rejected);
                    for (field, j) in obs.bad {
                        rep.violation(&format!("({},{})/{}", type_name(ft), type_name(ot), field), &case, detail(j));
                    }
                    if bytes != filtered {
                        let which: Vec<&str> = ["shp", "shx", "dbf"].iter().zip(bytes.iter().zip(&filtered)).filter(|(_, (x, y))| x != y).map(|(n, _)| *n).collect();
                        // a leading F on the unrepaired tree duplicates the header (C09's finding);
                        // both histories contain it, so it cancels out here
                        let _ = leading_f;
                        rep.violation(&format!("({},{})/final-bytes", type_name(ft), type_name(ot)), &case, detail(J::s(format!("differs from the filtered history in: {}", which.join(",")))));
                    }
                }
            }
            if wi % 61 == 7 {
                rep.sample(|| detail(J::s(format!("case {}", case))));
            }
            }
        }
    });
    if ctx.only.is_none() {
        let rj = rep.counters.get("rejected_writes_observed").copied().unwrap_or(0);
        rep.guard("rejected writes observed", rj, pairs.len() as u64 * 10);
    }
    rep.count("words_with_a_rejected_write", words.len() as u64);
    rep.count("ordered_type_pairs", pairs.len() as u64);
    rep
}
