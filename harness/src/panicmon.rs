//! Panic monitor: a process-wide hook that records (file, line, message) of the last panic
//! of each thread instead of printing it; library calls in hostile workloads are wrapped in
//! `catch` which returns the record.

use std::cell::RefCell;
use std::panic::{catch_unwind, AssertUnwindSafe};

#[derive(Clone, Debug, Default)]
pub struct PanicInfo {
    pub file: String,
    pub line: u32,
    pub msg: String,
}

thread_local! {
    static LAST: RefCell<Option<PanicInfo>> = const { RefCell::new(None) };
}

pub fn install() {
    std::panic::set_hook(Box::new(|info| {
        let (file, line) = info.location().map(|l| (l.file().to_string(), l.line())).unwrap_or_default();
        let msg = if let Some(s) = info.payload().downcast_ref::<&str>() {
            s.to_string()
        } else if let Some(s) = info.payload().downcast_ref::<String>() {
            s.clone()
        } else {
            "<non-string payload>".to_string()
        };
        if msg.starts_with("harness:") || std::env::var_os("VERIF_DEBUG").is_some() {
            // a bug in the harness itself must be loud
            eprintln!("HARNESS PANIC at {}:{}: {}", file, line, msg);
        }
        let _ = LAST.try_with(|l| *l.borrow_mut() = Some(PanicInfo { file, line, msg }));
    }));
}

/// Run `f`, returning Err(panic record) if it panicked.
pub fn catch<T>(f: impl FnOnce() -> T) -> Result<T, PanicInfo> {
    LAST.with(|l| *l.borrow_mut() = None);
    match catch_unwind(AssertUnwindSafe(f)) {
        Ok(v) => Ok(v),
        Err(_) => Err(LAST.with(|l| l.borrow_mut().take()).unwrap_or_default()),
    }
}

impl PanicInfo {
    /// Stable class of a panic: in-repo file (path tail), and the message with digits removed.
    /// Line numbers are kept out so the class survives unrelated edits.
    pub fn class(&self) -> String {
        let file = match self.file.rfind("/src/") {
            Some(i) if !self.file.contains("/rustc/") && !self.file.contains("/.cargo/") => self.file[i + 1..].to_string(),
            _ => {
                if self.file.contains("/rustc/") || self.file.contains("library/") {
                    "<std>".to_string()
                } else if self.file.contains("/.cargo/") {
                    let tail = self.file.rsplit("/registry/src/").next().unwrap_or("");
                    format!("<dep:{}>", tail.split('/').nth(1).unwrap_or("?"))
                } else {
                    self.file.clone()
                }
            }
        };
        let mut msg: String = self.msg.chars().filter(|c| !c.is_ascii_digit()).take(60).collect();
        msg = msg.replace("  ", " ");
        format!("{}:{}", file, msg.trim())
    }
}
