//! Minimal JSON value + serializer (no external crates; the harness may only use what
//! /repo's Cargo.lock already pins).

use std::fmt::Write;

#[derive(Clone, Debug, PartialEq)]
pub enum J {
    Null,
    Bool(bool),
    Int(i64),
    UInt(u64),
    Float(f64),
    Str(String),
    Arr(Vec<J>),
    Obj(Vec<(String, J)>),
}

impl J {
    pub fn s(v: impl Into<String>) -> J {
        J::Str(v.into())
    }
    pub fn obj(pairs: Vec<(&str, J)>) -> J {
        J::Obj(pairs.into_iter().map(|(k, v)| (k.to_string(), v)).collect())
    }
    pub fn arr<T, F: Fn(&T) -> J>(v: &[T], f: F) -> J {
        J::Arr(v.iter().map(f).collect())
    }
    pub fn hex(bits: u64) -> J {
        J::Str(format!("{:016x}", bits))
    }
    pub fn bytes_hex(b: &[u8]) -> J {
        let mut s = String::with_capacity(b.len() * 2);
        for x in b {
            let _ = write!(s, "{:02x}", x);
        }
        J::Str(s)
    }

    pub fn write(&self, out: &mut String) {
        match self {
            J::Null => out.push_str("null"),
            J::Bool(b) => out.push_str(if *b { "true" } else { "false" }),
            J::Int(i) => {
                let _ = write!(out, "{}", i);
            }
            J::UInt(i) => {
                let _ = write!(out, "{}", i);
            }
            J::Float(f) => {
                if f.is_finite() {
                    let _ = write!(out, "{:?}", f);
                } else {
                    out.push_str("null");
                }
            }
            J::Str(s) => write_str(s, out),
            J::Arr(v) => {
                out.push('[');
                for (i, x) in v.iter().enumerate() {
                    if i > 0 {
                        out.push(',');
                    }
                    x.write(out);
                }
                out.push(']');
            }
            J::Obj(v) => {
                out.push('{');
                for (i, (k, x)) in v.iter().enumerate() {
                    if i > 0 {
                        out.push(',');
                    }
                    write_str(k, out);
                    out.push(':');
                    x.write(out);
                }
                out.push('}');
            }
        }
    }

    pub fn to_string(&self) -> String {
        let mut s = String::new();
        self.write(&mut s);
        s
    }
}

fn write_str(s: &str, out: &mut String) {
    out.push('"');
    for c in s.chars() {
        match c {
            '"' => out.push_str("\\\""),
            '\\' => out.push_str("\\\\"),
            '\n' => out.push_str("\\n"),
            '\r' => out.push_str("\\r"),
            '\t' => out.push_str("\\t"),
            c if (c as u32) < 0x20 => {
                let _ = write!(out, "\\u{:04x}", c as u32);
            }
            c => out.push(c),
        }
    }
    out.push('"');
}

pub fn unhex(s: &str) -> Vec<u8> {
    let b = s.as_bytes();
    (0..b.len() / 2)
        .map(|i| {
            let h = |c: u8| match c {
                b'0'..=b'9' => c - b'0',
                b'a'..=b'f' => c - b'a' + 10,
                b'A'..=b'F' => c - b'A' + 10,
                _ => 0,
            };
            h(b[2 * i]) * 16 + h(b[2 * i + 1])
        })
        .collect()
}
