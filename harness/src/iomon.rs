//! Instrumented I/O objects handed to the library: every operation is logged with the epoch
//! (index of the API call in progress) the driver stamped, faults and short transfers can be
//! planned per operation index, and crash images can be rebuilt from any prefix of the log.

use crate::rng::Rng;
use std::cell::RefCell;
use std::io::{self, Read, Seek, SeekFrom, Write};
use std::rc::Rc;

#[derive(Clone, Debug, PartialEq)]
pub enum Op {
    /// position, bytes actually accepted
    Write(u64, Vec<u8>),
    /// resulting position
    Seek(u64),
    Flush,
    /// an operation the fault plan failed (kind: 'w', 's', 'f')
    Failed(char),
}

#[derive(Clone, Debug, Default)]
pub enum Chunking {
    #[default]
    Full,
    /// accept at most c bytes per write call
    Fixed(usize),
    /// accept 1..=max bytes per call, drawn from a PRNG stream
    Random(u64, usize),
}

#[derive(Clone, Debug, Default)]
pub struct FaultPlan {
    /// fail the operation with this global index (counting writes, seeks and flushes)
    pub at: Option<usize>,
    /// keep failing every operation from `at` on, until `heal()` is called
    pub persistent: bool,
    /// failing FLUSH operations report ErrorKind::Interrupted (never used for writes: write_all
    /// retries those for ever, legitimately)
    pub interrupted_flush: bool,
    /// which io::ErrorKind the injected failure carries (0 = Other; see `injected`)
    pub error_kind: u8,
}

#[derive(Default)]
pub struct DestState {
    pub data: Vec<u8>,
    pub pos: u64,
    pub ops: Vec<(usize, Op)>,
    pub epoch: usize,
    pub fault: FaultPlan,
    pub healed: bool,
    pub chunking: Chunking,
    rng: Option<Rng>,
    /// number of operations attempted (including failed ones)
    pub attempts: usize,
}

/// In-memory `Write + Seek` destination. Cloning shares the state, so the driver keeps a
/// handle while the library owns another.
#[derive(Clone, Default)]
pub struct Dest(pub Rc<RefCell<DestState>>);

impl Dest {
    pub fn new() -> Dest {
        Dest::default()
    }
    pub fn with_chunking(c: Chunking) -> Dest {
        let d = Dest::default();
        if let Chunking::Random(seed, _) = &c {
            d.0.borrow_mut().rng = Some(Rng::new(*seed));
        }
        d.0.borrow_mut().chunking = c;
        d
    }
    pub fn with_fault(at: usize, persistent: bool) -> Dest {
        let d = Dest::default();
        d.0.borrow_mut().fault = FaultPlan { at: Some(at), persistent, interrupted_flush: false, error_kind: 0 };
        d
    }
    pub fn set_epoch(&self, e: usize) {
        self.0.borrow_mut().epoch = e;
    }
    pub fn heal(&self) {
        self.0.borrow_mut().healed = true;
    }
    pub fn data(&self) -> Vec<u8> {
        self.0.borrow().data.clone()
    }
    pub fn n_ops(&self) -> usize {
        self.0.borrow().ops.len()
    }
    pub fn ops(&self) -> Vec<(usize, Op)> {
        self.0.borrow().ops.clone()
    }
    pub fn ops_in_epoch(&self, e: usize) -> Vec<Op> {
        self.0.borrow().ops.iter().filter(|(x, _)| *x == e).map(|(_, o)| o.clone()).collect()
    }
    /// Epoch in which the planned fault fired, if it did.
    pub fn fault_epoch(&self) -> Option<usize> {
        self.0.borrow().ops.iter().find(|(_, o)| matches!(o, Op::Failed(_))).map(|(e, _)| *e)
    }
    pub fn failed_count(&self) -> usize {
        self.0.borrow().ops.iter().filter(|(_, o)| matches!(o, Op::Failed(_))).count()
    }
}

impl DestState {
    fn should_fail(&mut self) -> bool {
        let idx = self.attempts;
        self.attempts += 1;
        if self.healed {
            return false;
        }
        match self.fault.at {
            Some(k) if idx == k => true,
            Some(k) if self.fault.persistent && idx > k => true,
            _ => false,
        }
    }
}

fn injected_kind(k: u8) -> io::Error {
    // never ErrorKind::Interrupted: write_all legitimately retries that one
    let kind = match k % 10 {
        7 => io::ErrorKind::InvalidInput,
        8 => io::ErrorKind::NotFound,
        9 => io::ErrorKind::ConnectionReset,
        0 => io::ErrorKind::Other,
        1 => io::ErrorKind::WouldBlock,
        2 => io::ErrorKind::TimedOut,
        3 => io::ErrorKind::BrokenPipe,
        4 => io::ErrorKind::PermissionDenied,
        5 => io::ErrorKind::WriteZero,
        _ => io::ErrorKind::UnexpectedEof,
    };
    io::Error::new(kind, "verif: injected I/O fault")
}

fn injected() -> io::Error {
    injected_kind(0)
}

impl Write for Dest {
    fn write(&mut self, b: &[u8]) -> io::Result<usize> {
        let mut s = self.0.borrow_mut();
        let e = s.epoch;
        if s.should_fail() {
            s.ops.push((e, Op::Failed('w')));
            return Err(injected_kind(s.fault.error_kind));
        }
        let n = if b.is_empty() {
            0
        } else {
            match s.chunking.clone() {
                Chunking::Full => b.len(),
                Chunking::Fixed(c) => b.len().min(c.max(1)),
                Chunking::Random(_, max) => {
                    let r = s.rng.as_mut().expect("rng").usize_in(1, max.max(1));
                    b.len().min(r)
                }
            }
        };
        let p = s.pos as usize;
        if s.data.len() < p + n {
            s.data.resize(p + n, 0);
        }
        s.data[p..p + n].copy_from_slice(&b[..n]);
        s.ops.push((e, Op::Write(p as u64, b[..n].to_vec())));
        s.pos += n as u64;
        Ok(n)
    }

    fn flush(&mut self) -> io::Result<()> {
        let mut s = self.0.borrow_mut();
        let e = s.epoch;
        if s.should_fail() {
            s.ops.push((e, Op::Failed('f')));
            if s.fault.interrupted_flush {
                return Err(io::Error::new(io::ErrorKind::Interrupted, "verif: injected interrupted flush"));
            }
            return Err(injected_kind(s.fault.error_kind));
        }
        s.ops.push((e, Op::Flush));
        Ok(())
    }
}

impl Seek for Dest {
    fn seek(&mut self, p: SeekFrom) -> io::Result<u64> {
        let mut s = self.0.borrow_mut();
        let e = s.epoch;
        if s.should_fail() {
            s.ops.push((e, Op::Failed('s')));
            if s.fault.interrupted_flush {
                // (the flag covers seeks as well: nothing retries an interrupted seek)
                return Err(io::Error::new(io::ErrorKind::Interrupted, "verif: injected interrupted seek"));
            }
            return Err(injected_kind(s.fault.error_kind));
        }
        let np = match p {
            SeekFrom::Start(x) => x as i64,
            SeekFrom::End(x) => s.data.len() as i64 + x,
            SeekFrom::Current(x) => s.pos as i64 + x,
        };
        if np < 0 {
            return Err(io::Error::new(io::ErrorKind::InvalidInput, "seek before start"));
        }
        s.pos = np as u64;
        s.ops.push((e, Op::Seek(np as u64)));
        Ok(s.pos)
    }
}

/// Image of the destination after the first `n_ops` operations of `ops` plus the first `cut`
/// bytes of operation `n_ops` if that one is a write.
pub fn image(ops: &[(usize, Op)], n_ops: usize, cut: usize) -> Vec<u8> {
    let mut img: Vec<u8> = Vec::new();
    let mut apply = |p: u64, b: &[u8]| {
        let p = p as usize;
        if img.len() < p + b.len() {
            img.resize(p + b.len(), 0);
        }
        img[p..p + b.len()].copy_from_slice(b);
    };
    for (_, op) in &ops[..n_ops.min(ops.len())] {
        if let Op::Write(p, b) = op {
            apply(*p, b);
        }
    }
    if cut > 0 {
        if let Some((_, Op::Write(p, b))) = ops.get(n_ops) {
            apply(*p, &b[..cut.min(b.len())]);
        }
    }
    img
}

/// Every crash point of an op log: (ops fully applied, bytes of the next op applied).
/// Byte-level cuts only when `bytes` is set.
pub fn crash_points(ops: &[(usize, Op)], bytes: bool) -> Vec<(usize, usize)> {
    let mut out = vec![];
    for i in 0..=ops.len() {
        out.push((i, 0));
        if bytes {
            if let Some((_, Op::Write(_, b))) = ops.get(i) {
                for k in 1..b.len() {
                    out.push((i, k));
                }
            }
        }
    }
    out
}

// ---------------------------------------------------------------------------- source

#[derive(Clone, Debug, PartialEq)]
pub enum ROp {
    /// position, bytes requested, bytes returned
    Read(u64, usize, usize),
    Seek(u64),
    Failed(char),
}

#[derive(Default)]
pub struct SrcState {
    pub data: Vec<u8>,
    pub pos: u64,
    pub ops: Vec<(usize, ROp)>,
    pub epoch: usize,
    pub fault_at: Option<usize>,
    pub persistent: bool,
    /// kind of the injected error: rotates with the fault point (see `injected_kind`)
    pub error_kind: u8,
    pub chunking: Chunking,
    rng: Option<Rng>,
    pub attempts: usize,
}

/// `Read + Seek` source over a byte vector with an op log, fault plan and short-read plan.
#[derive(Clone, Default)]
pub struct Src(pub Rc<RefCell<SrcState>>);

impl Src {
    pub fn new(data: Vec<u8>) -> Src {
        let s = Src::default();
        s.0.borrow_mut().data = data;
        s
    }
    pub fn chunked(data: Vec<u8>, c: Chunking) -> Src {
        let s = Src::new(data);
        if let Chunking::Random(seed, _) = &c {
            s.0.borrow_mut().rng = Some(Rng::new(*seed));
        }
        s.0.borrow_mut().chunking = c;
        s
    }
    pub fn faulty(data: Vec<u8>, at: usize, persistent: bool) -> Src {
        let s = Src::new(data);
        s.0.borrow_mut().fault_at = Some(at);
        s.0.borrow_mut().persistent = persistent;
        // the kind rotates with the fault point and with the persistence, so that one call site meets several kinds
        s.0.borrow_mut().error_kind = ((at + if persistent { 3 } else { 0 }) % 10) as u8;
        s
    }
    pub fn set_epoch(&self, e: usize) {
        self.0.borrow_mut().epoch = e;
    }
    pub fn n_ops(&self) -> usize {
        self.0.borrow().attempts
    }
    pub fn seeks(&self) -> usize {
        self.0.borrow().ops.iter().filter(|(_, o)| matches!(o, ROp::Seek(_))).count()
    }
    pub fn fault_epoch(&self) -> Option<usize> {
        self.0.borrow().ops.iter().find(|(_, o)| matches!(o, ROp::Failed(_))).map(|(e, _)| *e)
    }
    pub fn fault_kind(&self) -> Option<char> {
        self.0.borrow().ops.iter().find_map(|(_, o)| if let ROp::Failed(k) = o { Some(*k) } else { None })
    }
}

impl SrcState {
    fn should_fail(&mut self) -> bool {
        let idx = self.attempts;
        self.attempts += 1;
        match self.fault_at {
            Some(k) if idx == k => true,
            Some(k) if self.persistent && idx > k => true,
            _ => false,
        }
    }
}

impl Read for Src {
    fn read(&mut self, buf: &mut [u8]) -> io::Result<usize> {
        let mut s = self.0.borrow_mut();
        let e = s.epoch;
        if s.should_fail() {
            s.ops.push((e, ROp::Failed('r')));
            return Err(injected_kind(s.error_kind));
        }
        let p = (s.pos as usize).min(s.data.len());
        let avail = s.data.len() - p;
        let mut n = buf.len().min(avail);
        if n > 0 {
            n = match s.chunking.clone() {
                Chunking::Full => n,
                Chunking::Fixed(c) => n.min(c.max(1)),
                Chunking::Random(_, max) => {
                    let r = s.rng.as_mut().expect("rng").usize_in(1, max.max(1));
                    n.min(r)
                }
            };
        }
        buf[..n].copy_from_slice(&s.data[p..p + n]);
        s.pos += n as u64; // a position past the end stays where it is (like io::Cursor)
        s.ops.push((e, ROp::Read(p as u64, buf.len(), n)));
        Ok(n)
    }
}

impl Seek for Src {
    fn seek(&mut self, p: SeekFrom) -> io::Result<u64> {
        let mut s = self.0.borrow_mut();
        let e = s.epoch;
        if s.should_fail() {
            s.ops.push((e, ROp::Failed('s')));
            return Err(injected_kind(s.error_kind));
        }
        let np = match p {
            SeekFrom::Start(x) => x as i128,
            SeekFrom::End(x) => s.data.len() as i128 + x as i128,
            SeekFrom::Current(x) => s.pos as i128 + x as i128,
        };
        if np < 0 {
            return Err(io::Error::new(io::ErrorKind::InvalidInput, "seek before start"));
        }
        s.pos = np as u64;
        s.ops.push((e, ROp::Seek(np as u64)));
        Ok(s.pos)
    }
}


/// A `Read + Seek` source of `len` bytes that are all zero except for a few segments: lets a
/// workload place records beyond 2^31 bytes without holding gigabytes.
#[derive(Clone)]
pub struct SparseSrc {
    pub len: u64,
    pub segments: Vec<(u64, Vec<u8>)>,
    pub pos: u64,
    pub seeks: usize,
}

impl SparseSrc {
    pub fn new(len: u64, mut segments: Vec<(u64, Vec<u8>)>) -> SparseSrc {
        segments.sort();
        SparseSrc { len, segments, pos: 0, seeks: 0 }
    }
}

impl Read for SparseSrc {
    fn read(&mut self, buf: &mut [u8]) -> io::Result<usize> {
        if self.pos >= self.len || buf.is_empty() {
            return Ok(0);
        }
        let n = (buf.len() as u64).min(self.len - self.pos).min(1 << 16) as usize;
        for b in buf[..n].iter_mut() {
            *b = 0;
        }
        let (lo, hi) = (self.pos, self.pos + n as u64);
        for (off, data) in &self.segments {
            let (s, e) = (*off, *off + data.len() as u64);
            if e <= lo || s >= hi {
                continue;
            }
            let from = s.max(lo);
            let to = e.min(hi);
            buf[(from - lo) as usize..(to - lo) as usize].copy_from_slice(&data[(from - s) as usize..(to - s) as usize]);
        }
        self.pos += n as u64;
        Ok(n)
    }
}

impl Seek for SparseSrc {
    fn seek(&mut self, p: SeekFrom) -> io::Result<u64> {
        let np = match p {
            SeekFrom::Start(x) => x as i128,
            SeekFrom::End(x) => self.len as i128 + x as i128,
            SeekFrom::Current(x) => self.pos as i128 + x as i128,
        };
        if np < 0 {
            return Err(io::Error::new(io::ErrorKind::InvalidInput, "seek before start"));
        }
        self.pos = np as u64;
        self.seeks += 1;
        Ok(self.pos)
    }
}
