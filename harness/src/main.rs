#![allow(dead_code)]
//! svh — the driver that runs the real shapefile-rs library under generated, hostile or
//! exhaustive-within-a-bound workloads while in-process monitors observe it at the public
//! API boundary. One sub-command ("engine") per workload; each writes `<out>/result.json`
//! (and JSONL event logs for the offline monitors) that `/verif/check` turns into a verdict.

mod allocmon;
mod dump;
mod gen;
mod iomon;
mod json;
mod panicmon;
mod rawshp;
mod report;
mod rng;
#[macro_use]
mod shapes;

mod e_c01;
mod e_c05;
mod e_c20;
mod e_decode;
mod e_emit;
mod e_c06;
mod e_c07;
mod e_c08;
mod e_c09;
mod e_c10;
mod e_c11;
mod e_c12;
mod e_c13;
mod e_c15;
mod e_c16;
mod e_c18;
mod e_c19;

#[cfg(not(miri))]
#[global_allocator]
static GLOBAL: allocmon::Counting = allocmon::Counting;

use report::{Ctx, Report};
use std::collections::BTreeMap;

fn usage() -> ! {
    eprintln!("usage: svh <engine> [--tier quick|thorough] [--seed N] [--out DIR] [--case ID] [--threads N] [--opt k=v]...");
    std::process::exit(2)
}

fn main() {
    let args: Vec<String> = std::env::args().collect();
    if args.len() < 2 {
        usage();
    }
    let engine = args[1].clone();
    let mut ctx = Ctx {
        thorough: false,
        seed: 1,
        out: String::from("."),
        only: None,
        threads: std::thread::available_parallelism().map(|n| n.get()).unwrap_or(4),
        opts: BTreeMap::new(),
    };
    let mut i = 2;
    while i < args.len() {
        let val = |i: usize| args.get(i + 1).cloned().unwrap_or_else(|| usage());
        match args[i].as_str() {
            "--tier" => ctx.thorough = val(i) == "thorough",
            "--seed" => ctx.seed = val(i).parse().unwrap_or_else(|_| usage()),
            "--out" => ctx.out = val(i),
            "--case" => ctx.only = Some(val(i)),
            "--threads" => ctx.threads = val(i).parse().unwrap_or_else(|_| usage()),
            "--opt" => {
                let v = val(i);
                let (k, x) = v.split_once('=').unwrap_or_else(|| usage());
                ctx.opts.insert(k.to_string(), x.to_string());
            }
            _ => usage(),
        }
        i += 2;
    }
    if !cfg!(miri) {
        std::fs::create_dir_all(&ctx.out).expect("harness: cannot create output directory");
    }
    panicmon::install();
    let t0 = std::time::Instant::now();
    let mut rep: Report = match engine.as_str() {
        "c01" => e_c01::run(&ctx),
        "c02" => e_emit::run(&ctx, false),
        "c04" => e_emit::run(&ctx, true),
        "c05" => e_c05::run(&ctx),
        "c20" => e_c20::run(&ctx),
        "decode" => e_decode::run(&ctx),
        "c06" => e_c06::run(&ctx),
        "c07worker" => e_c07::worker(&ctx),
        "c08" => e_c08::run(&ctx),
        "c09" => e_c09::run(&ctx),
        "c10" => e_c10::run(&ctx),
        "c11" => e_c11::run(&ctx),
        "c12" => e_c12::run(&ctx),
        "c13" => e_c13::run(&ctx),
        "c15" => e_c15::run(&ctx),
        "c16" => e_c16::run(&ctx),
        "c18" => e_c18::run(&ctx),
        "c19" => e_c19::run(&ctx),
        _ => usage(),
    };
    let wall = t0.elapsed().as_secs_f64();
    let pending = std::mem::take(&mut rep.pending);
    let j = rep.to_json(&engine, &ctx, wall);
    if cfg!(miri) {
        // no file system under isolation: the driver parses stdout
        println!("RESULT {}", j.to_string());
        for p in &pending {
            println!("PENDING {}", p.to_string());
        }
    } else {
        std::fs::write(format!("{}/result.json", ctx.out), j.to_string()).expect("harness: cannot write result.json");
        if !pending.is_empty() {
            let mut s = String::new();
            for p in &pending {
                p.write(&mut s);
                s.push('\n');
            }
            std::fs::write(format!("{}/pending.jsonl", ctx.out), s).expect("harness: cannot write pending.jsonl");
        }
    }
    let _ = std::panic::take_hook();
}
