//! C20 — geo-types conversions preserve coordinates, order and ring nesting; the geo-traits
//! view of every point reports a dimension count whose coordinates can all be read back.

use crate::dump::{Dump, D, V};
use crate::gen::{self, type_name, Cfg, Pool, NO_DATA};
use crate::json::J;
use crate::panicmon;
use crate::report::{par, Ctx, Report};
use crate::rng::{tag, Rng};
use crate::shapes::build_from_parts;
use geo_traits::{CoordTrait, LineStringTrait, MultiLineStringTrait, MultiPointTrait, PointTrait};
use geo_types as g;
use shapefile::*;
use std::convert::TryFrom;

type XY = (u64, u64);

fn xy_of(v: &[V]) -> Vec<XY> {
    v.iter().map(|p| (p[0], p[1])).collect()
}
fn ls_bits(l: &g::LineString<f64>) -> Vec<XY> {
    l.0.iter().map(|c| (c.x.to_bits(), c.y.to_bits())).collect()
}
fn canon(r: &[XY]) -> Vec<XY> {
    let a = r.to_vec();
    let mut b = r.to_vec();
    b.reverse();
    if b < a {
        b
    } else {
        a
    }
}
fn xy_json(v: &[XY]) -> J {
    J::Arr(v.iter().map(|p| J::Arr(vec![J::hex(p.0), J::hex(p.1)])).collect())
}

/// Expected grouping of a shape's rings into polygons: (exterior, holes), computed from the
/// roles the accessors report (polygons) / the patch kinds (multipatch).
fn expected_groups(d: &D) -> Vec<(Vec<XY>, Vec<Vec<XY>>)> {
    let mut out: Vec<(Vec<XY>, Vec<Vec<XY>>)> = vec![];
    for (i, part) in d.parts.iter().enumerate() {
        let opens = if d.ty == 31 { matches!(d.kinds[i], 2 | 4) } else { d.kinds[i] == 0 };
        if opens {
            out.push((xy_of(part), vec![]));
        } else if let Some(last) = out.last_mut() {
            last.1.push(xy_of(part));
        } else {
            // not outer-first: outside the property's quantifier (the generator never does this)
            out.push((vec![], vec![xy_of(part)]));
        }
    }
    out
}

fn groups_of(mp: &g::MultiPolygon<f64>) -> Vec<(Vec<XY>, Vec<Vec<XY>>)> {
    mp.0.iter().map(|p| (ls_bits(p.exterior()), p.interiors().iter().map(ls_bits).collect())).collect()
}

/// A simple ring with non-zero area on the exact pool: a subset (>= 3) of the 8 octagon
/// directions around a centre, counter-clockwise, optionally reversed; closed.
fn star_ring(r: &mut Rng, clockwise: bool) -> Vec<(f64, f64)> {
    let (cx, cy) = (r.below(400) as f64 - 200.0, r.below(400) as f64 - 200.0);
    let dirs = [(4.0, 0.0), (3.0, 3.0), (0.0, 4.0), (-3.0, 3.0), (-4.0, 0.0), (-3.0, -3.0), (0.0, -4.0), (3.0, -3.0)];
    let n = r.usize_in(3, 7);
    let mut idx: Vec<usize> = (0..8).collect();
    while idx.len() > n {
        let k = r.below(idx.len() as u64) as usize;
        idx.remove(k);
    }
    let s = (1 + r.below(5)) as f64 * 0.25;
    let mut v: Vec<(f64, f64)> = idx.iter().map(|&k| (cx + dirs[k].0 * s, cy + dirs[k].1 * s)).collect();
    if clockwise {
        v.reverse();
    }
    let f = v[0];
    v.push(f);
    v
}

fn vertex(x: f64, y: f64, r: &mut Rng, c: &Cfg) -> V {
    [x.to_bits(), y.to_bits(), gen::coord(r, c, true).to_bits(), gen::coord(r, c, true).to_bits()]
}

// ------------------------------------------------------------------------------ shape -> geo (-> shape)

fn shape_to_geo(case: &str, ty: i32, i: usize, ctx: &Ctx, rep: &mut Report) {
    let mut r = Rng::derive(ctx.seed, &[tag("c20-s2g"), ty as u64, i as u64]);
    let zm = Cfg::hostile(0.3, 4, 6);
    let tname = type_name(ty);
    rep.eval();
    rep.class(&format!("shape->geo:{}", tname));
    // ---- build the shape
    let (shape, well_oriented): (Shape, bool) = if gen::is_polygon(ty) || ty == 31 {
        // outer-first groups of an exterior and 0..3 holes; star rings (non-zero exact area)
        // in every second case, arbitrary exact-pool rings otherwise
        let stars = i % 2 == 0;
        let ng = r.usize_in(1, 3);
        let mut input: Vec<(i32, Vec<V>)> = vec![];
        for gi in 0..ng {
            let nh = r.usize_in(0, 3);
            for h in 0..=nh {
                let pts: Vec<(f64, f64)> = if stars {
                    star_ring(&mut r, h == 0)
                } else if h > 0 && i % 4 == 1 {
                    // degenerate holes with zero area whose vertex list is not a palindrome:
                    // a bow-tie, a flat slit, three collinear points
                    let (ox, oy) = (r.below(50) as f64, r.below(50) as f64);
                    let shapes: [&[(f64, f64)]; 3] = [&[(0.0, 0.0), (2.0, 2.0), (2.0, 0.0), (0.0, 2.0)], &[(1.0, 0.0), (1.0, 3.0), (1.0, 1.0), (1.0, 2.0)], &[(0.0, 0.0), (1.0, 1.0), (3.0, 3.0)]];
                    shapes[r.below(3) as usize].iter().map(|p| (p.0 + ox, p.1 + oy)).collect()
                } else {
                    // exact pool or the tiny integer grid (collinear and repeated points are common there)
                    let c = Cfg { pool: if i % 4 == 3 { Pool::Grid } else { Pool::Exact }, ..Cfg::plain(1, 6) };
                    let ml = if i % 10 == 7 { 60 } else { 6 };
                    (0..r.usize_in(1, ml)).map(|_| (gen::coord(&mut r, &c, false), gen::coord(&mut r, &c, false))).collect()
                };
                let kind = if ty == 31 {
                    if h == 0 {
                        // FirstRing or OuterRing opens a group, whichever group it is
                        let _ = gi;
                        if r.chance(0.5) { 4 } else { 2 }
                    } else if r.chance(0.5) {
                        3
                    } else {
                        5
                    }
                } else if h == 0 {
                    0
                } else {
                    1
                };
                input.push((kind, pts.iter().map(|p| vertex(p.0, p.1, &mut r, &zm)).collect()));
            }
        }
        // the way back is defined for every outer-first polygon of the exact pool: rings with a
        // non-zero exact area are kept by every constructor pass, zero-area rings are reversed by
        // an even number of passes (degenerate holes: bow-ties, slits, repeated points included)
        let _ = stars;
        // every 12th case: a vertex-less hole right behind the first exterior (the constructors accept it)
        if i % 12 == 5 {
            input.insert(1, (if ty == 31 { 3 } else { 1 }, vec![]));
            rep.count("shapes_with_a_vertexless_hole", 1);
        }
        (build_from_parts(ty, &input, false), true)
    } else {
        // every third case on the tiny integer grid: consecutive vertices sharing X and Y, repeated
        // points and zero-length segments are the rule there
        // every 10th case: components of up to 120 vertices
        let ml = if i % 10 == 7 { 120 } else { 6 };
        let c = if i % 3 == 1 { Cfg { pool: Pool::Grid, ..Cfg::hostile(0.0, 4, ml) } } else { Cfg::hostile(0.2, 4, ml) };
        (gen::shape(ty, &mut r, &c), true)
    };
    let d = shape.d();
    rep.nontrivial(&format!("s2g:{}:{:?}:{:?}", ty, d.parts.iter().map(|p| p.len()).collect::<Vec<_>>(), d.kinds));
    let detail = |what: String| J::obj(vec![("direction", J::s("shape->geo")), ("shape", d.to_json()), ("what", J::s(what))]);
    let geom = match panicmon::catch(|| g::Geometry::<f64>::try_from(crate::shapes::clone_shape(&shape))) {
        Err(p) => return rep.violation(&format!("shape->geo/{}/panic", tname), case, detail(p.class())),
        Ok(Err(e)) => return rep.violation(&format!("shape->geo/{}/refused", tname), case, detail(e.to_string())),
        Ok(Ok(g)) => g,
    };
    // ---- the typed conversion of the concrete shape (the `From` / `TryFrom` impl a user calls
    //      directly) yields the same geometry as the one through the generic enum
    let typed: Result<Option<g::Geometry<f64>>, crate::panicmon::PanicInfo> = panicmon::catch(|| match crate::shapes::clone_shape(&shape) {
        Shape::Point(p) => Some(g::Geometry::Point(g::Point::<f64>::from(p))),
        Shape::PointM(p) => Some(g::Geometry::Point(g::Point::<f64>::from(p))),
        Shape::PointZ(p) => Some(g::Geometry::Point(g::Point::<f64>::from(p))),
        Shape::Multipoint(p) => Some(g::Geometry::MultiPoint(g::MultiPoint::<f64>::from(p))),
        Shape::MultipointM(p) => Some(g::Geometry::MultiPoint(g::MultiPoint::<f64>::from(p))),
        Shape::MultipointZ(p) => Some(g::Geometry::MultiPoint(g::MultiPoint::<f64>::from(p))),
        Shape::Polyline(p) => Some(g::Geometry::MultiLineString(g::MultiLineString::<f64>::from(p))),
        Shape::PolylineM(p) => Some(g::Geometry::MultiLineString(g::MultiLineString::<f64>::from(p))),
        Shape::PolylineZ(p) => Some(g::Geometry::MultiLineString(g::MultiLineString::<f64>::from(p))),
        Shape::Polygon(p) => Some(g::Geometry::MultiPolygon(g::MultiPolygon::<f64>::from(p))),
        Shape::PolygonM(p) => Some(g::Geometry::MultiPolygon(g::MultiPolygon::<f64>::from(p))),
        Shape::PolygonZ(p) => Some(g::Geometry::MultiPolygon(g::MultiPolygon::<f64>::from(p))),
        Shape::Multipatch(p) => g::MultiPolygon::<f64>::try_from(p).ok().map(g::Geometry::MultiPolygon),
        Shape::NullShape => None,
    });
    match typed {
        Err(p) => return rep.violation(&format!("shape->geo/{}/typed-conversion-panic", tname), case, detail(p.class())),
        Ok(t) => {
            rep.count("typed_conversions_compared_with_the_generic_one", 1);
            let same = match &t {
                Some(tg) => format!("{:?}", tg) == format!("{:?}", geom),
                None => false,
            };
            if !same {
                return rep.violation(&format!("shape->geo/{}/typed-differs-from-generic", tname), case, detail("the typed conversion of the concrete shape differs from Geometry::try_from(Shape)".to_string()));
            }
        }
    }
    // ---- one way: every X/Y pair, its order and its grouping
    let field: Option<&str> = match (&geom, ty) {
        (g::Geometry::Point(p), 1 | 11 | 21) => {
            if (p.x().to_bits(), p.y().to_bits()) == (d.parts[0][0][0], d.parts[0][0][1]) { None } else { Some("xy") }
        }
        (g::Geometry::MultiPoint(mp), 8 | 18 | 28) => {
            let got: Vec<XY> = mp.0.iter().map(|p| (p.x().to_bits(), p.y().to_bits())).collect();
            if got == xy_of(&d.parts[0]) { None } else { Some("points") }
        }
        (g::Geometry::MultiLineString(ml), 3 | 13 | 23) => {
            let got: Vec<Vec<XY>> = ml.0.iter().map(ls_bits).collect();
            let want: Vec<Vec<XY>> = d.parts.iter().map(|p| xy_of(p)).collect();
            if got.len() != want.len() { Some("line-count") } else if got != want { Some("line-coords") } else { None }
        }
        (g::Geometry::MultiPolygon(mp), 5 | 15 | 25 | 31) => {
            let got = groups_of(mp);
            let want = expected_groups(&d);
            if got.len() != want.len() {
                Some("polygon-count")
            } else if got.iter().zip(&want).any(|(a, b)| a.0 != b.0) {
                Some("exterior")
            } else if got.iter().zip(&want).any(|(a, b)| a.1.len() != b.1.len()) {
                Some("hole-grouping")
            } else if got != want {
                Some("hole-coords")
            } else {
                None
            }
        }
        _ => Some("geometry-kind"),
    };
    if let Some(f) = field {
        return rep.violation(&format!("shape->geo/{}/{}", tname, f), case, detail(format!("the {} of the geo-types value differ from the shape's", f)));
    }
    rep.count("shape_to_geo_compared", 1);
    // ---- and back: the original 2-D shape
    if ty == 31 || !well_oriented {
        return;
    }
    let back = match panicmon::catch(|| Shape::try_from(geom)) {
        Err(p) => return rep.violation(&format!("shape->geo->shape/{}/panic", tname), case, detail(p.class())),
        Ok(Err(e)) => return rep.violation(&format!("shape->geo->shape/{}/refused", tname), case, detail(e.to_string())),
        Ok(Ok(s)) => s,
    };
    let b = back.d();
    let want_ty = match ty {
        1 | 11 | 21 => 1,
        8 | 18 | 28 => 8,
        3 | 13 | 23 => 3,
        _ => 5,
    };
    let same_xy = b.parts.len() == d.parts.len() && b.parts.iter().zip(&d.parts).all(|(x, y)| xy_of(x) == xy_of(y));
    let same_roles = want_ty != 5 || b.kinds == d.kinds;
    let same_box = b.bbox.is_empty() || b.bbox[..4] == d.bbox[..4];
    let f = if b.ty != want_ty {
        Some("type")
    } else if !same_xy {
        Some("coords")
    } else if !same_roles {
        Some("roles")
    } else if !same_box {
        Some("box")
    } else {
        None
    };
    rep.count("shape_geo_shape_round_trips", 1);
    if let Some(f) = f {
        rep.violation(&format!("shape->geo->shape/{}/{}", tname, f), case, J::obj(vec![("original", d.to_json()), ("back", b.to_json())]));
    }
}

// ------------------------------------------------------------------------------ geo -> shape -> geo

fn coord_of(r: &mut Rng, c: &Cfg) -> g::Coord<f64> {
    g::Coord { x: gen::coord(r, c, false), y: gen::coord(r, c, false) }
}

fn gen_geo_polygon(r: &mut Rng, star: bool, tiny: bool) -> g::Polygon<f64> {
    let c = Cfg { pool: Pool::Exact, ..Cfg::plain(1, 6) };
    let mut ring = |r: &mut Rng, cw: bool| -> g::LineString<f64> {
        if star {
            g::LineString(star_ring(r, cw).into_iter().map(|p| g::Coord { x: p.0, y: p.1 }).collect())
        } else {
            // >= 3 coordinates (every tenth case: from ONE coordinate on, the smallest non-empty
            // component), arbitrary orientation, may be open (geo-types closes it)
            g::LineString((0..r.usize_in(if tiny { 1 } else { 3 }, if tiny { 3 } else { 7 })).map(|_| coord_of(r, &c)).collect())
        }
    };
    let ext_cw = r.chance(0.5);
    let ext = ring(r, ext_cw);
    let holes: Vec<g::LineString<f64>> = (0..r.usize_in(0, 4)).map(|_| {
        let cw = r.chance(0.5);
        ring(r, cw)
    }).collect();
    g::Polygon::new(ext, holes)
}

fn geo_to_shape(case: &str, variant: usize, i: usize, ctx: &Ctx, rep: &mut Report) {
    let mut r = Rng::derive(ctx.seed, &[tag("c20-g2s"), variant as u64, i as u64]);
    let c = Cfg::hostile(0.15, 4, 6);
    // every third case on the tiny integer grid: consecutive identical coordinates are the rule there
    let c = if i % 3 == 1 { Cfg { pool: Pool::Grid, nan_zm: false, ..Cfg::hostile(0.0, 4, 6) } } else { Cfg { nan_zm: false, ..c } };
    let ml = if i % 10 == 7 { 90 } else { 8 };
    let names = ["Point", "Line", "LineString", "MultiLineString", "Polygon", "MultiPolygon", "MultiPoint"];
    let name = names[variant];
    rep.eval();
    rep.class(&format!("geo->shape->geo:{}", name));
    let geom: g::Geometry<f64> = match variant {
        0 => g::Geometry::Point(g::Point(coord_of(&mut r, &c))),
        1 => g::Geometry::Line(g::Line::new(coord_of(&mut r, &c), coord_of(&mut r, &c))),
        2 => g::Geometry::LineString(g::LineString((0..r.usize_in(2, ml)).map(|_| coord_of(&mut r, &c)).collect())),
        3 => g::Geometry::MultiLineString(g::MultiLineString((0..r.usize_in(1, 4)).map(|_| g::LineString((0..r.usize_in(2, ml)).map(|_| coord_of(&mut r, &c)).collect())).collect())),
        4 => g::Geometry::Polygon(gen_geo_polygon(&mut r, i % 2 == 0, i % 10 == 3)),
        5 => g::Geometry::MultiPolygon(g::MultiPolygon((0..r.usize_in(1, 3)).map(|_| gen_geo_polygon(&mut r, i % 2 == 0, i % 10 == 3)).collect())),
        _ => g::Geometry::MultiPoint(g::MultiPoint((0..r.usize_in(1, ml)).map(|_| g::Point(coord_of(&mut r, &c))).collect())),
    };
    // the model: the corresponding multi-geometry as (groups of) coordinate lists
    #[derive(PartialEq, Debug)]
    enum Model {
        Point(XY),
        Points(Vec<XY>),
        Lines(Vec<Vec<XY>>),
        Polys(Vec<(Vec<XY>, Vec<Vec<XY>>)>),
    }
    let cb = |c: &g::Coord<f64>| (c.x.to_bits(), c.y.to_bits());
    let model_of = |gm: &g::Geometry<f64>, canonical: bool| -> Option<Model> {
        let cn = |v: Vec<XY>| if canonical { canon(&v) } else { v };
        Some(match gm {
            g::Geometry::Point(p) => Model::Point(cb(&p.0)),
            g::Geometry::MultiPoint(mp) => Model::Points(mp.0.iter().map(|p| cb(&p.0)).collect()),
            g::Geometry::Line(l) => Model::Lines(vec![vec![cb(&l.start), cb(&l.end)]]),
            g::Geometry::LineString(l) => Model::Lines(vec![ls_bits(l)]),
            g::Geometry::MultiLineString(ml) => Model::Lines(ml.0.iter().map(ls_bits).collect()),
            g::Geometry::Polygon(p) => Model::Polys(vec![(cn(ls_bits(p.exterior())), p.interiors().iter().map(|h| cn(ls_bits(h))).collect())]),
            g::Geometry::MultiPolygon(mp) => Model::Polys(mp.0.iter().map(|p| (cn(ls_bits(p.exterior())), p.interiors().iter().map(|h| cn(ls_bits(h))).collect())).collect()),
            _ => return None,
        })
    };
    let want = model_of(&geom, true).expect("harness: model");
    rep.nontrivial(&format!("g2s:{}:{:?}", variant, want));
    let input_json = J::s(format!("{:?}", geom));
    // the concrete conversions into the measured and Z types and back (Shape::try_from only
    // ever builds the 2-D types)
    let via_mz = panicmon::catch(|| -> Vec<(&'static str, Option<g::Geometry<f64>>)> {
        match geom.clone() {
            g::Geometry::Point(p) => vec![
                ("PointM", Some(g::Geometry::Point(g::Point::from(PointM::from(p))))),
                ("PointZ", Some(g::Geometry::Point(g::Point::from(PointZ::from(p))))),
            ],
            g::Geometry::MultiPoint(mp) => vec![
                ("MultipointM", Some(g::Geometry::MultiPoint(g::MultiPoint::from(MultipointM::from(mp.clone()))))),
                ("MultipointZ", Some(g::Geometry::MultiPoint(g::MultiPoint::from(MultipointZ::from(mp))))),
            ],
            g::Geometry::Line(l) => vec![
                ("PolylineM", Some(g::Geometry::MultiLineString(g::MultiLineString::from(PolylineM::from(l))))),
                ("PolylineZ", Some(g::Geometry::MultiLineString(g::MultiLineString::from(PolylineZ::from(l))))),
            ],
            g::Geometry::LineString(l) => vec![
                ("PolylineM", Some(g::Geometry::MultiLineString(g::MultiLineString::from(PolylineM::from(l.clone()))))),
                ("PolylineZ", Some(g::Geometry::MultiLineString(g::MultiLineString::from(PolylineZ::from(l))))),
            ],
            g::Geometry::MultiLineString(ml) => vec![
                ("PolylineM", Some(g::Geometry::MultiLineString(g::MultiLineString::from(PolylineM::from(ml.clone()))))),
                ("PolylineZ", Some(g::Geometry::MultiLineString(g::MultiLineString::from(PolylineZ::from(ml))))),
            ],
            g::Geometry::Polygon(p) => vec![
                ("PolygonM", Some(g::Geometry::MultiPolygon(g::MultiPolygon::from(PolygonM::from(p.clone()))))),
                ("PolygonZ", Some(g::Geometry::MultiPolygon(g::MultiPolygon::from(PolygonZ::from(p))))),
            ],
            g::Geometry::MultiPolygon(mp) => vec![
                ("PolygonM", Some(g::Geometry::MultiPolygon(g::MultiPolygon::from(PolygonM::from(mp.clone()))))),
                ("PolygonZ", Some(g::Geometry::MultiPolygon(g::MultiPolygon::from(PolygonZ::from(mp))))),
            ],
            _ => vec![],
        }
    });
    match via_mz {
        Err(p) => rep.violation(&format!("geo->shape(M/Z)->geo/{}/panic", name), case, J::obj(vec![("input", input_json.clone()), ("panic", J::s(p.class()))])),
        Ok(list) => {
            for (target, back) in list {
                rep.count("geo_shapeMZ_geo_round_trips", 1);
                let got = back.as_ref().and_then(|b| model_of(b, true));
                if got.as_ref() != Some(&want) {
                    rep.violation(
                        &format!("geo->shape(M/Z)->geo/{}->{}/coordinates-or-grouping", name, target),
                        case,
                        J::obj(vec![("input", input_json.clone()), ("via", J::s(target)), ("back", J::s(format!("{:?}", back)))]),
                    );
                }
            }
        }
    }
    let res = panicmon::catch(|| Shape::try_from(geom.clone()).and_then(g::Geometry::<f64>::try_from));
    match res {
        Err(p) => rep.violation(&format!("geo->shape->geo/{}/panic", name), case, J::obj(vec![("input", input_json), ("panic", J::s(p.class()))])),
        Ok(Err(e)) => rep.violation(&format!("geo->shape->geo/{}/refused", name), case, J::obj(vec![("input", input_json), ("error", J::s(e))])),
        Ok(Ok(back)) => {
            let got = model_of(&back, true);
            // a single point comes back as a point, everything else as its multi-geometry
            let ok = got.as_ref() == Some(&want);
            rep.count("geo_shape_geo_round_trips", 1);
            if !ok {
                rep.violation(
                    &format!("geo->shape->geo/{}/coordinates-or-grouping", name),
                    case,
                    J::obj(vec![("input", input_json), ("back", J::s(format!("{:?}", back)))]),
                );
            }
        }
    }
}

// ------------------------------------------------------------------------------ refusals

fn refusals(rep: &mut Report, ctx: &Ctx) {
    let pz = |x: f64, y: f64| PointZ::new(x, y, 1.0, 2.0);
    let tri = vec![pz(0.0, 0.0), pz(1.0, 0.0), pz(1.0, 1.0), pz(0.0, 0.0)];
    let shapes: Vec<(&str, Shape)> = vec![
        ("NullShape", Shape::NullShape),
        ("Multipatch(TriangleStrip)", Shape::Multipatch(Multipatch::new(Patch::TriangleStrip(tri.clone())))),
        ("Multipatch(TriangleFan)", Shape::Multipatch(Multipatch::new(Patch::TriangleFan(tri.clone())))),
        ("Multipatch(OuterRing,TriangleStrip)", Shape::Multipatch(Multipatch::with_parts(vec![Patch::OuterRing(tri.clone()), Patch::TriangleStrip(tri.clone())]))),
        ("Multipatch(FirstRing,Ring,TriangleFan)", Shape::Multipatch(Multipatch::with_parts(vec![Patch::FirstRing(tri.clone()), Patch::Ring(tri.clone()), Patch::TriangleFan(tri.clone())]))),
        ("Multipatch(OuterRing,OuterRing,TriangleStrip)", Shape::Multipatch(Multipatch::with_parts(vec![Patch::OuterRing(tri.clone()), Patch::OuterRing(tri.clone()), Patch::TriangleStrip(tri.clone())]))),
        ("Multipatch(OuterRing,InnerRing,OuterRing,InnerRing,TriangleFan)", Shape::Multipatch(Multipatch::with_parts(vec![Patch::OuterRing(tri.clone()), Patch::InnerRing(tri.clone()), Patch::OuterRing(tri.clone()), Patch::InnerRing(tri.clone()), Patch::TriangleFan(tri.clone())]))),
        ("Multipatch(TriangleStrip,OuterRing)", Shape::Multipatch(Multipatch::with_parts(vec![Patch::TriangleStrip(tri.clone()), Patch::OuterRing(tri.clone())]))),
        ("Multipatch(OuterRing,TriangleFan,OuterRing,OuterRing)", Shape::Multipatch(Multipatch::with_parts(vec![Patch::OuterRing(tri.clone()), Patch::TriangleFan(tri.clone()), Patch::OuterRing(tri.clone()), Patch::OuterRing(tri.clone())]))),
    ];
    // strips and fans of every small size, alone and behind a ring: refused whatever they contain
    let mut shapes = shapes;
    let names: Vec<String> = (3..=6usize).flat_map(|n| [format!("Multipatch(TriangleStrip x{})", n), format!("Multipatch(TriangleFan x{})", n), format!("Multipatch(OuterRing,TriangleFan x{})", n)]).collect();
    let mut extra: Vec<Shape> = vec![];
    for n in 3..=6usize {
        let pts: Vec<PointZ> = (0..n).map(|k| pz(k as f64, (k * k) as f64)).collect();
        extra.push(Shape::Multipatch(Multipatch::new(Patch::TriangleStrip(pts.clone()))));
        extra.push(Shape::Multipatch(Multipatch::new(Patch::TriangleFan(pts.clone()))));
        extra.push(Shape::Multipatch(Multipatch::with_parts(vec![Patch::OuterRing(tri.clone()), Patch::TriangleFan(pts)])));
    }
    for (n, s) in names.iter().zip(extra) {
        shapes.push((n.as_str(), s));
    }
    for (name, s) in shapes {
        let case = format!("c20:refusal:{}", name);
        if !ctx.want(&case) {
            continue;
        }
        rep.eval();
        rep.class("refusal");
        rep.nontrivial(&case);
        // the typed conversion a user may call directly refuses it as well
        if let Shape::Multipatch(mp) = &s {
            let mp = mp.clone();
            match panicmon::catch(|| g::MultiPolygon::<f64>::try_from(mp)) {
                Ok(Err(_)) => rep.count("typed_refusals_observed", 1),
                Ok(Ok(gm)) => rep.violation(&format!("refusal/typed/{}", name), &case, J::s(format!("MultiPolygon::try_from(Multipatch) returned {} polygon(s) instead of refusing", gm.0.len()))),
                Err(p) => rep.violation(&format!("refusal/typed/{}/panic", name), &case, J::s(p.class())),
            }
        }
        match panicmon::catch(|| g::Geometry::<f64>::try_from(s)) {
            Ok(Err(_)) => rep.count("refusals_observed", 1),
            Ok(Ok(gm)) => rep.violation(&format!("refusal/{}", name), &case, J::s(format!("converted to {:?} instead of being refused", gm))),
            Err(p) => rep.violation(&format!("refusal/{}/panic", name), &case, J::s(p.class())),
        }
    }
    let c = |x: f64, y: f64| g::Coord { x, y };
    let geoms: Vec<(&str, g::Geometry<f64>)> = vec![
        ("GeometryCollection(empty)", g::Geometry::GeometryCollection(g::GeometryCollection(vec![]))),
        ("GeometryCollection(point)", g::Geometry::GeometryCollection(g::GeometryCollection(vec![g::Geometry::Point(g::Point(c(1.0, 2.0)))]))),
        ("GeometryCollection(polygon)", g::Geometry::GeometryCollection(g::GeometryCollection(vec![g::Geometry::Polygon(g::Polygon::new(g::LineString(vec![c(0.0, 0.0), c(0.0, 1.0), c(1.0, 1.0), c(0.0, 0.0)]), vec![]))]))),
        (
            "GeometryCollection(polygon,polygon)",
            g::Geometry::GeometryCollection(g::GeometryCollection(vec![
                g::Geometry::Polygon(g::Polygon::new(g::LineString(vec![c(0.0, 0.0), c(0.0, 1.0), c(1.0, 1.0), c(0.0, 0.0)]), vec![])),
                g::Geometry::Polygon(g::Polygon::new(g::LineString(vec![c(5.0, 5.0), c(5.0, 6.0), c(6.0, 6.0), c(5.0, 5.0)]), vec![])),
            ])),
        ),
        ("GeometryCollection(linestring)", g::Geometry::GeometryCollection(g::GeometryCollection(vec![g::Geometry::LineString(g::LineString(vec![c(0.0, 0.0), c(1.0, 1.0)]))]))),
        ("GeometryCollection(multipoint,multipoint)", g::Geometry::GeometryCollection(g::GeometryCollection(vec![g::Geometry::MultiPoint(g::MultiPoint(vec![g::Point(c(1.0, 2.0))])), g::Geometry::MultiPoint(g::MultiPoint(vec![g::Point(c(3.0, 4.0))]))]))),
        ("GeometryCollection(GeometryCollection(point))", g::Geometry::GeometryCollection(g::GeometryCollection(vec![g::Geometry::GeometryCollection(g::GeometryCollection(vec![g::Geometry::Point(g::Point(c(1.0, 2.0)))]))]))),
        ("Rect", g::Geometry::Rect(g::Rect::new(c(0.0, 0.0), c(1.0, 1.0)))),
        ("Triangle", g::Geometry::Triangle(g::Triangle::new(c(0.0, 0.0), c(1.0, 1.0), c(1.0, 0.0)))),
    ];
    for (name, gm) in geoms {
        let case = format!("c20:refusal:{}", name);
        if !ctx.want(&case) {
            continue;
        }
        rep.eval();
        rep.class("refusal");
        rep.nontrivial(&case);
        match panicmon::catch(|| Shape::try_from(gm)) {
            Ok(Err(_)) => rep.count("refusals_observed", 1),
            Ok(Ok(s)) => rep.violation(&format!("refusal/{}", name), &case, J::s(format!("converted to a shape of type {} instead of being refused", type_name(s.d().ty)))),
            Err(p) => rep.violation(&format!("refusal/{}/panic", name), &case, J::s(p.class())),
        }
    }
}

// ------------------------------------------------------------------------------ geo-traits view

/// Cleared when the probe process (see `run`) died inside the `*_unchecked` accessors: the
/// in-process workload then leaves them alone instead of dying with them.
static UNCHECKED_OK: std::sync::atomic::AtomicBool = std::sync::atomic::AtomicBool::new(true);

fn unchecked_ok() -> bool {
    UNCHECKED_OK.load(std::sync::atomic::Ordering::Relaxed)
}

fn m_class(m: f64) -> &'static str {
    if m.is_nan() {
        "NaN"
    } else if m == NO_DATA {
        "NO_DATA"
    } else if m < NO_DATA {
        "below-NO_DATA"
    } else if m.is_infinite() {
        "inf"
    } else {
        "real"
    }
}

/// For a coordinate seen through CoordTrait: every index below dim().size() must be readable
/// through nth / nth_or_panic / nth_unchecked and return the matching field.
fn check_coord<C: CoordTrait<T = f64>>(c: &C, fields: [f64; 4], what: &str, point_type: &str, case: &str, rep: &mut Report) {
    let dim = c.dim();
    let expected: Vec<f64> = match dim {
        geo_traits::Dimensions::Xy => vec![fields[0], fields[1]],
        geo_traits::Dimensions::Xyz => vec![fields[0], fields[1], fields[2]],
        geo_traits::Dimensions::Xym => vec![fields[0], fields[1], fields[3]],
        geo_traits::Dimensions::Xyzm => vec![fields[0], fields[1], fields[2], fields[3]],
        geo_traits::Dimensions::Unknown(n) => fields[..n.min(4)].to_vec(),
    };
    let mc = m_class(fields[3]);
    rep.count("coordinates_viewed_through_geo_traits", 1);
    for (i, e) in expected.iter().enumerate() {
        rep.count("trait_indices_read", 1);
        let got = panicmon::catch(|| {
            let a = c.nth(i);
            let b = c.nth_or_panic(i);
            // SAFETY: i < dim().size(), which is the contract of nth_unchecked
            let u = if unchecked_ok() { unsafe { c.nth_unchecked(i) } } else { b };
            (a, b, u)
        });
        let sig = format!("traits/{}/{}/nth({})", point_type, mc, i);
        let detail = |w: String| J::obj(vec![("via", J::s(what)), ("x", J::hex(fields[0].to_bits())), ("y", J::hex(fields[1].to_bits())), ("z", J::hex(fields[2].to_bits())), ("m", J::hex(fields[3].to_bits())), ("dim", J::s(format!("{:?}", dim))), ("what", J::s(w))]);
        match got {
            Err(p) => rep.violation(&sig, case, detail(format!("index {} is below the reported dimension count {} but reading it panicked: {}", i, expected.len(), p.msg))),
            Ok((a, b, u)) => {
                if a.map(|v| v.to_bits()) != Some(e.to_bits()) || b.to_bits() != e.to_bits() || u.to_bits() != e.to_bits() {
                    rep.violation(&sig, case, detail(format!("index {} returned {:?}/{}/{} instead of the matching field {}", i, a, b, u, e)));
                }
            }
        }
    }
    if (c.x().to_bits(), c.y().to_bits()) != (fields[0].to_bits(), fields[1].to_bits()) {
        rep.violation(&format!("traits/{}/{}/x_y", point_type, mc), case, J::s("x()/y() differ from the fields"));
    }
}

fn traits_view(case: &str, i: usize, ctx: &Ctx, rep: &mut Report) {
    let mut r = Rng::derive(ctx.seed, &[tag("c20-traits"), i as u64]);
    let ms = [1.5, 0.0, NO_DATA, gen::prev(NO_DATA), gen::next(NO_DATA), -1e39, f64::NAN, -f64::NAN, f64::INFINITY, f64::NEG_INFINITY, f64::MIN, f64::MAX];
    let m = if i < ms.len() { ms[i] } else { gen::coord(&mut r, &Cfg::hostile(0.6, 1, 1), true) };
    let c = Cfg::hostile(0.2, 1, 1);
    let (x, y, z) = (gen::coord(&mut r, &c, false), gen::coord(&mut r, &c, false), gen::coord(&mut r, &c, true));
    rep.eval();
    rep.class(&format!("geo-traits view, m {}", m_class(m)));
    rep.nontrivial(&format!("traits:{:016x}:{:016x}", m.to_bits(), z.to_bits()));
    let p2 = Point::new(x, y);
    let pm = PointM::new(x, y, m);
    let pz = PointZ::new(x, y, z, m);
    // directly, by value and by reference, as coordinate and as point
    check_coord(&p2, [x, y, 0.0, 0.0], "Point as CoordTrait", "Point", case, rep);
    check_coord(&&p2, [x, y, 0.0, 0.0], "&Point as CoordTrait", "Point", case, rep);
    check_coord(&pm, [x, y, 0.0, m], "PointM as CoordTrait", "PointM", case, rep);
    check_coord(&&pm, [x, y, 0.0, m], "&PointM as CoordTrait", "PointM", case, rep);
    check_coord(&pz, [x, y, z, m], "PointZ as CoordTrait", "PointZ", case, rep);
    check_coord(&&pz, [x, y, z, m], "&PointZ as CoordTrait", "PointZ", case, rep);
    match PointTrait::coord(&pm) {
        Some(c) => check_coord(&c, [x, y, 0.0, m], "PointTrait::coord(PointM)", "PointM", case, rep),
        None => rep.violation(&format!("traits/{}/coord-is-None", "PointM"), case, J::s(format!("{}: PointTrait::coord() returned None, so none of the reported dimensions can be read back", "PointTrait::coord(PointM)"))),
    }
    match PointTrait::coord(&pz) {
        Some(c) => check_coord(&c, [x, y, z, m], "PointTrait::coord(PointZ)", "PointZ", case, rep),
        None => rep.violation(&format!("traits/{}/coord-is-None", "PointZ"), case, J::s(format!("{}: PointTrait::coord() returned None, so none of the reported dimensions can be read back", "PointTrait::coord(PointZ)"))),
    }
    match PointTrait::coord(&p2) {
        Some(c) => check_coord(&c, [x, y, 0.0, 0.0], "PointTrait::coord(Point)", "Point", case, rep),
        None => rep.violation(&format!("traits/{}/coord-is-None", "Point"), case, J::s(format!("{}: PointTrait::coord() returned None, so none of the reported dimensions can be read back", "PointTrait::coord(Point)"))),
    }
    match PointTrait::coord(&&p2) {
        Some(c) => check_coord(&c, [x, y, 0.0, 0.0], "PointTrait::coord(&Point)", "Point", case, rep),
        None => rep.violation(&format!("traits/{}/coord-is-None", "Point"), case, J::s(format!("{}: PointTrait::coord() returned None, so none of the reported dimensions can be read back", "PointTrait::coord(&Point)"))),
    }
    match PointTrait::coord(&&pm) {
        Some(c) => check_coord(&c, [x, y, 0.0, m], "PointTrait::coord(&PointM)", "PointM", case, rep),
        None => rep.violation(&format!("traits/{}/coord-is-None", "PointM"), case, J::s(format!("{}: PointTrait::coord() returned None, so none of the reported dimensions can be read back", "PointTrait::coord(&PointM)"))),
    }
    match PointTrait::coord(&&pz) {
        Some(c) => check_coord(&c, [x, y, z, m], "PointTrait::coord(&PointZ)", "PointZ", case, rep),
        None => rep.violation(&format!("traits/{}/coord-is-None", "PointZ"), case, J::s(format!("{}: PointTrait::coord() returned None, so none of the reported dimensions can be read back", "PointTrait::coord(&PointZ)"))),
    }
    // the dimension count a POINT reports (PointTrait::dim): every index below it can be read
    // from the point's coordinate and is the matching field
    macro_rules! point_dim {
        ($p:expr, $fields:expr, $name:expr) => {{
            let p = $p;
            let fields: [f64; 4] = $fields;
            let dim = PointTrait::dim(p);
            let expected: Vec<f64> = match dim {
                geo_traits::Dimensions::Xy => vec![fields[0], fields[1]],
                geo_traits::Dimensions::Xyz => vec![fields[0], fields[1], fields[2]],
                geo_traits::Dimensions::Xym => vec![fields[0], fields[1], fields[3]],
                geo_traits::Dimensions::Xyzm => vec![fields[0], fields[1], fields[2], fields[3]],
                geo_traits::Dimensions::Unknown(n) => fields[..n.min(4)].to_vec(),
            };
            rep.count("point_level_dimension_reports_checked", 1);
            if let Some(c) = PointTrait::coord(p) {
                for (k, e) in expected.iter().enumerate() {
                    let got = panicmon::catch(|| c.nth_or_panic(k));
                    let ok = matches!(&got, Ok(v) if v.to_bits() == e.to_bits());
                    if !ok {
                        rep.violation(
                            &format!("traits/{}/{}/point-dim/nth({})", $name, m_class(fields[3]), k),
                            case,
                            J::obj(vec![("point_dim", J::s(format!("{:?}", dim))), ("m", J::hex(fields[3].to_bits())), ("what", J::s(match got { Ok(v) => format!("returned {} instead of {}", v, e), Err(p) => format!("panicked: {}", p.msg) }))]),
                        );
                    }
                }
            }
        }};
    }
    point_dim!(&p2, [x, y, 0.0, 0.0], "Point");
    point_dim!(&&p2, [x, y, 0.0, 0.0], "Point");
    point_dim!(&pm, [x, y, 0.0, m], "PointM");
    point_dim!(&&pm, [x, y, 0.0, m], "PointM");
    point_dim!(&pz, [x, y, z, m], "PointZ");
    point_dim!(&&pz, [x, y, z, m], "PointZ");
    // through the multipoint and polyline views
    let other = PointZ::new(y, x, m, z);
    let mpz = MultipointZ::new(vec![other, pz]);
    if let Some(p) = MultiPointTrait::point(&mpz, 1) {
        match PointTrait::coord(&p) {
            Some(c) => check_coord(&c, [x, y, z, m], "MultipointZ.point(1).coord()", "PointZ", case, rep),
            None => rep.violation(&format!("traits/{}/coord-is-None", "PointZ"), case, J::s(format!("{}: PointTrait::coord() returned None, so none of the reported dimensions can be read back", "MultipointZ.point(1).coord()"))),
        }
    }
    let mpm = MultipointM::new(vec![pm, PointM::new(y, x, 2.0)]);
    if let Some(p) = MultiPointTrait::point(&mpm, 0) {
        match PointTrait::coord(&p) {
            Some(c) => check_coord(&c, [x, y, 0.0, m], "MultipointM.point(0).coord()", "PointM", case, rep),
            None => rep.violation(&format!("traits/{}/coord-is-None", "PointM"), case, J::s(format!("{}: PointTrait::coord() returned None, so none of the reported dimensions can be read back", "MultipointM.point(0).coord()"))),
        }
    }
    let mp2 = Multipoint::new(vec![Point::new(y, x), p2]);
    if !unchecked_ok() {
        // the probe process died in an unchecked accessor (reported by `run`)
    } else if MultiPointTrait::num_points(&mp2) == 2 {
        // SAFETY: 1 < num_points()
        let p = unsafe { MultiPointTrait::point_unchecked(&mp2, 1) };
        match PointTrait::coord(&p) {
            Some(c) => check_coord(&c, [x, y, 0.0, 0.0], "Multipoint.point_unchecked(1).coord()", "Point", case, rep),
            None => rep.violation(&format!("traits/{}/coord-is-None", "Point"), case, J::s(format!("{}: PointTrait::coord() returned None, so none of the reported dimensions can be read back", "Multipoint.point_unchecked(1).coord()"))),
        }
    } else {
        rep.violation("traits/Multipoint/num_points", case, J::s("num_points() differs from the number of points"));
    }
    if !unchecked_ok() {
    } else if MultiPointTrait::num_points(&mpz) == 2 && MultiPointTrait::num_points(&mpm) == 2 {
        // SAFETY: indices below num_points()
        let p = unsafe { MultiPointTrait::point_unchecked(&mpz, 1) };
        match PointTrait::coord(&p) {
            Some(c) => check_coord(&c, [x, y, z, m], "MultipointZ.point_unchecked(1).coord()", "PointZ", case, rep),
            None => rep.violation(&format!("traits/{}/coord-is-None", "PointZ"), case, J::s(format!("{}: PointTrait::coord() returned None, so none of the reported dimensions can be read back", "MultipointZ.point_unchecked(1).coord()"))),
        }
        let p = unsafe { MultiPointTrait::point_unchecked(&mpm, 0) };
        match PointTrait::coord(&p) {
            Some(c) => check_coord(&c, [x, y, 0.0, m], "MultipointM.point_unchecked(0).coord()", "PointM", case, rep),
            None => rep.violation(&format!("traits/{}/coord-is-None", "PointM"), case, J::s(format!("{}: PointTrait::coord() returned None, so none of the reported dimensions can be read back", "MultipointM.point_unchecked(0).coord()"))),
        }
    } else {
        rep.violation("traits/MultipointZ/num_points", case, J::s("num_points() differs from the number of points"));
    }
    let plz = PolylineZ::with_parts(vec![vec![other, pz], vec![pz, other, pz]]);
    for li in 0..MultiLineStringTrait::num_line_strings(&plz) {
        if let Some(ls) = MultiLineStringTrait::line_string(&plz, li) {
            for ci in 0..ls.num_coords() {
                if let Some(c) = ls.coord(ci) {
                    let want = if (li, ci) == (0, 0) || (li, ci) == (1, 1) { [y, x, m, z] } else { [x, y, z, m] };
                    check_coord(&c, want, "PolylineZ.line_string(i).coord(j)", "PointZ", case, rep);
                }
                if unchecked_ok() {
                    // SAFETY: ci < num_coords()
                    let c = unsafe { ls.coord_unchecked(ci) };
                    let want = if (li, ci) == (0, 0) || (li, ci) == (1, 1) { [y, x, m, z] } else { [x, y, z, m] };
                    check_coord(&c, want, "PolylineZ.line_string(i).coord_unchecked(j)", "PointZ", case, rep);
                }
            }
        }
    }
    // every index of every line string / multi point view (2-D and M flavours as well)
    let plm = PolylineM::with_parts(vec![vec![pm, PointM::new(y, x, 3.0), PointM::new(x + 1.0, y, 4.0)], vec![PointM::new(y, x, 5.0), pm]]);
    let want_m = [vec![[x, y, 0.0, m], [y, x, 0.0, 3.0], [x + 1.0, y, 0.0, 4.0]], vec![[y, x, 0.0, 5.0], [x, y, 0.0, m]]];
    if MultiLineStringTrait::num_line_strings(&plm) != 2 {
        rep.violation("traits/PolylineM/num_line_strings", case, J::s("num_line_strings() differs from the number of parts"));
    }
    for (li, want) in want_m.iter().enumerate() {
        match MultiLineStringTrait::line_string(&plm, li) {
            None => rep.violation("traits/PolylineM/line_string-is-None", case, J::UInt(li as u64)),
            Some(ls) => {
                if ls.num_coords() != want.len() {
                    rep.violation("traits/PolylineM/num_coords", case, J::UInt(li as u64));
                }
                for (ci, w) in want.iter().enumerate() {
                    match ls.coord(ci) {
                        Some(c) => check_coord(&c, *w, "PolylineM.line_string(i).coord(j)", "PointM", case, rep),
                        None => rep.violation("traits/PolylineM/coord-is-None", case, J::UInt(ci as u64)),
                    }
                }
            }
        }
    }
    let pl = Polyline::with_parts(vec![vec![p2, Point::new(y, x), Point::new(x + 1.0, y)], vec![Point::new(y, x + 2.0), p2]]);
    let want_2 = [vec![[x, y, 0.0, 0.0], [y, x, 0.0, 0.0], [x + 1.0, y, 0.0, 0.0]], vec![[y, x + 2.0, 0.0, 0.0], [x, y, 0.0, 0.0]]];
    for (li, want) in want_2.iter().enumerate() {
        match MultiLineStringTrait::line_string(&pl, li) {
            None => rep.violation("traits/Polyline/line_string-is-None", case, J::UInt(li as u64)),
            Some(ls) => {
                if ls.num_coords() != want.len() {
                    rep.violation("traits/Polyline/num_coords", case, J::UInt(li as u64));
                }
                for (ci, w) in want.iter().enumerate() {
                    match ls.coord(ci) {
                        Some(c) => check_coord(&c, *w, "Polyline.line_string(i).coord(j)", "Point", case, rep),
                        None => rep.violation("traits/Polyline/coord-is-None", case, J::UInt(ci as u64)),
                    }
                }
            }
        }
    }
    for (pi, w) in [[y, x, 0.0, 0.0], [x, y, 0.0, 0.0]].iter().enumerate() {
        match MultiPointTrait::point(&mp2, pi).and_then(|p| PointTrait::coord(&p).map(|c| (c.x(), c.y()))) {
            Some((gx, gy)) if gx.to_bits() == w[0].to_bits() && gy.to_bits() == w[1].to_bits() => {}
            _ => rep.violation("traits/Multipoint/point(i)", case, J::UInt(pi as u64)),
        }
    }
    for (pi, w) in [[x, y, 0.0, m], [y, x, 0.0, 2.0]].iter().enumerate() {
        match MultiPointTrait::point(&mpm, pi).and_then(|p| PointTrait::coord(&p).map(|c| (c.x(), c.y(), c.nth(2)))) {
            Some((gx, gy, _)) if gx.to_bits() == w[0].to_bits() && gy.to_bits() == w[1].to_bits() => {}
            _ => rep.violation("traits/MultipointM/point(i)", case, J::UInt(pi as u64)),
        }
    }
}

pub fn run(ctx: &Ctx) -> Report {
    let n = if cfg!(miri) { ctx.opt_u64("n", 3) as usize } else { ctx.pick(3_000, 100_000) };
    let shape_types = [1, 21, 11, 8, 28, 18, 3, 23, 13, 5, 25, 15, 31];
    // work items: 13 shape types + 7 geo variants + traits, n each
    let lanes = shape_types.len() + 7 + 1;
    // ---- probe process: the `*_unchecked` accessors are `unsafe fn`s; if one of them is wrong for
    //      an index inside its contract the process does not unwind, it dies (or worse). So the
    //      first traits cases run in a child process first; if that child does not come back
    //      clean, this is reported as a violation here and the in-process workload skips them.
    if ctx.opt("unchecked_probe").is_some() {
        let mut rep = Report::default();
        for i in 0..40 {
            let _ = panicmon::catch(|| traits_view(&format!("c20:traits:i{}", i), i, ctx, &mut rep));
        }
        return rep;
    }
    let mut probe: Option<(String, String)> = None;
    if !cfg!(miri) && ctx.only.as_ref().map(|o| o.starts_with("c20:traits:")).unwrap_or(true) {
        let child = std::env::current_exe().ok().and_then(|exe| {
            std::process::Command::new(exe)
                .args(["c20", "--tier", "quick", "--seed", &ctx.seed.to_string(), "--out", &format!("{}/probe", ctx.out), "--threads", "1", "--opt", "unchecked_probe=1"])
                .output()
                .ok()
        });
        match child {
            Some(o) if o.status.success() => {}
            Some(o) => {
                UNCHECKED_OK.store(false, std::sync::atomic::Ordering::Relaxed);
                let err = String::from_utf8_lossy(&o.stderr);
                let tail: String = err.lines().rev().take(6).collect::<Vec<_>>().into_iter().rev().collect::<Vec<_>>().join(" | ");
                probe = Some((format!("{:?}", o.status), tail));
            }
            None => {}
        }
        let _ = std::fs::remove_dir_all(format!("{}/probe", ctx.out));
    }
    let mut rep = par(ctx, lanes * n, |idx, rep| {
        let (lane, i) = (idx / n, idx % n);
        if lane < shape_types.len() {
            let case = format!("c20:s2g:t{}:i{}", shape_types[lane], i);
            if ctx.want(&case) {
                shape_to_geo(&case, shape_types[lane], i, ctx, rep);
            }
        } else if lane < shape_types.len() + 7 {
            let v = lane - shape_types.len();
            let case = format!("c20:g2s:v{}:i{}", v, i);
            if ctx.want(&case) {
                geo_to_shape(&case, v, i, ctx, rep);
            }
        } else {
            let case = format!("c20:traits:i{}", i);
            if ctx.want(&case) {
                // any panic that escapes the per-index monitors is still "reading a coordinate panicked"
                if let Err(p) = panicmon::catch(|| traits_view(&case, i, ctx, rep)) {
                    rep.violation("traits/panic-while-viewing-a-shape", &case, J::obj(vec![("panic", J::s(p.class())), ("message", J::s(p.msg.clone()))]));
                }
            }
        }
        if idx % 997 == 0 {
            rep.sample(|| J::obj(vec![("lane", J::s(if lane < 13 { "shape->geo(->shape)" } else if lane < 20 { "geo->shape->geo" } else { "geo-traits view" })), ("index", J::UInt(i as u64))]));
        }
    });
    if let Some((status, tail)) = probe {
        rep.eval();
        rep.violation(
            "traits/unchecked-accessors/process-died",
            "c20:traits:i0",
            J::obj(vec![
                ("what", J::s("a process that only views points through the geo-traits accessors (nth / nth_or_panic / nth_unchecked, point_unchecked, coord_unchecked, every index inside its contract) did not come back: a wrong unsafe accessor does not unwind")),
                ("exit_status", J::s(status)),
                ("stderr_tail", J::s(tail)),
            ]),
        );
    } else if !cfg!(miri) {
        rep.count("probe_process_runs_of_the_unchecked_accessors", 1);
    }
    refusals(&mut rep, ctx);
    if ctx.only.is_none() {
        for (k, req) in [("shape_to_geo_compared", 13 * n as u64 / 2), ("shape_geo_shape_round_trips", n as u64), ("geo_shape_geo_round_trips", n as u64), ("trait_indices_read", n as u64), ("refusals_observed", 30)] {
            let v = rep.counters.get(k).copied().unwrap_or(0);
            rep.guard(k, v, req);
        }
    }
    rep
}
