//! C06 — typed reads agree with generic reads; shape type identity is consistent.
//!
//! The full (S, T) matrix — S over the 13 concrete types, T over the 14 record types — is
//! enumerated in both tiers; the harness's own table (variant <-> concrete type <-> code) is
//! hard-coded here and in `for_type!`.

use crate::dump::{variant_code, Dump, D};
use crate::gen::{self, type_name, Cfg, ALL_CODES, TYPES};
use crate::json::J;
use crate::panicmon;
use crate::report::{Ctx, Report};
use crate::rng::{tag, Rng};
use crate::shapes::{err_class, write_all_mem};
use shapefile::*;
use std::convert::TryFrom;
use std::io::Cursor;

/// A .shp/.shx pair holding `n` NullShape records (the writer cannot produce these).
fn null_file(n: usize) -> (Vec<u8>, Vec<u8>) {
    let mut hdr = vec![0u8; 100];
    hdr[0..4].copy_from_slice(&9994i32.to_be_bytes());
    hdr[28..32].copy_from_slice(&1000i32.to_le_bytes());
    let mut shp = hdr.clone();
    let mut shx = hdr;
    for i in 0..n {
        let off = (shp.len() / 2) as i32;
        shp.extend_from_slice(&((i + 1) as i32).to_be_bytes());
        shp.extend_from_slice(&2i32.to_be_bytes());
        shp.extend_from_slice(&0i32.to_le_bytes());
        shx.extend_from_slice(&off.to_be_bytes());
        shx.extend_from_slice(&2i32.to_be_bytes());
    }
    let w = (shp.len() / 2) as i32;
    shp[24..28].copy_from_slice(&w.to_be_bytes());
    let w = (shx.len() / 2) as i32;
    shx[24..28].copy_from_slice(&w.to_be_bytes());
    (shp, shx)
}

#[derive(Debug, PartialEq)]
enum Out {
    Ok(Vec<D>),
    Mismatch(i32, i32),
    Other(String),
    Panic(String),
}

fn classify<T: Dump>(r: Result<Result<Vec<T>, Error>, panicmon::PanicInfo>) -> Out {
    match r {
        Err(p) => Out::Panic(p.class()),
        Ok(Ok(v)) => Out::Ok(v.iter().map(|s| s.d()).collect()),
        Ok(Err(Error::MismatchShapeType { requested, actual })) => Out::Mismatch(requested as i32, actual as i32),
        Ok(Err(e)) => Out::Other(err_class(&e)),
    }
}

fn out_json(o: &Out) -> J {
    match o {
        Out::Ok(v) => J::obj(vec![("ok_count", J::UInt(v.len() as u64))]),
        Out::Mismatch(r, a) => J::obj(vec![("mismatch_requested", J::s(type_name(*r))), ("mismatch_actual", J::s(type_name(*a)))]),
        Out::Other(e) => J::obj(vec![("error", J::s(e.clone()))]),
        Out::Panic(p) => J::obj(vec![("panic", J::s(p.clone()))]),
    }
}

fn want_mismatch_clone(o: &Out) -> Out {
    match o {
        Out::Mismatch(a, b) => Out::Mismatch(*a, *b),
        Out::Ok(v) => Out::Ok(v.clone()),
        Out::Other(e) => Out::Other(e.clone()),
        Out::Panic(e) => Out::Panic(e.clone()),
    }
}

/// A valid .dbf with n rows for the complete reader.
fn dbf_with_rows(n: usize) -> Vec<u8> {
    let dest = crate::iomon::Dest::new();
    {
        let mut w = crate::e_c10::table_builder().build_with_dest(dest.clone());
        for i in 0..n {
            w.write_record(&crate::e_c08::good_row(i)).expect("harness: dbf row");
        }
    }
    dest.data()
}

struct TestFile {
    t: i32,
    shp: Vec<u8>,
    shx: Vec<u8>,
    n: usize,
    path: Option<String>,
}

fn cell<S>(s_code: i32, f: &TestFile, fi: usize, rep: &mut Report, ctx: &Ctx)
where
    S: ReadableShape + HasShapeType + Dump + TryFrom<Shape, Error = Error>,
{
    let t = f.t;
    let expect_ok = s_code == t;
    let mk = || ShapeReader::new(Cursor::new(f.shp.clone()));
    let mkx = || ShapeReader::with_shx(Cursor::new(f.shp.clone()), Cursor::new(f.shx.clone()));

    // reference: generic read, then bulk conversion
    let conv = classify(panicmon::catch(|| mk().and_then(|r| r.read()).and_then(convert_shapes_to_vec_of::<S>)));

    let mut apis: Vec<(&str, Out)> = vec![];
    apis.push(("read_as", classify(panicmon::catch(|| mk().and_then(|r| r.read_as::<S>())))));
    apis.push(("iter_shapes_as", classify(panicmon::catch(|| mk().and_then(|mut r| r.iter_shapes_as::<S>().collect::<Result<Vec<S>, Error>>())))));
    if !f.shx.is_empty() {
    apis.push(("iter_shapes_as+shx", classify(panicmon::catch(|| mkx().and_then(|mut r| r.iter_shapes_as::<S>().collect::<Result<Vec<S>, Error>>())))));
    apis.push((
        "read_nth_shape_as",
        classify(panicmon::catch(|| {
            mkx().and_then(|mut r| {
                let mut v = vec![];
                for i in 0..f.n {
                    match r.read_nth_shape_as::<S>(i) {
                        Some(x) => v.push(x?),
                        None => return Err(Error::MissingIndexFile), // reported as Other
                    }
                }
                Ok(v)
            })
        })),
    ));
    }
    if let Some(p) = &f.path {
        apis.push(("read_shapes_as(path)", classify(panicmon::catch(|| shapefile::read_shapes_as::<_, S>(p)))));
        // the complete one-liner (a table of n rows sits next to the file)
        apis.push(("shapefile::read_as(path)", classify(panicmon::catch(|| shapefile::read_as::<_, S, shapefile::dbase::Record>(p).map(|v| v.into_iter().map(|(s, _)| s).collect::<Vec<S>>())))));
        apis.push(("Reader::from_path.read_as", classify(panicmon::catch(|| Reader::from_path(p).and_then(|mut r| r.read_as::<S, shapefile::dbase::Record>()).map(|v| v.into_iter().map(|(s, _)| s).collect::<Vec<S>>())))));
    }
    // the complete reader's typed routes (a table of n rows next to the shapes)
    if !f.shx.is_empty() && !cfg!(miri) {
        let dbf = dbf_with_rows(f.n);
        let mkr = || -> Result<Reader<Cursor<Vec<u8>>, Cursor<Vec<u8>>>, Error> { Ok(Reader::new(ShapeReader::with_shx(Cursor::new(f.shp.clone()), Cursor::new(f.shx.clone()))?, shapefile::dbase::Reader::new(Cursor::new(dbf.clone()))?)) };
        apis.push(("Reader::read_as", classify(panicmon::catch(|| mkr().and_then(|mut r| r.read_as::<S, shapefile::dbase::Record>()).map(|v| v.into_iter().map(|(s, _)| s).collect::<Vec<S>>())))));
        apis.push((
            "Reader::iter_shapes_and_records_as",
            classify(panicmon::catch(|| mkr().and_then(|mut r| r.iter_shapes_and_records_as::<S, shapefile::dbase::Record>().collect::<Result<Vec<_>, Error>>()).map(|v| v.into_iter().map(|(s, _)| s).collect::<Vec<S>>()))),
        ));
    }

    for (api, got) in apis {
        let case = format!("c06:S{}:T{}:f{}:{}", s_code, t, fi, api);
        if !ctx.want(&case) {
            continue;
        }
        rep.eval();
        rep.class(if expect_ok { "S==T" } else { "S!=T" });
        rep.nontrivial(&format!("S{}:T{}:{}", s_code, t, api));
        let want_mismatch = Out::Mismatch(s_code, t);
        let bad_field = if expect_ok {
            match (&got, &conv) {
                (Out::Ok(a), Out::Ok(b)) if a == b && a.len() == f.n => None,
                (Out::Ok(_), Out::Ok(_)) => Some("value"),
                _ => Some("result"),
            }
        } else if f.n == 0 {
            // nothing to mismatch on: both must be empty successes
            match (&got, &conv) {
                (Out::Ok(a), Out::Ok(b)) if a.is_empty() && b.is_empty() => None,
                _ => Some("result"),
            }
        } else if got != want_mismatch {
            Some(if matches!(got, Out::Mismatch(..)) { "error-fields" } else { "result" })
        } else if conv != want_mismatch {
            Some("convert-error-fields")
        } else {
            None
        };
        if let Some(field) = bad_field {
            let sig = format!("({},{})/{}/{}", type_name(s_code), type_name(t), api.split('+').next().unwrap().split('(').next().unwrap(), field);
            rep.violation(
                &sig,
                &case,
                J::obj(vec![
                    ("requested_S", J::s(type_name(s_code))),
                    ("record_type_T", J::s(type_name(t))),
                    ("typed", out_json(&got)),
                    ("generic_then_convert", out_json(&conv)),
                    ("shp_hex", J::bytes_hex(&f.shp)),
                ]),
            );
        }
    }
    if <S as HasShapeType>::shapetype() as i32 != s_code {
        rep.violation(&format!("HasShapeType({})", type_name(s_code)), &format!("c06:hasshapetype:{}", s_code), J::Null);
    }
}

pub fn run(ctx: &Ctx) -> Report {
    let mut rep = Report::default();
    // ---- the names under which the 14 kinds appear in messages (seeded change C06-r10): every
    // kind prints its own name, no two kinds share one, and the text of a type-mismatch error
    // contains the printed names of exactly the two kinds its fields hold
    if ctx.want("c06:names") {
        let kinds: Vec<ShapeType> = ALL_CODES.iter().filter_map(|&c| ShapeType::from(c)).collect();
        for (a, ka) in kinds.iter().enumerate() {
            for kb in kinds.iter().skip(a + 1) {
                rep.eval();
                if ka.to_string() == kb.to_string() {
                    rep.violation("names/two-kinds-print-the-same-name", "c06:names", J::s(format!("{:?} and {:?} both print as {}", ka, kb, ka)));
                }
            }
            for kb in kinds.iter() {
                let msg = Error::MismatchShapeType { requested: *ka, actual: *kb }.to_string();
                rep.eval();
                rep.count("mismatch_messages_checked", 1);
                if !msg.contains(&ka.to_string()) || !msg.contains(&kb.to_string()) {
                    rep.violation("names/message-does-not-name-its-kinds", "c06:names", J::s(format!("({:?},{:?}): {}", ka, kb, msg)));
                }
            }
        }
    }
    let files_per_type = if cfg!(miri) { 1 } else { ctx.pick(3, 12) };
    let dir = format!("{}/files", ctx.out);
    if !cfg!(miri) {
        let _ = std::fs::create_dir_all(&dir);
    }

    // ---- files: records of type T for each of the 14 T
    let mut files: Vec<TestFile> = vec![];
    for &t in &ALL_CODES {
        for k in 0..files_per_type {
            let mut r = Rng::derive(ctx.seed, &[tag("c06-file"), t as u64, k as u64]);
            let (shp, shx, n) = if t == 0 {
                let n = 1 + k % 3;
                let (a, b) = null_file(n);
                (a, b, n)
            } else {
                let c = Cfg::hostile(0.1, 3, 4);
                let mut shapes = gen::sequence(t, &mut r, &c, 1, 4, k as u64);
                if k + 1 == files_per_type && !cfg!(miri) {
                    if gen::is_point(t) {
                        // many records (beyond 2^12)
                        shapes = (0..4100).map(|_| gen::shape(t, &mut r, &Cfg::plain(1, 1))).collect();
                    } else {
                        // one record beyond 64 KiB between small ones
                        shapes.push(gen::shape_exact(t, &mut r, &Cfg::plain(1, 2), 1, 4200));
                        shapes.push(gen::shape(t, &mut r, &Cfg::plain(2, 3)));
                    }
                    rep.count("files_with_a_large_record_or_many_records", 1);
                }
                let (a, b) = write_all_mem(&shapes, k % 2 == 0).expect("harness: writing a test file failed");
                (a, b, shapes.len())
            };
            let path = if cfg!(miri) || k > 0 {
                None
            } else {
                let p = format!("{}/t{}_{}.shp", dir, t, k);
                std::fs::write(&p, &shp).expect("harness: write file");
                std::fs::write(format!("{}/t{}_{}.shx", dir, t, k), &shx).expect("harness: write file");
                std::fs::write(format!("{}/t{}_{}.dbf", dir, t, k), dbf_with_rows(n)).expect("harness: write file");
                Some(p)
            };
            // the record's type code as stored, against the harness table
            if shp.len() >= 112 {
                let code = i32::from_le_bytes([shp[108], shp[109], shp[110], shp[111]]);
                if code != t {
                    rep.violation(&format!("record-code({})", type_name(t)), &format!("c06:code:{}", t), J::obj(vec![("stored", J::Int(code as i64))]));
                }
            }
            files.push(TestFile { t, shp, shx, n, path });
        }
    }

    // ---- foreign layouts (reference encoder output: unclosed rings, absent M blocks, empty
    //      parts, arbitrary record numbers, trailing bytes), homogeneous files only
    let mut foreign = 0u64;
    if let Some(dir) = ctx.opt("foreign") {
        let manifest = std::fs::read_to_string(format!("{}/files.jsonl", dir)).expect("harness: files.jsonl");
        for line in manifest.lines() {
            let get = |key: &str| -> Option<String> {
                let pat = format!("\"{}\": ", key);
                let i = line.find(&pat)? + pat.len();
                let rest = &line[i..];
                let end = rest.find(|c| c == ',' || c == '}').unwrap_or(rest.len());
                Some(rest[..end].trim().trim_matches('"').to_string())
            };
            let typed: i32 = get("typed").and_then(|v| v.parse().ok()).unwrap_or(-1);
            if typed < 1 {
                continue;
            }
            let name = get("file").expect("harness: file key");
            let shp = std::fs::read(format!("{}/{}.shp", dir, name)).expect("harness: read foreign shp");
            let declared = (crate::rawshp::header_len_words(&shp).unwrap_or(50).max(50) as usize * 2).min(shp.len());
            let n = crate::rawshp::walk(&shp[..declared]).len();
            // identity of the two conversions on shapes that did NOT come out of a constructor (stored
            // boxes unrelated to the vertices, open rings, absent measures): concrete -> Shape -> concrete
            if let Ok(Ok(shapes)) = panicmon::catch(|| ShapeReader::new(Cursor::new(shp.clone())).and_then(|r| r.read())) {
                for (k, sh) in shapes.iter().enumerate() {
                    if matches!(sh, Shape::NullShape) {
                        continue;
                    }
                    let before = sh.d();
                    let back = panicmon::catch(|| for_type!(typed, S => S::try_from(crate::shapes::clone_shape(sh)).map(|c| Shape::from(c).d())));
                    rep.eval();
                    rep.count("identity_checked_on_shapes_decoded_from_foreign_files", 1);
                    let ok = matches!(&back, Ok(Ok(d)) if *d == before);
                    if !ok {
                        rep.violation(&format!("identity-on-decoded-shape({})", type_name(typed)), &format!("c06:foreign-identity:{}:{}", name, k), J::obj(vec![("file", J::s(name.clone())), ("record", J::UInt(k as u64)), ("decoded", before.to_json())]));
                    }
                }
            }
            files.push(TestFile { t: typed, shp, shx: vec![], n, path: None });
            foreign += 1;
        }
    }
    rep.count("foreign_layout_files", foreign);

    // ---- .shp/.shx pairs on disk whose index is permuted / padded: every path route, typed
    //      against generic-then-convert
    if let Some(dir) = ctx.opt("indexed") {
        let manifest = std::fs::read_to_string(format!("{}/files.jsonl", dir)).expect("harness: files.jsonl");
        for (li, line) in manifest.lines().enumerate() {
            let get = |key: &str| -> Option<String> {
                let pat = format!("\"{}\": ", key);
                let i = line.find(&pat)? + pat.len();
                let rest = &line[i..];
                let end = rest.find(|c| c == ',' || c == '}').unwrap_or(rest.len());
                Some(rest[..end].trim().trim_matches('"').to_string())
            };
            let t: i32 = get("typed").and_then(|v| v.parse().ok()).unwrap_or(-1);
            if t < 1 {
                continue;
            }
            let name = get("file").expect("harness: file key");
            let case = format!("c06:indexed:{}", name);
            if !ctx.want(&case) || (li % 3 != 0 && name.contains("_n4_")) {
                continue; // a third of the n = 4 permutations is plenty here
            }
            let path = format!("{}/{}.{}", dir, name, get("ext").unwrap_or_else(|| "shp".into()));
            rep.eval();
            rep.class("typed vs generic by path, permuted/padded index");
            rep.count("indexed_pairs_compared_by_path", 1);
            let outcome = for_type!(t, S => panicmon::catch(|| {
                let dumps = |v: Vec<S>| v.iter().map(|s| s.d()).collect::<Vec<D>>();
                let typed_one_liner = shapefile::read_shapes_as::<_, S>(&path).map(dumps);
                let generic_one_liner = shapefile::read_shapes(&path).and_then(convert_shapes_to_vec_of::<S>).map(dumps);
                let typed_reader = ShapeReader::from_path(&path).and_then(|r| r.read_as::<S>()).map(dumps);
                let generic_reader = ShapeReader::from_path(&path).and_then(|r| r.read()).and_then(convert_shapes_to_vec_of::<S>).map(dumps);
                let typed_iter = ShapeReader::from_path(&path).and_then(|mut r| r.iter_shapes_as::<S>().collect::<Result<Vec<S>, Error>>()).map(dumps);
                let generic_iter = ShapeReader::from_path(&path).and_then(|mut r| r.iter_shapes().collect::<Result<Vec<Shape>, Error>>()).and_then(convert_shapes_to_vec_of::<S>).map(dumps);
                let str_of = |r: &Result<Vec<D>, Error>| match r { Ok(v) => format!("Ok({} shapes)", v.len()), Err(e) => err_class(e) };
                let mut bad: Option<String> = None;
                for (what, a, b) in [("read_shapes_as vs read_shapes", &typed_one_liner, &generic_one_liner), ("from_path.read_as vs from_path.read", &typed_reader, &generic_reader), ("from_path.iter_shapes_as vs iter_shapes", &typed_iter, &generic_iter), ("read_shapes_as vs from_path.read_as", &typed_one_liner, &typed_reader)] {
                    let same = match (a, b) { (Ok(x), Ok(y)) => x == y, (Err(_), Err(_)) => true, _ => false };
                    if !same && bad.is_none() {
                        bad = Some(format!("{}: {} / {}", what, str_of(a), str_of(b)));
                    }
                }
                bad
            }));
            match outcome {
                Ok(None) => {}
                Ok(Some(what)) => rep.violation(&format!("({0},{0})/path-routes/value", type_name(t)), &case, J::obj(vec![("file", J::s(name.clone())), ("what", J::s(what))])),
                Err(p) => rep.violation(&format!("({0},{0})/path-routes/panic", type_name(t)), &case, J::s(p.class())),
            }
        }
    }

    // ---- the matrix
    for &s_code in &TYPES {
        for (fi, f) in files.iter().enumerate() {
            // foreign-layout files: the diagonal and a rotating off-diagonal sample
            if f.shx.is_empty() && f.t != 0 && s_code != f.t && (fi + s_code as usize) % 5 != 0 {
                continue;
            }
            for_type!(s_code, S => cell::<S>(s_code, f, fi, &mut rep, ctx));
        }
    }
    rep.count("matrix_cells(S,T)", (TYPES.len() * ALL_CODES.len()) as u64);

    // ---- identity of every variant: shapetype(), From/TryFrom round trip, bulk conversion
    let n_id = if cfg!(miri) { 2 } else { ctx.pick(40, 400) };
    for &t in &TYPES {
        for k in 0..n_id {
            let case = format!("c06:identity:t{}:k{}", t, k);
            if !ctx.want(&case) {
                continue;
            }
            let mut r = Rng::derive(ctx.seed, &[tag("c06-id"), t as u64, k as u64]);
            let c = Cfg::hostile(0.3, 3, 4);
            let s = gen::shape(t, &mut r, &c);
            // every fourth value carries NaN coordinates as well
            let s = if k % 4 == 3 && !gen::is_point(t) { crate::shapes::with_nan_xy(&s, 2, (k % 3) as u8) } else { s };
            rep.eval();
            rep.class("identity");
            let code_by_table = variant_code(&s);
            if s.shapetype() as i32 != code_by_table {
                rep.violation(
                    &format!("shapetype({})", type_name(code_by_table)),
                    &case,
                    J::obj(vec![("variant", J::s(type_name(code_by_table))), ("shapetype()", J::s(format!("{}", s.shapetype())))]),
                );
            }
            // concrete -> generic -> concrete is the identity
            let before = s.d();
            let same = for_type!(t, S => {
                let conc: S = S::try_from(crate::shapes::clone_shape(&s)).ok().expect("harness: table broken");
                // bit-level comparison through the dump (PartialEq would reject NaN measures)
                match S::try_from(Shape::from(conc)) { Ok(back) => back.d() == before, Err(_) => false }
            });
            if !same {
                rep.violation(&format!("identity({})", type_name(t)), &case, J::obj(vec![("shape", before.to_json())]));
            }
            // every wrong target type names (S, this variant)
            for &s_code in &TYPES {
                if s_code == t {
                    continue;
                }
                let got = for_type!(s_code, S => match S::try_from(crate::shapes::clone_shape(&s)) {
                    Ok(_) => Out::Other("Ok".into()),
                    Err(Error::MismatchShapeType { requested, actual }) => Out::Mismatch(requested as i32, actual as i32),
                    Err(e) => Out::Other(err_class(&e)),
                });
                rep.eval();
                if got != Out::Mismatch(s_code, t) {
                    rep.violation(
                        &format!("({},{})/try_from/error-fields", type_name(s_code), type_name(t)),
                        &format!("{}:S{}", case, s_code),
                        J::obj(vec![("got", out_json(&got)), ("shape", before.to_json())]),
                    );
                }
            }
        }
    }
    // NullShape variant
    if ctx.want("c06:identity:null") {
        rep.eval();
        if Shape::NullShape.shapetype() as i32 != 0 {
            rep.violation("shapetype(NullShape)", "c06:identity:null", J::Null);
        }
        for &s_code in &TYPES {
            let got = for_type!(s_code, S => match S::try_from(Shape::NullShape) {
                Ok(_) => Out::Other("Ok".into()),
                Err(Error::MismatchShapeType { requested, actual }) => Out::Mismatch(requested as i32, actual as i32),
                Err(e) => Out::Other(err_class(&e)),
            });
            rep.eval();
            if got != Out::Mismatch(s_code, 0) {
                rep.violation(&format!("({},NullShape)/try_from/error-fields", type_name(s_code)), "c06:identity:null", out_json(&got));
            }
        }
    }

    // ---- bulk conversion with the odd shape at every position
    let n_bulk = if cfg!(miri) { 1 } else { ctx.pick(2, 10) };
    for &s_code in &TYPES {
        for &t in &TYPES {
            if s_code == t {
                continue;
            }
            for k in 0..n_bulk {
                let len = 1 + k % 4;
                for pos in 0..len {
                    let case = format!("c06:bulk:S{}:T{}:k{}:pos{}", s_code, t, k, pos);
                    if !ctx.want(&case) {
                        continue;
                    }
                    let mut r = Rng::derive(ctx.seed, &[tag("c06-bulk"), s_code as u64, t as u64, k as u64, pos as u64]);
                    let c = Cfg::plain(2, 3);
                    let v: Vec<Shape> = (0..len).map(|i| gen::shape(if i == pos { t } else { s_code }, &mut r, &c)).collect();
                    let got = for_type!(s_code, S => classify(panicmon::catch(|| convert_shapes_to_vec_of::<S>(v))));
                    rep.eval();
                    rep.class("bulk-convert");
                    rep.nontrivial(&format!("bulk:S{}:T{}:len{}:pos{}", s_code, t, len, pos));
                    if got != Out::Mismatch(s_code, t) {
                        rep.violation(
                            &format!("({},{})/convert_shapes_to_vec_of/error-fields", type_name(s_code), type_name(t)),
                            &case,
                            out_json(&got),
                        );
                    }
                }
            }
        }
    }
    // ---- mixed vectors and mixed files: several foreign types in one sequence; the result is
    //      decided by the FIRST element that is not an S (error naming its type), whatever follows
    let n_mixed = if cfg!(miri) { 2 } else { ctx.pick(40, 400) };
    for &s_code in &TYPES {
        for k in 0..n_mixed {
            let case = format!("c06:mixed:S{}:k{}", s_code, k);
            if !ctx.want(&case) {
                continue;
            }
            let mut r = Rng::derive(ctx.seed, &[tag("c06-mixed"), s_code as u64, k as u64]);
            let c = Cfg::plain(2, 3);
            // one sequence in eight is long (65..140 elements)
            let len = if k % 8 == 5 && !cfg!(miri) { r.usize_in(65, 140) } else { r.usize_in(2, 7) };
            let lead = if k % 3 == 0 { 0 } else { r.usize_in(0, len - 2) };
            let mut codes: Vec<i32> = vec![];
            for i in 0..len {
                codes.push(if i < lead || r.usize_in(0, 2) == 0 { s_code } else { ALL_CODES[r.usize_in(0, ALL_CODES.len() - 1)] });
            }
            if k % 2 == 0 {
                // at least two different foreign types, the later one differing from the first
                let others: Vec<i32> = ALL_CODES.iter().copied().filter(|&x| x != s_code).collect();
                let a = others[r.usize_in(0, others.len() - 1)];
                let b = *others.iter().filter(|&&x| x != a).nth(r.usize_in(0, others.len() - 2)).unwrap();
                codes[lead] = a;
                let last = len - 1;
                codes[last] = b;
            }
            let shapes: Vec<Shape> = codes.iter().map(|&t| if t == 0 { Shape::NullShape } else { gen::shape(t, &mut r, &c) }).collect();
            let foreign: Vec<i32> = codes.iter().copied().filter(|&t| t != s_code).collect();
            let want = match foreign.first() {
                Some(&t) => Out::Mismatch(s_code, t),
                None => Out::Ok(shapes.iter().map(|x| x.d()).collect()),
            };
            let distinct_foreign = {
                let mut f = foreign.clone();
                f.sort();
                f.dedup();
                f.len()
            };
            if distinct_foreign >= 2 {
                rep.count("mixed_sequences_with_two_or_more_foreign_types", 1);
            }
            // the file holding these records (no writer produces it: records concatenated by hand)
            let mut shp = vec![0u8; 100];
            shp[0..4].copy_from_slice(&9994i32.to_be_bytes());
            shp[28..32].copy_from_slice(&1000i32.to_le_bytes());
            shp[32..36].copy_from_slice(&codes[0].to_le_bytes());
            for (i, sh) in shapes.iter().enumerate() {
                let body: Vec<u8> = if codes[i] == 0 {
                    0i32.to_le_bytes().to_vec()
                } else {
                    let (one, _) = write_all_mem(std::slice::from_ref(sh), false).expect("harness: writing one shape failed");
                    one[108..].to_vec()
                };
                shp.extend_from_slice(&((i + 1) as i32).to_be_bytes());
                shp.extend_from_slice(&((body.len() / 2) as i32).to_be_bytes());
                shp.extend_from_slice(&body);
            }
            let w = (shp.len() / 2) as i32;
            shp[24..28].copy_from_slice(&w.to_be_bytes());
            let mk = || ShapeReader::new(Cursor::new(shp.clone()));
            let routes: Vec<(&str, Out)> = for_type!(s_code, S => vec![
                ("convert_shapes_to_vec_of(vector)", classify(panicmon::catch(|| convert_shapes_to_vec_of::<S>(shapes.iter().map(crate::shapes::clone_shape).collect())))),
                ("convert_shapes_to_vec_of(read())", classify(panicmon::catch(|| mk().and_then(|r| r.read()).and_then(convert_shapes_to_vec_of::<S>)))),
                ("read_as", classify(panicmon::catch(|| mk().and_then(|r| r.read_as::<S>())))),
                ("iter_shapes_as", classify(panicmon::catch(|| mk().and_then(|mut r| r.iter_shapes_as::<S>().collect::<Result<Vec<S>, Error>>())))),
            ]);
            // successful file routes are compared with the generic read of the same file (what a
            // file read does to a shape is C01's business), element by element
            let want_file = match (&want, panicmon::catch(|| mk().and_then(|r| r.read()))) {
                (Out::Ok(_), Ok(Ok(v))) if v.len() == shapes.len() && v.iter().all(|x| variant_code(x) == s_code) => Out::Ok(v.iter().map(|x| x.d()).collect()),
                (Out::Ok(_), _) => Out::Other("generic read of an all-S file failed or returned another count/type".into()),
                _ => want_mismatch_clone(&want),
            };
            for (route, got) in routes {
                let want = if route == "convert_shapes_to_vec_of(vector)" { &want } else { &want_file };
                rep.eval();
                rep.class("mixed-sequence");
                rep.nontrivial(&format!("mixed:S{}:{:?}:{}", s_code, codes, route));
                if got != *want {
                    let field = match (&got, want) {
                        (Out::Mismatch(..), Out::Mismatch(..)) => "error-fields",
                        (Out::Ok(_), Out::Ok(_)) => "value",
                        _ => "result",
                    };
                    rep.violation(
                        &format!("mixed/{}/{}/{}", type_name(s_code), route.split('(').next().unwrap(), field),
                        &case,
                        J::obj(vec![
                            ("requested_S", J::s(type_name(s_code))),
                            ("types_in_sequence", J::Arr(codes.iter().map(|&t| J::s(type_name(t))).collect())),
                            ("route", J::s(route)),
                            ("got", out_json(&got)),
                            ("want", out_json(&want)),
                            ("shp_hex", J::bytes_hex(&shp)),
                        ]),
                    );
                }
            }
        }
    }
    // ---- a record of type T whose content is NOT well formed for T (nothing but its type word;
    //      a count that contradicts the content length): requested as S != T, the answer is still
    //      the type mismatch naming T — the type word is compared before anything is decoded
    for &s_code in &TYPES {
        for &t in &TYPES {
            if s_code == t {
                continue;
            }
            for style in 0..2usize {
                let case = format!("c06:malformed:S{}:T{}:{}", s_code, t, style);
                if !ctx.want(&case) {
                    continue;
                }
                let mut r = Rng::derive(ctx.seed, &[tag("c06-malformed"), s_code as u64, t as u64, style as u64]);
                let mut shp = vec![0u8; 100];
                shp[0..4].copy_from_slice(&9994i32.to_be_bytes());
                shp[28..32].copy_from_slice(&1000i32.to_le_bytes());
                shp[32..36].copy_from_slice(&t.to_le_bytes());
                let body: Vec<u8> = if style == 0 {
                    t.to_le_bytes().to_vec()
                } else {
                    // a real record of type T with 8 bytes cut off its end (the content length says so too)
                    let one = gen::shape(t, &mut r, &Cfg::plain(2, 3));
                    let (b, _) = write_all_mem(std::slice::from_ref(&one), false).expect("harness: writing one shape failed");
                    b[108..b.len() - 8].to_vec()
                };
                shp.extend_from_slice(&1i32.to_be_bytes());
                shp.extend_from_slice(&((body.len() / 2) as i32).to_be_bytes());
                shp.extend_from_slice(&body);
                let w = (shp.len() / 2) as i32;
                shp[24..28].copy_from_slice(&w.to_be_bytes());
                let mk = || ShapeReader::new(Cursor::new(shp.clone()));
                let routes: Vec<(&str, Out)> = for_type!(s_code, S => vec![
                    ("read_as", classify(panicmon::catch(|| mk().and_then(|r| r.read_as::<S>())))),
                    ("iter_shapes_as", classify(panicmon::catch(|| mk().and_then(|mut r| r.iter_shapes_as::<S>().collect::<Result<Vec<S>, Error>>())))),
                ]);
                for (route, got) in routes {
                    rep.eval();
                    rep.class("malformed-foreign-record");
                    rep.nontrivial(&format!("malformed:S{}:T{}:{}:{}", s_code, t, style, route));
                    rep.count("typed_reads_of_a_malformed_record_of_another_type", 1);
                    if got != Out::Mismatch(s_code, t) {
                        rep.violation(
                            &format!("({},{})/{}/malformed-record", type_name(s_code), type_name(t), route),
                            &case,
                            J::obj(vec![
                                ("requested_S", J::s(type_name(s_code))),
                                ("record_type_T", J::s(type_name(t))),
                                ("content", J::s(["nothing but the type word", "a real record with its last 8 bytes missing"][style])),
                                ("got", out_json(&got)),
                                ("shp_hex", J::bytes_hex(&shp)),
                            ]),
                        );
                    }
                }
            }
        }
    }
    if ctx.only.is_none() {
        let v = rep.counters.get("mixed_sequences_with_two_or_more_foreign_types").copied().unwrap_or(0);
        rep.guard("mixed sequences with >= 2 foreign types", v, if cfg!(miri) { 1 } else { 100 });
    }
    rep.sample(|| {
        J::obj(vec![
            ("example_cell", J::s("S=Polyline over a file of PolygonZ records: every typed API must return MismatchShapeType{requested: Polyline, actual: PolygonZ}")),
            ("files", J::UInt(files.len() as u64)),
        ])
    });
    if let Some(f) = files.iter().find(|f| f.t == 28) {
        rep.sample(|| J::obj(vec![("file_of_MultipointM_records_hex", J::bytes_hex(&f.shp))]));
    }
    let cells = rep.evaluations;
    rep.guard("cells evaluated", cells, if ctx.only.is_some() { 1 } else { (TYPES.len() * ALL_CODES.len() * 4) as u64 });
    if !cfg!(miri) {
        let _ = std::fs::remove_dir_all(&dir);
    }
    rep
}
