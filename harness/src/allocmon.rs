//! Counting global allocator: the memory monitor of C17 (and the reason C07 batches survive
//! absurd allocation requests). The driver opens a per-thread *window* around one API call;
//! the allocator records, inside the allocation call itself, the largest single request and
//! the peak of live bytes relative to the window start.
//!
//! Requests above `BIG` are served by `mmap(MAP_NORESERVE)` so that a `Vec::with_capacity`
//! of tens of GiB driven by a forged count does not abort the process before the monitor can
//! report it. (A request the kernel refuses even lazily returns null; the process then aborts
//! and the parent attributes the abort to the in-flight case.)

use std::alloc::{GlobalAlloc, Layout, System};
use std::cell::Cell;

pub struct Counting;

const BIG: usize = 1 << 28;

#[derive(Clone, Copy, Default, Debug)]
pub struct Window {
    pub active: bool,
    /// live bytes allocated inside the window minus freed inside the window (may dip < 0)
    pub live: i64,
    pub peak: i64,
    pub largest: usize,
    pub requests: u64,
}

thread_local! {
    static WIN: Cell<Window> = const { Cell::new(Window { active: false, live: 0, peak: 0, largest: 0, requests: 0 }) };
}

fn on_alloc(size: usize) {
    let _ = WIN.try_with(|w| {
        let mut x = w.get();
        if x.active {
            x.requests += 1;
            if size > x.largest {
                x.largest = size;
            }
            x.live += size as i64;
            if x.live > x.peak {
                x.peak = x.live;
            }
            w.set(x);
        }
    });
}

fn on_free(size: usize) {
    let _ = WIN.try_with(|w| {
        let mut x = w.get();
        if x.active {
            x.live -= size as i64;
            w.set(x);
        }
    });
}

extern "C" {
    fn mmap(addr: *mut u8, len: usize, prot: i32, flags: i32, fd: i32, off: i64) -> *mut u8;
    fn munmap(addr: *mut u8, len: usize) -> i32;
}

unsafe fn big_alloc(size: usize) -> *mut u8 {
    // PROT_READ|PROT_WRITE, MAP_PRIVATE|MAP_ANONYMOUS|MAP_NORESERVE
    let p = mmap(std::ptr::null_mut(), size, 3, 0x2 | 0x20 | 0x4000, -1, 0);
    if p as isize == -1 {
        std::ptr::null_mut()
    } else {
        p
    }
}

unsafe impl GlobalAlloc for Counting {
    unsafe fn alloc(&self, l: Layout) -> *mut u8 {
        on_alloc(l.size());
        if l.size() > BIG {
            return big_alloc(l.size());
        }
        System.alloc(l)
    }
    unsafe fn alloc_zeroed(&self, l: Layout) -> *mut u8 {
        on_alloc(l.size());
        if l.size() > BIG {
            return big_alloc(l.size()); // anonymous mappings are zero-filled
        }
        System.alloc_zeroed(l)
    }
    unsafe fn dealloc(&self, p: *mut u8, l: Layout) {
        on_free(l.size());
        if l.size() > BIG {
            munmap(p, l.size());
            return;
        }
        System.dealloc(p, l)
    }
    unsafe fn realloc(&self, p: *mut u8, l: Layout, n: usize) -> *mut u8 {
        if n > BIG || l.size() > BIG {
            let q = self.alloc(Layout::from_size_align_unchecked(n, l.align()));
            if !q.is_null() {
                std::ptr::copy_nonoverlapping(p, q, l.size().min(n));
                self.dealloc(p, l);
            }
            return q;
        }
        on_alloc(n);
        on_free(l.size());
        System.realloc(p, l, n)
    }
}

/// Open a measurement window on this thread.
pub fn open() {
    WIN.with(|w| w.set(Window { active: true, ..Default::default() }));
}

/// Close the window and return what was observed.
pub fn close() -> Window {
    WIN.with(|w| {
        let x = w.get();
        w.set(Window::default());
        x
    })
}

/// Whether the counting allocator is installed (false under Miri).
pub fn enabled() -> bool {
    cfg!(not(miri))
}
